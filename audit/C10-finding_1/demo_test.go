package websocket

// C10 finding 1: a Reader/Read call whose context expires while the call is
// blocked writing the library's own close frame (the reply to a received close
// frame, the StatusMessageTooBig close, or a StatusProtocolError close) does not
// return promptly. The close frame is written under a fresh
// context.WithTimeout(context.Background(), 5s) (close.go: writeClose), so the
// caller's context is ignored for up to 5 s when the peer is not reading.

import (
	"bufio"
	"bytes"
	"context"
	"encoding/binary"
	"net"
	"testing"
	"time"
)

func c10f1Conn(client bool) (*Conn, net.Conn) {
	a, b := net.Pipe()
	c := newConn(connConfig{
		rwc:    a,
		client: client,
		br:     bufio.NewReader(a),
		bw:     bufio.NewWriterSize(a, 4096),
	})
	return c, b
}

// c10f1Frame builds a frame as the peer of the connection under test would send it
// (masked when the peer is the client).
func c10f1Frame(peerIsClient bool, b0 byte, payload []byte) []byte {
	var buf bytes.Buffer
	buf.WriteByte(b0)
	mb := byte(0)
	if peerIsClient {
		mb = 0x80
	}
	switch {
	case len(payload) < 126:
		buf.WriteByte(mb | byte(len(payload)))
	case len(payload) <= 65535:
		buf.WriteByte(mb | 126)
		var l [2]byte
		binary.BigEndian.PutUint16(l[:], uint16(len(payload)))
		buf.Write(l[:])
	default:
		buf.WriteByte(mb | 127)
		var l [8]byte
		binary.BigEndian.PutUint64(l[:], uint64(len(payload)))
		buf.Write(l[:])
	}
	if peerIsClient {
		key := []byte{1, 2, 3, 4}
		buf.Write(key)
		p := append([]byte(nil), payload...)
		for i := range p {
			p[i] ^= key[i%4]
		}
		buf.Write(p)
	} else {
		buf.Write(payload)
	}
	return buf.Bytes()
}

func TestC10ReadIgnoresContextWhileWritingCloseFrame(t *testing.T) {
	const ctxTimeout = 200 * time.Millisecond
	const prompt = time.Second // generous: the call must return within 1 s of its context expiring

	type scenario struct {
		name string
		wire func(peerIsClient bool) []byte
	}
	scenarios := []scenario{
		// A legal peer: sends a normal close frame, then is slow to read our reply.
		{"replyToCloseFrame", func(pc bool) []byte {
			return c10f1Frame(pc, 0x80|byte(opClose), []byte{0x03, 0xe8})
		}},
		// A legal peer: sends one message larger than our read limit and is busy writing it
		// (it does not read while it writes).
		{"messageTooBig", func(pc bool) []byte {
			return c10f1Frame(pc, 0x80|byte(opBinary), bytes.Repeat([]byte("x"), defaultReadLimit+10))
		}},
		// A misbehaving peer: RSV2 set, then does not read.
		{"protocolError", func(pc bool) []byte {
			return c10f1Frame(pc, 0x80|0x20|byte(opBinary), []byte("x"))
		}},
	}

	for _, client := range []bool{false, true} {
		for _, sc := range scenarios {
			client, sc := client, sc
			role := "server"
			if client {
				role = "client"
			}
			t.Run(role+"/"+sc.name, func(t *testing.T) {
				t.Parallel()
				c, raw := c10f1Conn(client)
				defer raw.Close()
				defer c.CloseNow()

				// The peer writes its frame(s) and never reads.
				go raw.Write(sc.wire(!client))

				ctx, cancel := context.WithTimeout(context.Background(), ctxTimeout)
				defer cancel()

				start := time.Now()
				_, _, err := c.Read(ctx)
				elapsed := time.Since(start)

				if err == nil {
					t.Fatalf("Read succeeded unexpectedly")
				}
				if elapsed < ctxTimeout {
					t.Fatalf("test premise broken: Read returned after %v, before its context expired: %v", elapsed, err)
				}
				t.Logf("Read returned after %v: %v", elapsed, err)
				if late := elapsed - ctxTimeout; late > prompt {
					t.Errorf("Read(ctx) returned %v after its context expired (context timeout %v, total %v); "+
						"the call was blocked writing a close frame under context.Background()+5s and ignored ctx. err=%v",
						late.Round(time.Millisecond), ctxTimeout, elapsed.Round(time.Millisecond), err)
				}
				select {
				case <-c.closed:
				case <-time.After(time.Second):
					t.Errorf("connection not closed after the context expired")
				}
			})
		}
	}
}
