package websocket_test

import (
	"context"
	"crypto/sha1"
	"encoding/base64"
	"fmt"
	"net/http"
	"net/http/httptest"
	"testing"
	"time"

	"nhooyr.io/websocket"
)

func c14DialWithResponse(t *testing.T, mode websocket.CompressionMode, respExt string) error {
	t.Helper()
	s := httptest.NewServer(http.HandlerFunc(func(w http.ResponseWriter, r *http.Request) {
		h := sha1.New()
		h.Write([]byte(r.Header.Get("Sec-WebSocket-Key")))
		h.Write([]byte("258EAFA5-E914-47DA-95CA-C5AB0DC85B11"))
		accept := base64.StdEncoding.EncodeToString(h.Sum(nil))
		nc, brw, err := w.(http.Hijacker).Hijack()
		if err != nil {
			return
		}
		defer nc.Close()
		fmt.Fprintf(brw, "HTTP/1.1 101 Switching Protocols\r\n"+
			"Upgrade: websocket\r\nConnection: Upgrade\r\n"+
			"Sec-WebSocket-Accept: %s\r\n"+
			"Sec-WebSocket-Extensions: %s\r\n\r\n", accept, respExt)
		brw.Flush()
		nc.SetReadDeadline(time.Now().Add(150 * time.Millisecond))
		nc.Read(make([]byte, 1024))
	}))
	defer s.Close()

	ctx, cancel := context.WithTimeout(context.Background(), 5*time.Second)
	defer cancel()
	c, _, err := websocket.Dial(ctx, s.URL, &websocket.DialOptions{CompressionMode: mode})
	if err == nil {
		c.CloseNow()
	}
	return err
}

// RFC 7692 7.1: a client MUST fail the connection if the response has a parameter
// with an invalid value or several parameters with the same name (and 7.1.2.1:
// server_max_window_bits is a decimal integer 8..15 without leading zeros).
// A window of 2^16 or 2^99 is also nothing this client (32 KiB inflate window) could honour.
func TestC14ClientAcceptsMalformedResponseParameters(t *testing.T) {
	bad := []string{
		"permessage-deflate; server_max_window_bits=16",
		"permessage-deflate; server_max_window_bits=99",
		"permessage-deflate; server_max_window_bits=7",
		"permessage-deflate; server_max_window_bits=0",
		"permessage-deflate; server_max_window_bits=015",
		"permessage-deflate; server_max_window_bits=abc",
		"permessage-deflate; server_max_window_bits=",
		"permessage-deflate; server_max_window_bits=10; server_max_window_bits=12",
		"permessage-deflate; server_no_context_takeover; server_no_context_takeover",
		"permessage-deflate; client_no_context_takeover; client_no_context_takeover",
	}
	for _, mode := range []websocket.CompressionMode{websocket.CompressionContextTakeover, websocket.CompressionNoContextTakeover} {
		for _, r := range bad {
			// in NoContextTakeover mode keep the response otherwise consistent with the offer
			resp := r
			if mode == websocket.CompressionNoContextTakeover && r[len(r)-len("server_no_context_takeover"):] != "server_no_context_takeover" {
				resp += "; server_no_context_takeover"
			}
			if err := c14DialWithResponse(t, mode, resp); err == nil {
				t.Errorf("mode=%v: Dial accepted the malformed response %q", mode, resp)
			}
		}
	}
	// controls: a well-formed response is accepted, an unknown parameter and an unoffered client_max_window_bits are rejected
	if err := c14DialWithResponse(t, websocket.CompressionContextTakeover, "permessage-deflate; server_max_window_bits=10; server_no_context_takeover"); err != nil {
		t.Errorf("control: %v", err)
	}
	if err := c14DialWithResponse(t, websocket.CompressionContextTakeover, "permessage-deflate; client_max_window_bits=10"); err == nil {
		t.Errorf("control: unoffered client_max_window_bits accepted")
	}
}
