//go:build !js

package websocket

import (
	"bufio"
	"bytes"
	"context"
	"net"
	"testing"
	"time"
)

// C04: "... and every message completed before that point is still delivered intact."
//
// A permessage-deflate message whose DEFLATE stream ends in a block with BFINAL=1
// followed by the 0x00 padding octet is legal (RFC 7692 section 7.2.3.4). When the
// padding octet is not yet in the flate bufio buffer at the moment the flate reader
// reports the end of the stream (it travels in the next fragment, or the frame is
// larger than the 4096 byte buffer), msgReader.Read sees io.EOF from the flate reader
// while the final frame has not been read in full and turns it into the error
// "failed to read: EOF" although every byte of the message was received, and is
// still waiting in the transport. The complete message is not delivered, and
// the connection cannot deliver any further message either.
func TestC04CompleteMessageWithFinalDeflateBlockNotDelivered(t *testing.T) {
	frame := func(fin, rsv1 bool, op byte, payload []byte) []byte {
		b0 := op
		if fin {
			b0 |= 0x80
		}
		if rsv1 {
			b0 |= 0x40
		}
		b := []byte{b0}
		switch {
		case len(payload) > 125:
			b = append(b, 126, byte(len(payload)>>8), byte(len(payload)))
		default:
			b = append(b, byte(len(payload)))
		}
		return append(b, payload...) // server to client: unmasked
	}
	// one stored DEFLATE block with BFINAL=1
	storedFinal := func(p []byte) []byte {
		b := []byte{0x01, byte(len(p)), byte(len(p) >> 8), ^byte(len(p)), ^byte(len(p) >> 8)}
		return append(b, p...)
	}
	pattern := func(n int) []byte {
		p := make([]byte, n)
		for i := range p {
			p[i] = byte('a' + i%26)
		}
		return p
	}

	type tc struct {
		name    string
		want    []byte
		stream  []byte
		wantErr bool
	}
	var tcs []tc

	// Control: BFINAL block and padding octet in one small frame. Works.
	p := pattern(40)
	tcs = append(tcs, tc{
		name:   "control_single_small_frame",
		want:   p,
		stream: frame(true, true, 2, append(storedFinal(p), 0x00)),
	})

	// The padding octet travels in the final fragment.
	tcs = append(tcs, tc{
		name: "padding_in_final_fragment",
		want: p,
		stream: append(
			frame(false, true, 2, storedFinal(p)),
			frame(true, false, 0, []byte{0x00})...),
	})

	// Single frame of 4097 bytes: 4096 bytes of final block, then the padding octet.
	p2 := pattern(4091)
	tcs = append(tcs, tc{
		name:   "single_frame_4097_bytes",
		want:   p2,
		stream: frame(true, true, 2, append(storedFinal(p2), 0x00)),
	})

	for _, tc := range tcs {
		tc := tc
		t.Run(tc.name, func(t *testing.T) {
			// The complete message is followed by the first 3 bytes of another
			// message, then the transport ends (cut offset inside the NEXT message).
			stream := append(append([]byte(nil), tc.stream...), 0x81, 0x05, 'h')

			p1, p2 := net.Pipe()
			go func() {
				p2.Write(stream)
				p2.Close()
			}()
			go func() {
				// Drain whatever the library writes (close frames) so nothing blocks.
				buf := make([]byte, 512)
				for {
					if _, err := p2.Read(buf); err != nil {
						return
					}
				}
			}()

			c := newConn(connConfig{
				rwc:    p1,
				client: true,
				copts:  &compressionOptions{clientNoContextTakeover: true, serverNoContextTakeover: true},
				br:     bufio.NewReader(p1),
				bw:     bufio.NewWriter(p1),
			})
			defer c.CloseNow()

			ctx, cancel := context.WithTimeout(context.Background(), 5*time.Second)
			defer cancel()

			typ, got, err := c.Read(ctx)
			if err != nil {
				t.Errorf("message of %d bytes was received completely (transport ended only inside the following message) "+
					"but reading it failed after %d bytes (payload so far correct: %v): %v",
					len(tc.want), len(got), bytes.Equal(got, tc.want), err)
			} else if typ != MessageBinary || !bytes.Equal(got, tc.want) {
				t.Errorf("complete message delivered with wrong content: typ=%v len=%d", typ, len(got))
			}

			// The following message is cut short: reading it must fail.
			_, _, err = c.Read(ctx)
			if err == nil {
				t.Errorf("truncated following message was reported complete")
			}
		})
	}
}
