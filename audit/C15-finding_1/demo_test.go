//go:build !js

package websocket

import (
	"bufio"
	"context"
	"net"
	"testing"
	"time"
)

// C15: "Ping ... otherwise returns an error once its context ends or the connection closes".
//
// The peer receives our ping and hangs up instead of answering. The goroutine that reads
// the connection (an explicit Reader loop, as the Ping documentation requires) observes the
// end of the transport and returns an error. The connection is gone, yet Ping keeps waiting
// for a pong that can never arrive until its own context ends (forever with context.Background()).
func TestC15PingHangsAfterTransportClosed(t *testing.T) {
	for _, client := range []bool{false, true} {
		a, b := net.Pipe()
		c := newConn(connConfig{
			rwc:    a,
			client: client,
			br:     bufio.NewReader(a),
			bw:     bufio.NewWriter(a),
		})

		readerErr := make(chan error, 1)
		go func() {
			for {
				_, _, err := c.Reader(context.Background())
				if err != nil {
					readerErr <- err
					return
				}
			}
		}()

		pingCtx, cancelPing := context.WithTimeout(context.Background(), 15*time.Second)
		pingErr := make(chan error, 1)
		go func() { pingErr <- c.Ping(pingCtx) }()

		// The peer reads the complete ping frame (2 byte header, 4 byte mask key for a client, payload "1") ...
		n := 3
		if client {
			n = 7
		}
		buf := make([]byte, n)
		b.SetReadDeadline(time.Now().Add(5 * time.Second))
		for got := 0; got < n; {
			m, err := b.Read(buf[got:])
			if err != nil {
				t.Fatalf("peer failed to read the ping: %v", err)
			}
			got += m
		}
		if buf[0] != 0x89 {
			t.Fatalf("expected a ping frame, got first byte %#x", buf[0])
		}
		// ... and closes the connection without answering.
		b.Close()

		select {
		case err := <-readerErr:
			t.Logf("client=%v: Reader returned: %v", client, err)
		case <-time.After(5 * time.Second):
			t.Fatal("Reader did not notice the closed transport")
		}

		select {
		case err := <-pingErr:
			if err == nil {
				t.Errorf("client=%v: Ping returned nil without a pong", client)
			}
		case <-time.After(3 * time.Second):
			t.Errorf("client=%v: the transport was closed by the peer and Reader already failed with EOF, "+
				"but Ping is still blocked 3s later (it only returns when its own context ends)", client)
			cancelPing()
			<-pingErr
		}
		cancelPing()
		c.CloseNow()
	}
}
