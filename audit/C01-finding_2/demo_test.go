package websocket_test

import (
	"bytes"
	"context"
	"testing"
	"time"

	"nhooyr.io/websocket"
	"nhooyr.io/websocket/internal/test/wstest"
)

// The server writes exactly one binary message with Conn.Write. It is larger than
// the read limit of the client, so the client's Read fails with "read limited".
// SetReadLimit documents that the connection is closed in that case. It is not:
// the unread rest of the frame payload stays in the stream and the next Read
// parses it as frames. The client receives a text message "HELLO" although the
// only message ever written on the peer endpoint is a 108 byte binary message.
func TestDemoMessageFabricatedFromPayloadAfterReadLimit(t *testing.T) {
	cc, sc := wstest.Pipe(nil, nil)
	defer cc.CloseNow()
	defer sc.CloseNow()

	cc.SetReadLimit(100)

	ctx, cancel := context.WithTimeout(context.Background(), 10*time.Second)
	defer cancel()

	// 101 arbitrary bytes followed by bytes that happen to look like a frame.
	written := make([]byte, 101)
	written = append(written, 0x81, 0x05, 'H', 'E', 'L', 'L', 'O')

	go sc.Write(ctx, websocket.MessageBinary, written)
	// The server reads as every endpoint must, this lets the client's close frame through.
	go sc.Read(ctx)

	_, _, err := cc.Read(ctx)
	if err == nil {
		t.Fatalf("expected the 108 byte message to exceed the read limit of 100")
	}
	t.Logf("first Read: %v", err)

	for i := 0; i < 3; i++ {
		typ, b, err := cc.Read(ctx)
		if err != nil {
			t.Logf("Read after the error: %v", err)
			return
		}
		if !(typ == websocket.MessageBinary && bytes.Equal(b, written)) {
			t.Fatalf("client received %v %q, a message that was never written (the peer wrote one %d byte binary message)", typ, b, len(written))
		}
	}
}
