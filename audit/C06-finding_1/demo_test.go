//go:build !js

package websocket

import (
	"bufio"
	"encoding/binary"
	"fmt"
	"io"
	"net"
	"testing"
	"time"
)

// C06: "Close returns nil when the peer echoes the code."
//
// A legal peer that had a ping in flight when our close frame reached it sends
// [ping][close echo with the same code and reason] and then closes the transport
// (it has sent and received a close frame, so the WebSocket connection is closed
// for it; it never reads the pong). Conn.Close reads the ping first, fails to
// write the pong and gives up with that error although the echo of its close
// frame is the very next frame (already sitting in its bufio.Reader).
func TestC06CloseFailsWhenPingPrecedesEcho(t *testing.T) {
	for _, libIsClient := range []bool{true, false} {
		libIsClient := libIsClient
		t.Run(fmt.Sprintf("libIsClient=%v", libIsClient), func(t *testing.T) {
			a, b := net.Pipe()
			c := newConn(connConfig{
				rwc:    a,
				client: libIsClient,
				br:     bufio.NewReader(a),
				bw:     bufio.NewWriter(a),
			})
			defer c.CloseNow()
			defer b.Close()

			const code = StatusCode(4000)
			const reason = "bye"

			peerErr := make(chan error, 1)
			go func() {
				peerErr <- func() error {
					b.SetDeadline(time.Now().Add(10 * time.Second))
					op, p, err := c06f1ReadFrame(b)
					if err != nil {
						return fmt.Errorf("peer: reading the close frame: %w", err)
					}
					if op != 8 || len(p) < 2 || StatusCode(binary.BigEndian.Uint16(p)) != code || string(p[2:]) != reason {
						return fmt.Errorf("peer: expected close frame %d %q, got opcode %d payload %q", code, reason, op, p)
					}
					// A ping that was already on its way, then the echo, in one segment.
					out := c06f1Frame(9, !libIsClient, []byte("keepalive"))
					out = append(out, c06f1Frame(8, !libIsClient, p)...)
					if _, err := b.Write(out); err != nil {
						return fmt.Errorf("peer: writing ping+echo: %w", err)
					}
					// Close handshake complete for the peer: it closes the transport.
					return b.Close()
				}()
			}()

			err := c.Close(code, reason)
			if perr := <-peerErr; perr != nil {
				t.Fatal(perr)
			}
			if err != nil {
				t.Fatalf("the peer echoed close code %d and reason %q, but Close returned: %v", code, reason, err)
			}
		})
	}
}

func c06f1Frame(op byte, masked bool, payload []byte) []byte {
	out := []byte{0x80 | op, byte(len(payload))}
	if !masked {
		return append(out, payload...)
	}
	out[1] |= 0x80
	key := [4]byte{0x11, 0x22, 0x33, 0x44}
	out = append(out, key[:]...)
	for i, x := range payload {
		out = append(out, x^key[i%4])
	}
	return out
}

func c06f1ReadFrame(r io.Reader) (op byte, payload []byte, err error) {
	var h [2]byte
	if _, err = io.ReadFull(r, h[:]); err != nil {
		return 0, nil, err
	}
	op = h[0] & 0x0f
	n := int(h[1] & 0x7f)
	if n > 125 {
		return 0, nil, fmt.Errorf("unexpected long frame")
	}
	var key [4]byte
	masked := h[1]&0x80 != 0
	if masked {
		if _, err = io.ReadFull(r, key[:]); err != nil {
			return 0, nil, err
		}
	}
	payload = make([]byte, n)
	if _, err = io.ReadFull(r, payload); err != nil {
		return 0, nil, err
	}
	if masked {
		for i := range payload {
			payload[i] ^= key[i%4]
		}
	}
	return op, payload, nil
}
