//go:build !js

package websocket

import (
	"bufio"
	"bytes"
	"context"
	"io"
	"net"
	"testing"
	"time"
)

// Property C05: "A read that races with Close, CloseNow or a context expiry either
// completes its message correctly or fails, and whatever bytes it returns are a prefix
// of that message."
//
// Schedule: the application has read the first 10 bytes of a message, then another
// goroutine calls Close. Close's waitCloseHandshake takes readMu between two Read calls
// and discards the rest of the current frame WITHOUT updating msgReader.payloadLength.
// When the peer then answers with a frame that is a protocol error (here: an unmasked
// frame sent to a server), waitCloseHandshake returns the error and releases readMu while
// the connection is still open. The reader that was blocked on readMu resumes with the
// stale payloadLength and hands the bytes that follow on the wire (foreign frame headers
// and payloads) to the application as if they were the rest of the message.
//
// The window between readUnlock in waitCloseHandshake and c.close() in Close is short, so
// the test repeats the schedule until it is hit (typically within a few hundred attempts).
func TestC05ReadRacingCloseReturnsForeignBytes(t *testing.T) {
	deadline := time.Now().Add(18 * time.Second)
	attempts := 0
	for time.Now().Before(deadline) {
		attempts++
		if got := c05Attempt(t); got != nil {
			t.Fatalf("attempt %d: a Read racing with Close returned %d bytes that are NOT part of the message "+
				"(the message consists only of 'M'): %q ...", attempts, len(got), c05Trunc(got))
		}
	}
	t.Logf("not reproduced in %d attempts", attempts)
}

func c05Trunc(b []byte) []byte {
	if len(b) > 48 {
		return b[:48]
	}
	return b
}

func c05Frame(fin bool, op opcode, masked bool, payload []byte) []byte {
	var buf bytes.Buffer
	bw := bufio.NewWriter(&buf)
	h := header{fin: fin, opcode: op, payloadLength: int64(len(payload)), masked: masked}
	p := append([]byte(nil), payload...)
	if masked {
		h.maskKey = 0x11223344
		mask(p, h.maskKey)
	}
	var hb [8]byte
	writeFrameHeader(h, bw, hb[:])
	bw.Write(p)
	bw.Flush()
	return buf.Bytes()
}

// c05Attempt returns the foreign bytes the reader handed out, or nil.
func c05Attempt(t *testing.T) []byte {
	p1, p2 := net.Pipe()
	defer p2.Close()
	c := newConn(connConfig{rwc: p1, client: false, br: bufio.NewReader(p1), bw: bufio.NewWriter(p1)})
	defer c.CloseNow()
	c.SetReadLimit(-1)

	// The peer discards whatever the server writes (close frame).
	go io.Copy(io.Discard, p2)

	// A perfectly legal first fragment of a binary message: 100000 x 'M', masked, FIN=0.
	msg := bytes.Repeat([]byte("M"), 100000)
	frame1Written := make(chan struct{})
	go func() {
		p2.Write(c05Frame(false, opBinary, true, msg))
		close(frame1Written)
	}()

	ctx, cancel := context.WithTimeout(context.Background(), 5*time.Second)
	defer cancel()
	_, r, err := c.Reader(ctx)
	if err != nil {
		t.Fatal(err)
	}
	first := make([]byte, 10)
	if _, err := io.ReadFull(r, first); err != nil {
		t.Fatal(err)
	}
	if !bytes.Equal(first, msg[:10]) {
		t.Fatalf("unexpected first bytes %q", first)
	}

	// The closer fires between two Read calls.
	closeDone := make(chan struct{})
	go func() {
		defer close(closeDone)
		c.Close(StatusNormalClosure, "")
	}()

	// net.Pipe is synchronous: once the whole first frame was taken from the pipe although the
	// application only read 10 bytes, Close's waitCloseHandshake holds readMu and has discarded it.
	select {
	case <-frame1Written:
	case <-time.After(5 * time.Second):
		t.Fatal("close handshake did not discard the frame")
	}

	// The application continues to read its message; it blocks on readMu.
	res := make(chan []byte, 1)
	go func() {
		rest, _ := io.ReadAll(r)
		res <- rest
	}()
	time.Sleep(300 * time.Microsecond)

	// The peer now violates the protocol (unmasked frame from a client) and keeps sending.
	tail := append(c05Frame(true, opBinary, false, []byte("zz")), bytes.Repeat([]byte("G"), 4000)...)
	go p2.Write(tail)

	rest := <-res
	<-closeDone
	for i, b := range rest {
		if b != 'M' {
			return rest[i:]
		}
	}
	return nil
}
