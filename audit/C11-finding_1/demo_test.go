package websocket_test

import (
	"bufio"
	"crypto/sha1"
	"encoding/base64"
	"net"
	"net/http"
	"net/http/httptest"
	"testing"
	"time"

	"nhooyr.io/websocket"
)

// C11: a Sec-WebSocket-Key (or a Connection/Upgrade token) that is surrounded by
// non-ASCII Unicode white space (U+00A0, U+0085, U+2003, U+3000 ...) is not a
// 16 byte base64 key / not the token "upgrade", yet Accept upgrades the request,
// and the Sec-WebSocket-Accept it sends is not the hash of the key it validated.
func TestC11UnicodeWhitespaceKey(t *testing.T) {
	s := httptest.NewServer(http.HandlerFunc(func(w http.ResponseWriter, r *http.Request) {
		c, err := websocket.Accept(w, r, nil)
		if err != nil {
			return
		}
		c.Close(websocket.StatusNormalClosure, "")
	}))
	defer s.Close()

	const goodKey = "dGhlIHNhbXBsZSBub25jZQ=="
	sum := sha1.Sum([]byte(goodKey + "258EAFA5-E914-47DA-95CA-C5AB0DC85B11"))
	acceptOfGoodKey := base64.StdEncoding.EncodeToString(sum[:])

	do := func(conn, upg, key string) *http.Response {
		nc, err := net.Dial("tcp", s.Listener.Addr().String())
		if err != nil {
			t.Fatal(err)
		}
		defer nc.Close()
		nc.SetDeadline(time.Now().Add(5 * time.Second))
		raw := "GET /ws HTTP/1.1\r\nHost: example.com\r\n" +
			"Connection: " + conn + "\r\nUpgrade: " + upg + "\r\n" +
			"Sec-WebSocket-Version: 13\r\nSec-WebSocket-Key: " + key + "\r\n\r\n"
		if _, err := nc.Write([]byte(raw)); err != nil {
			t.Fatal(err)
		}
		resp, err := http.ReadResponse(bufio.NewReader(nc), &http.Request{Method: "GET"})
		if err != nil {
			t.Fatal(err)
		}
		return resp
	}

	// sanity: the plain request is upgraded.
	if resp := do("Upgrade", "websocket", goodKey); resp.StatusCode != 101 || resp.Header.Get("Sec-WebSocket-Accept") != acceptOfGoodKey {
		t.Fatalf("sanity: %d %q", resp.StatusCode, resp.Header.Get("Sec-WebSocket-Accept"))
	}

	for _, key := range []string{goodKey + "\u00a0", "\u2003" + goodKey, "\u0085" + goodKey + "\u3000"} {
		if b, err := base64.StdEncoding.DecodeString(key); err == nil && len(b) == 16 {
			t.Fatalf("test bug: %q is a valid key", key)
		}
		resp := do("Upgrade", "websocket", key)
		if resp.StatusCode == 101 {
			t.Errorf("key %q does not base64-decode to 16 bytes but the request was upgraded (101); Sec-WebSocket-Accept=%q, accept of the key that was validated=%q",
				key, resp.Header.Get("Sec-WebSocket-Accept"), acceptOfGoodKey)
		}
	}
	// same root cause (strings.TrimSpace instead of trimming SP / HTAB) for the token lists.
	if resp := do("Upgrade\u2003", "websocket", goodKey); resp.StatusCode == 101 {
		t.Errorf("Connection %q does not contain the token upgrade but the request was upgraded", "Upgrade\u2003")
	}
	if resp := do("Upgrade", "\u3000websocket", goodKey); resp.StatusCode == 101 {
		t.Errorf("Upgrade %q does not contain the token websocket but the request was upgraded", "\u3000websocket")
	}
}
