package websocket_test

// C19 demo: after wsjson.Read has failed because a message exceeds the read limit, the
// connection is neither closed nor is the rest of the oversized message skipped. The next
// wsjson.Read parses the unread remainder of that message's payload as WebSocket frames and
// returns, with a nil error, a "value" that the peer never sent as a message.
//
// The peer here is perfectly legal: it sends ONE text message that is valid UTF-8 and valid
// JSON (a single long JSON string, as a chat relay would forward user supplied content).

import (
	"bufio"
	"context"
	"encoding/binary"
	"encoding/json"
	"io"
	"net"
	"net/http"
	"strings"
	"testing"
	"time"
	"unicode/utf8"

	"nhooyr.io/websocket"
	"nhooyr.io/websocket/wsjson"
)

type c19RT struct{ conn net.Conn }

func (rt c19RT) RoundTrip(r *http.Request) (*http.Response, error) {
	h := http.Header{}
	h.Set("Connection", "Upgrade")
	h.Set("Upgrade", "websocket")
	h.Set("Sec-WebSocket-Accept", websocket.SecWebSocketAccept(r.Header.Get("Sec-WebSocket-Key")))
	return &http.Response{StatusCode: http.StatusSwitchingProtocols, Header: h, Body: rt.conn}, nil
}

// c19ServerFrame builds an unmasked (server to client) frame.
func c19ServerFrame(fin bool, op byte, payload []byte) []byte {
	b0 := op
	if fin {
		b0 |= 0x80
	}
	b := []byte{b0}
	n := len(payload)
	switch {
	case n < 126:
		b = append(b, byte(n))
	case n < 65536:
		b = append(b, 126)
		b = binary.BigEndian.AppendUint16(b, uint16(n))
	default:
		b = append(b, 127)
		b = binary.BigEndian.AppendUint64(b, uint64(n))
	}
	return append(b, payload...)
}

func TestC19_ReadAfterTooBigDecodesPayloadAsMessage(t *testing.T) {
	a, raw := net.Pipe()
	defer raw.Close()
	c, _, err := websocket.Dial(context.Background(), "ws://example.com", &websocket.DialOptions{
		HTTPClient: &http.Client{Transport: c19RT{a}},
	})
	if err != nil {
		t.Fatal(err)
	}
	defer c.CloseNow()
	// default read limit: 32768 bytes.

	// One JSON string. Its content is chosen (think: text supplied by a third party and relayed
	// by the server) such that the bytes following the first 32769 payload bytes read like the
	// frame  [FIN, text, len=32]  "[1,2,3]<25 spaces>".
	// 0xC2 0x81 is the valid UTF-8 encoding of U+0081; 0x20 is a space.
	inner := "[1,2,3]" + strings.Repeat(" ", 25)
	doc := `"` + strings.Repeat("a", 32767) + "\xc2" + "\x81\x20" + inner + `"`
	if !utf8.ValidString(doc) || !json.Valid([]byte(doc)) {
		t.Fatal("bad test setup: the message must be valid UTF-8 and valid JSON")
	}

	closeCode := make(chan int, 1)
	go func() {
		// the peer reads what the library sends (masked client frames) and reports the close code
		br := bufio.NewReader(raw)
		for {
			var h [2]byte
			if _, err := io.ReadFull(br, h[:]); err != nil {
				return
			}
			n := int(h[1] & 0x7f) // control frames only: < 126
			p := make([]byte, 4+n)
			if _, err := io.ReadFull(br, p); err != nil {
				return
			}
			if h[0]&0xf == 8 && n >= 2 {
				closeCode <- int(p[4]^p[0])<<8 | int(p[5]^p[1])
			}
		}
	}()
	go raw.Write(c19ServerFrame(true, 1, []byte(doc)))

	ctx, cancel := context.WithTimeout(context.Background(), 10*time.Second)
	defer cancel()

	var v1 interface{}
	err = wsjson.Read(ctx, c, &v1)
	if err == nil {
		t.Fatalf("a message of %d bytes was accepted with a read limit of 32768", len(doc))
	}
	t.Logf("first wsjson.Read: %v", err)
	select {
	case code := <-closeCode:
		t.Logf("peer received close frame with status %d", code)
	case <-time.After(5 * time.Second):
		t.Fatal("no close frame")
	}

	// The peer sent exactly one message and it was rejected. There is no further message.
	var v2 interface{}
	err = wsjson.Read(ctx, c, &v2)
	if err == nil {
		t.Fatalf("second wsjson.Read returned %v with a nil error, but the peer never sent such a message: "+
			"the tail of the rejected message's payload was parsed as a frame", v2)
	}
	t.Logf("second wsjson.Read: %v", err)
}
