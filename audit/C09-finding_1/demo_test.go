package websocket_test

import (
	"context"
	"testing"
	"time"

	"nhooyr.io/websocket"
	"nhooyr.io/websocket/internal/test/wstest"
)

// C09: "CloseNow returns promptly" whatever the peer does, in particular in the
// local state "CloseRead active ... including when CloseRead itself closes [the
// connection] because a data message arrived".
//
// The peer sends one data message and then goes silent (it neither reads nor
// answers). CloseRead reacts by starting a close handshake of its own in its
// goroutine. A CloseNow issued while that handshake is pending does not close the
// transport: it finds c.closing already set and just waits for the handshake to
// run into its 5 s timeouts.
func TestDemoC09CloseNowDuringCloseReadHandshake(t *testing.T) {
	client, server := wstest.Pipe(nil, nil)
	defer client.CloseNow()

	ctx := server.CloseRead(context.Background())

	// Peer: one data message, then silence (never reads, never closes).
	wctx, cancel := context.WithTimeout(context.Background(), 2*time.Second)
	defer cancel()
	err := client.Write(wctx, websocket.MessageBinary, []byte("unexpected"))
	if err != nil {
		t.Fatalf("peer write: %v", err)
	}

	// Let the CloseRead goroutine see the message and begin its close handshake.
	time.Sleep(200 * time.Millisecond)

	start := time.Now()
	done := make(chan error, 1)
	go func() { done <- server.CloseNow() }()

	select {
	case err := <-done:
		t.Logf("CloseNow returned %v after %v", err, time.Since(start))
	case <-time.After(20 * time.Second):
		t.Fatalf("CloseNow still blocked after 20s")
	}
	if d := time.Since(start); d > time.Second {
		t.Errorf("CloseNow took %v; it must return promptly and close the connection now", d)
	}

	select {
	case <-ctx.Done():
	case <-time.After(time.Second):
		t.Errorf("CloseRead context not cancelled after CloseNow returned")
	}
}
