package websocket

// C10 finding 2 (low severity, stale handle): after a message was read to io.EOF
// (or a message writer was closed successfully) and the context of that call is
// cancelled, touching the finished handle once more -- r.Read after io.EOF, or a
// second w.Close() as in the common `defer w.Close()` idiom -- closes the whole
// connection about half of the time, because mu.lock(ctx) selects between the
// free lock and the done context at random and calls closeTransport for the latter.

import (
	"bufio"
	"context"
	"io"
	"net"
	"testing"
)

func c10f2Conn(client bool) (*Conn, net.Conn) {
	a, b := net.Pipe()
	c := newConn(connConfig{
		rwc:    a,
		client: client,
		br:     bufio.NewReader(a),
		bw:     bufio.NewWriterSize(a, 4096),
	})
	return c, b
}

func TestC10CancelAfterSuccessClosesConnViaFinishedHandle(t *testing.T) {
	const rounds = 40

	t.Run("readerAfterEOF", func(t *testing.T) {
		closedCount := 0
		var sample error
		for i := 0; i < rounds; i++ {
			// The connection under test is the client; the peer sends an unmasked text frame "hello".
			c, raw := c10f2Conn(true)
			go raw.Write([]byte{0x81, 0x05, 'h', 'e', 'l', 'l', 'o'})

			ctx, cancel := context.WithCancel(context.Background())
			_, r, err := c.Reader(ctx)
			if err != nil {
				t.Fatal(err)
			}
			b, err := io.ReadAll(r) // the complete message was read successfully, io.EOF seen
			if err != nil || string(b) != "hello" {
				t.Fatalf("read: %q %v", b, err)
			}
			cancel() // after success: must be harmless

			_, rerr := r.Read(make([]byte, 8)) // e.g. a bufio.Reader / decoder polling once more after EOF
			select {
			case <-c.closed:
				closedCount++
				sample = rerr
			default:
				if rerr != io.EOF {
					t.Errorf("Read after EOF returned %v, want io.EOF", rerr)
				}
			}
			c.CloseNow()
			raw.Close()
		}
		if closedCount > 0 {
			t.Errorf("in %d of %d rounds the connection was closed by a context cancelled after the complete message had been read successfully (Read after EOF returned: %v)", closedCount, rounds, sample)
		}
	})

	t.Run("writerSecondClose", func(t *testing.T) {
		closedCount := 0
		var sample error
		for i := 0; i < rounds; i++ {
			c, raw := c10f2Conn(false)
			go io.Copy(io.Discard, raw)

			ctx, cancel := context.WithCancel(context.Background())
			w, err := c.Writer(ctx, MessageText)
			if err != nil {
				t.Fatal(err)
			}
			if _, err := w.Write([]byte("hello")); err != nil {
				t.Fatal(err)
			}
			if err := w.Close(); err != nil { // the write completed successfully
				t.Fatal(err)
			}
			cancel() // after success: must be harmless

			cerr := w.Close() // `defer w.Close()` idiom
			select {
			case <-c.closed:
				closedCount++
				sample = cerr
			default:
			}
			c.CloseNow()
			raw.Close()
		}
		if closedCount > 0 {
			t.Errorf("in %d of %d rounds the connection was closed by a context cancelled after the message had been written successfully (second Close returned: %v)", closedCount, rounds, sample)
		}
	})
}
