//go:build !js

package websocket_test

import (
	"bufio"
	"bytes"
	"compress/flate"
	"context"
	"crypto/sha1"
	"encoding/base64"
	"encoding/binary"
	"net"
	"net/http"
	"strings"
	"testing"
	"time"

	"nhooyr.io/websocket"
)

// C13: Dial(CompressionNoContextTakeover) offers
//   permessage-deflate; client_no_context_takeover; server_no_context_takeover
// The server answers with a bare "permessage-deflate", i.e. it did NOT agree to
// server_no_context_takeover (RFC 7692 7.1.1.1: a server accepts that parameter only by
// echoing it) and therefore compresses with context takeover. Dial must either refuse this
// response (it does not correspond to the offer / a configuration the client in this mode
// does not support) or honour it by decoding with a sliding window. Instead it returns a
// connection that still assumes server_no_context_takeover and cannot decode the second message.
func TestC13UnechoedServerNoContextTakeover(t *testing.T) {
	ln, err := net.Listen("tcp", "127.0.0.1:0")
	if err != nil {
		t.Fatal(err)
	}
	defer ln.Close()

	msg := []byte(strings.Repeat("the quick brown fox jumps over the lazy dog 0123456789 ", 20))

	offer := make(chan string, 1)
	go func() {
		c, err := ln.Accept()
		if err != nil {
			return
		}
		defer c.Close()
		br := bufio.NewReader(c)
		req, err := http.ReadRequest(br)
		if err != nil {
			return
		}
		offer <- req.Header.Get("Sec-WebSocket-Extensions")

		h := sha1.New()
		h.Write([]byte(req.Header.Get("Sec-WebSocket-Key")))
		h.Write([]byte("258EAFA5-E914-47DA-95CA-C5AB0DC85B11"))
		accept := base64.StdEncoding.EncodeToString(h.Sum(nil))

		var out bytes.Buffer
		out.WriteString("HTTP/1.1 101 Switching Protocols\r\n" +
			"Connection: Upgrade\r\n" +
			"Upgrade: websocket\r\n" +
			"Sec-WebSocket-Accept: " + accept + "\r\n" +
			"Sec-WebSocket-Extensions: permessage-deflate\r\n\r\n")

		// One DEFLATE context for all messages: server context takeover, which is what
		// a bare "permessage-deflate" response stands for.
		var z bytes.Buffer
		fw, _ := flate.NewWriter(&z, flate.BestSpeed)
		for i := 0; i < 2; i++ {
			z.Reset()
			fw.Write(msg)
			fw.Flush()
			p := z.Bytes()
			p = p[:len(p)-4] // strip 00 00 ff ff
			out.WriteByte(0x80 | 0x40 | 0x1) // FIN, RSV1, text
			switch {
			case len(p) < 126:
				out.WriteByte(byte(len(p)))
			default:
				out.WriteByte(126)
				var l [2]byte
				binary.BigEndian.PutUint16(l[:], uint16(len(p)))
				out.Write(l[:])
			}
			out.Write(p)
		}
		c.Write(out.Bytes())
		// Wait for the client to go away.
		c.SetReadDeadline(time.Now().Add(10 * time.Second))
		for {
			if _, err := br.ReadByte(); err != nil {
				return
			}
		}
	}()

	ctx, cancel := context.WithTimeout(context.Background(), 10*time.Second)
	defer cancel()

	c, _, err := websocket.Dial(ctx, "ws://"+ln.Addr().String(), &websocket.DialOptions{
		HTTPClient:      &http.Client{Transport: &http.Transport{DisableKeepAlives: true}},
		CompressionMode: websocket.CompressionNoContextTakeover,
	})
	if got := <-offer; !strings.Contains(got, "server_no_context_takeover") {
		t.Fatalf("test premise: offer was %q", got)
	}
	if err != nil {
		// Refusing the response is fine.
		if c != nil {
			t.Fatalf("Dial returned both a connection and an error: %v", err)
		}
		t.Logf("Dial refused the response: %v", err)
		return
	}
	defer c.CloseNow()

	// Dial accepted "permessage-deflate" without server_no_context_takeover, so it has to
	// be able to read what a server with context takeover sends.
	for i := 0; i < 2; i++ {
		_, b, err := c.Read(ctx)
		if err != nil {
			t.Fatalf("Dial accepted a response without server_no_context_takeover but message %d from a server using context takeover cannot be read: %v", i+1, err)
		}
		if !bytes.Equal(b, msg) {
			t.Fatalf("message %d corrupted", i+1)
		}
	}
}
