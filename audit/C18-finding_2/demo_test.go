package websocket_test

import (
	"context"
	"testing"
	"time"

	"nhooyr.io/websocket"
	"nhooyr.io/websocket/internal/test/wstest"
)

// A read deadline that is reset to "no deadline" while no call is active must leave
// Read working. SetReadDeadline clears the expired flag and stops the timer without
// synchronising with a timer callback that is already running, so the callback of the
// OLD deadline can mark the conn expired (or cancel the read context and kill the
// connection) after the deadline was reset.
func TestC18DeadlineResetRace(t *testing.T) {
	c, s := wstest.Pipe(nil, nil)
	defer c.CloseNow()
	defer s.CloseNow()

	ctx, cancel := context.WithCancel(context.Background())
	defer cancel()

	nc := websocket.NetConn(ctx, c, websocket.MessageBinary)
	ns := websocket.NetConn(ctx, s, websocket.MessageBinary)

	// The peer streams bytes for ever so that every Read has data available.
	writerDone := make(chan struct{})
	go func() {
		defer close(writerDone)
		chunk := make([]byte, 32768)
		for {
			if _, err := ns.Write(chunk); err != nil {
				return
			}
		}
	}()
	defer func() {
		c.CloseNow()
		s.CloseNow()
		<-writerDone
	}()

	buf := make([]byte, 1)
	start := time.Now()
	for i := 0; time.Since(start) < 15*time.Second; i++ {
		// A deadline a few microseconds ahead; no call is active while it passes (or not).
		d := time.Now().Add(20 * time.Microsecond)
		nc.SetReadDeadline(d)
		target := d.Add(time.Duration(i%400-100) * 100 * time.Nanosecond)
		for time.Now().Before(target) {
		}
		// Reset: from here on there is no deadline at all.
		nc.SetReadDeadline(time.Time{})
		time.Sleep(50 * time.Microsecond) // whatever the old timer was doing, it is done now

		// No deadline is set, so this must succeed.
		_, err := nc.Read(buf)
		if err != nil {
			t.Fatalf("iteration %d (%v): Read after SetReadDeadline(time.Time{}) failed: %v", i, time.Since(start), err)
		}
	}
}
