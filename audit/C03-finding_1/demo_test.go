//go:build !js

package websocket

import (
	"bufio"
	"bytes"
	"compress/flate"
	"context"
	"io"
	"math/rand"
	"net"
	"testing"
	"time"
)

// C03: a valid compressed message that ends with a BFINAL=1 DEFLATE block (RFC 7692 7.2.3.4)
// must be delivered whatever its fragmentation. The library fails the read with
// "failed to read: EOF" whenever the final block ends before the last payload byte /
// last frame of the message has been pulled from the transport.
func TestAuditC03BFinalFragmented(t *testing.T) {
	// finalPayload returns the payload a sender following RFC 7692 7.2.3.4 produces:
	// a DEFLATE stream whose last block has BFINAL=1, followed by a 0x00 byte
	// (so that appending 00 00 ff ff yields an empty stored block).
	finalPayload := func(data []byte) []byte {
		var buf bytes.Buffer
		w, _ := flate.NewWriter(&buf, flate.BestSpeed)
		w.Write(data)
		w.Close()
		return append(buf.Bytes(), 0x00)
	}
	// unmasked frame (we play the server, the endpoint under test is a client)
	frame := func(fin, rsv1 bool, op byte, payload []byte) []byte {
		b0 := op
		if fin {
			b0 |= 0x80
		}
		if rsv1 {
			b0 |= 0x40
		}
		b := []byte{b0}
		switch n := len(payload); {
		case n < 126:
			b = append(b, byte(n))
		default:
			b = append(b, 126, byte(n>>8), byte(n))
		}
		return append(b, payload...)
	}

	// The very example of RFC 7692 7.2.3.4: "Hello" in one fixed Huffman block with BFINAL=1 (7 bytes) and the 0x00 byte.
	hello := []byte{0xf3, 0x48, 0xcd, 0xc9, 0xc9, 0x07, 0x00, 0x00}

	// reference decoding per RFC 7692 7.2.2: append 00 00 ff ff and inflate.
	inflate := func(payload []byte) []byte {
		in := append(append([]byte{}, payload...), 0x00, 0x00, 0xff, 0xff)
		out, err := io.ReadAll(flate.NewReader(bytes.NewReader(in)))
		if err != nil {
			t.Fatalf("test bug: payload is not a valid DEFLATE stream: %v", err)
		}
		return out
	}
	if string(inflate(hello)) != "Hello" {
		t.Fatal("test bug")
	}

	// a single unfragmented frame whose compressed payload is 4097 bytes: the trailing
	// 0x00 is the first byte after the 4096 byte buffer of the flate bufio reader.
	var big, bigPayload []byte
	rng := rand.New(rand.NewSource(1))
	for n := 3900; n < 4300; n++ {
		d := make([]byte, n)
		rng.Read(d)
		if p := finalPayload(d); len(p) == 4097 {
			big, bigPayload = d, p
			break
		}
	}
	if big == nil || !bytes.Equal(inflate(bigPayload), big) {
		t.Fatal("could not construct the 4097 byte payload")
	}

	cases := []struct {
		name   string
		stream []byte
		want   []byte
	}{
		{"control: unfragmented 7.2.3.4 example", frame(true, true, 1, hello), []byte("Hello")},
		{"final block in frame 1, padding byte in FIN continuation", append(frame(false, true, 1, hello[:7]), frame(true, false, 0, hello[7:])...), []byte("Hello")},
		{"whole payload in frame 1, empty FIN continuation", append(frame(false, true, 1, hello), frame(true, false, 0, nil)...), []byte("Hello")},
		{"single FIN frame, 4097 byte payload", frame(true, true, 2, bigPayload), big},
	}
	for _, noTakeover := range []bool{false, true} {
		for _, tc := range cases {
			a, b := net.Pipe()
			c := newConn(connConfig{
				rwc:    a,
				client: true,
				copts:  &compressionOptions{clientNoContextTakeover: noTakeover, serverNoContextTakeover: noTakeover},
				br:     bufio.NewReader(a),
				bw:     bufio.NewWriter(a),
			})
			go io.Copy(io.Discard, b)
			stream := append(append([]byte{}, tc.stream...), frame(true, false, 2, []byte("next"))...)
			go func() {
				b.SetWriteDeadline(time.Now().Add(5 * time.Second))
				b.Write(stream)
			}()
			ctx, cancel := context.WithTimeout(context.Background(), 5*time.Second)
			_, got, err := c.Read(ctx)
			if err != nil || !bytes.Equal(got, tc.want) {
				t.Errorf("no_context_takeover=%v, %s: Read returned %d bytes, err = %v; want the %d byte message and no error", noTakeover, tc.name, len(got), err, len(tc.want))
			} else {
				_, got, err = c.Read(ctx)
				if err != nil || string(got) != "next" {
					t.Errorf("no_context_takeover=%v, %s: following message: %q, %v", noTakeover, tc.name, got, err)
				}
			}
			cancel()
			c.CloseNow()
			b.Close()
		}
	}
}
