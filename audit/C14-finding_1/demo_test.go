package websocket_test

import (
	"bytes"
	"compress/flate"
	"context"
	"crypto/sha1"
	"encoding/base64"
	"fmt"
	"net/http"
	"net/http/httptest"
	"strings"
	"testing"
	"time"

	"nhooyr.io/websocket"
)

// A client dialing with CompressionNoContextTakeover offers
//   permessage-deflate; client_no_context_takeover; server_no_context_takeover
// The server below answers with a bare "permessage-deflate", i.e. the agreed
// parameters are: server keeps its LZ77 context across messages. The reference
// server then applies exactly what it answered. The client must either reject
// that response or decode with context takeover; it does neither: Dial succeeds
// and the client holds serverNoContextTakeover=true.
func TestC14ClientAssumesServerNoContextTakeoverNotInResponse(t *testing.T) {
	offerc := make(chan string, 1)
	srvErr := make(chan error, 1)

	msgs := []string{}
	base := strings.Repeat("the quick brown fox jumps over the lazy dog 0123456789 ", 12) // 672 bytes
	for i := 0; i < 4; i++ {
		msgs = append(msgs, fmt.Sprintf("msg %d: %s", i, base))
	}

	s := httptest.NewServer(http.HandlerFunc(func(w http.ResponseWriter, r *http.Request) {
		offerc <- r.Header.Get("Sec-WebSocket-Extensions")
		h := sha1.New()
		h.Write([]byte(r.Header.Get("Sec-WebSocket-Key")))
		h.Write([]byte("258EAFA5-E914-47DA-95CA-C5AB0DC85B11"))
		accept := base64.StdEncoding.EncodeToString(h.Sum(nil))

		nc, brw, err := w.(http.Hijacker).Hijack()
		if err != nil {
			srvErr <- err
			return
		}
		defer nc.Close()
		fmt.Fprintf(brw, "HTTP/1.1 101 Switching Protocols\r\n"+
			"Upgrade: websocket\r\nConnection: Upgrade\r\n"+
			"Sec-WebSocket-Accept: %s\r\n"+
			"Sec-WebSocket-Extensions: permessage-deflate\r\n\r\n", accept)
		brw.Flush()

		// Negotiated: no server_no_context_takeover => one compressor for the whole connection.
		var buf bytes.Buffer
		fw, _ := flate.NewWriter(&buf, flate.BestSpeed)
		for _, m := range msgs {
			buf.Reset()
			fw.Write([]byte(m))
			fw.Flush()
			p := buf.Bytes()
			p = p[:len(p)-4] // strip 00 00 ff ff
			var f []byte
			f = append(f, 0x80|0x40|0x1) // FIN, RSV1, text
			if len(p) < 126 {
				f = append(f, byte(len(p)))
			} else {
				f = append(f, 126, byte(len(p)>>8), byte(len(p)))
			}
			f = append(f, p...)
			if _, err := nc.Write(f); err != nil {
				srvErr <- err
				return
			}
		}
		// keep the connection open until the client is done
		nc.SetReadDeadline(time.Now().Add(10 * time.Second))
		nc.Read(make([]byte, 1024))
		srvErr <- nil
	}))
	defer s.Close()

	ctx, cancel := context.WithTimeout(context.Background(), 10*time.Second)
	defer cancel()

	c, _, err := websocket.Dial(ctx, s.URL, &websocket.DialOptions{
		CompressionMode: websocket.CompressionNoContextTakeover,
	})
	offer := <-offerc
	t.Logf("client offer:    %q", offer)
	t.Logf("server response: %q", "permessage-deflate")
	if err != nil {
		// Rejecting a response it cannot honour is fine.
		t.Logf("client rejected the response: %v", err)
		return
	}
	defer c.CloseNow()

	for i, want := range msgs {
		_, got, err := c.Read(ctx)
		if err != nil {
			t.Fatalf("handshake succeeded, but the client cannot decode message %d compressed with the negotiated parameters (server context takeover): %v", i, err)
		}
		if string(got) != want {
			t.Fatalf("message %d decoded wrongly: got %q want %q", i, got, want)
		}
	}
}
