//go:build !js

package websocket

import (
	"bufio"
	"bytes"
	"context"
	"io"
	"net"
	"testing"
	"time"
)

// C15: "Ping returns nil only after a Pong carrying that ping's own payload has been received
// ... unsolicited or unmatched Pongs are ignored."
//
// Schedule: the peer stops reading for a moment, so an application Write is blocked in the
// transport and holds the frame write lock. Ping is called and waits for that lock; its
// (predictable, "1") payload is already registered as an active ping although no ping frame
// has been written. The peer now sends an unsolicited Pong "1" (unidirectional heartbeat),
// then resumes reading, receives the data message and the ping, and never answers the ping.
// Ping nevertheless returns nil: it was completed by a pong that was received before the ping
// was sent.
func TestC15PingCompletedByEarlierUnsolicitedPong(t *testing.T) {
	a, b := net.Pipe()
	c := newConn(connConfig{
		rwc:    a,
		client: false,
		br:     bufio.NewReader(a),
		bw:     bufio.NewWriter(a),
	})
	defer c.CloseNow()

	go func() {
		for {
			_, _, err := c.Reader(context.Background())
			if err != nil {
				return
			}
		}
	}()

	// 1. An application write that blocks because the peer is not reading.
	writeErr := make(chan error, 1)
	go func() {
		writeErr <- c.Write(context.Background(), MessageBinary, bytes.Repeat([]byte("x"), 10000))
	}()
	time.Sleep(100 * time.Millisecond)

	// 2. Ping; blocks behind the write.
	pingCtx, cancel := context.WithTimeout(context.Background(), 2*time.Second)
	defer cancel()
	pingErr := make(chan error, 1)
	start := time.Now()
	go func() { pingErr <- c.Ping(pingCtx) }()
	time.Sleep(100 * time.Millisecond)

	// 3. Nothing has been read by the peer so far: no ping is on the wire.
	//    The peer (a client, so the frame is masked with key 0) sends an unsolicited pong "1".
	b.SetWriteDeadline(time.Now().Add(5 * time.Second))
	_, err := b.Write([]byte{0x8A, 0x80 | 1, 0, 0, 0, 0, '1'})
	if err != nil {
		t.Fatal(err)
	}
	time.Sleep(100 * time.Millisecond)
	select {
	case err := <-pingErr:
		t.Fatalf("Ping returned before its frame could have been written: %v", err)
	default:
	}

	// 4. The peer resumes reading, sees the data message followed by the ping, and stays silent.
	received := make(chan []byte, 1)
	go func() {
		var all []byte
		buf := make([]byte, 4096)
		for {
			b.SetReadDeadline(time.Now().Add(500 * time.Millisecond))
			n, err := b.Read(buf)
			all = append(all, buf[:n]...)
			if err != nil {
				received <- all
				io.Copy(io.Discard, b)
				return
			}
		}
	}()

	if err := <-writeErr; err != nil {
		t.Fatalf("write: %v", err)
	}
	err = <-pingErr
	all := <-received
	if !bytes.HasSuffix(all, []byte{0x89, 1, '1'}) {
		t.Fatalf("peer did not receive the ping frame last: % x", all[len(all)-8:])
	}
	if err == nil {
		t.Fatalf("Ping returned nil after %v although the peer never answered it; "+
			"the only pong was sent before the ping frame was written", time.Since(start))
	}
	t.Logf("Ping returned %v", err)
}
