package websocket_test

import (
	"bytes"
	"compress/flate"
	"context"
	"crypto/sha1"
	"encoding/base64"
	"fmt"
	"math/rand"
	"net"
	"net/http"
	"net/http/httptest"
	"testing"
	"time"

	"nhooyr.io/websocket"
)

func c14Frame(fin, rsv1 bool, op byte, p []byte) []byte {
	b0 := op
	if fin {
		b0 |= 0x80
	}
	if rsv1 {
		b0 |= 0x40
	}
	f := []byte{b0}
	if len(p) < 126 {
		f = append(f, byte(len(p)))
	} else {
		f = append(f, 126, byte(len(p)>>8), byte(len(p)))
	}
	return append(f, p...)
}

// c14Server answers the handshake with a plain "permessage-deflate" (to a client that offered
// exactly that) and then writes the given raw frames.
func c14Server(t *testing.T, frames [][]byte) *httptest.Server {
	return httptest.NewServer(http.HandlerFunc(func(w http.ResponseWriter, r *http.Request) {
		h := sha1.New()
		h.Write([]byte(r.Header.Get("Sec-WebSocket-Key")))
		h.Write([]byte("258EAFA5-E914-47DA-95CA-C5AB0DC85B11"))
		accept := base64.StdEncoding.EncodeToString(h.Sum(nil))
		nc, brw, err := w.(http.Hijacker).Hijack()
		if err != nil {
			return
		}
		defer nc.Close()
		fmt.Fprintf(brw, "HTTP/1.1 101 Switching Protocols\r\nUpgrade: websocket\r\nConnection: Upgrade\r\n"+
			"Sec-WebSocket-Accept: %s\r\nSec-WebSocket-Extensions: permessage-deflate\r\n\r\n", accept)
		brw.Flush()
		for _, f := range frames {
			if _, err := nc.(net.Conn).Write(f); err != nil {
				return
			}
		}
		nc.SetReadDeadline(time.Now().Add(5 * time.Second))
		nc.Read(make([]byte, 1024))
	}))
}

func c14ReadAll(t *testing.T, name string, frames [][]byte, want [][]byte) {
	s := c14Server(t, frames)
	defer s.Close()
	ctx, cancel := context.WithTimeout(context.Background(), 5*time.Second)
	defer cancel()
	c, _, err := websocket.Dial(ctx, s.URL, &websocket.DialOptions{CompressionMode: websocket.CompressionContextTakeover})
	if err != nil {
		t.Fatalf("%s: dial: %v", name, err)
	}
	defer c.CloseNow()
	c.SetReadLimit(-1)
	for i, w := range want {
		_, got, err := c.Read(ctx)
		if err != nil {
			t.Errorf("%s: message %d: %v", name, i, err)
			return
		}
		if !bytes.Equal(got, w) {
			t.Errorf("%s: message %d: got %d bytes, want %d bytes", name, i, len(got), len(w))
			return
		}
	}
}

// RFC 7692 7.2.3.4: a sender may flush with a DEFLATE block that has BFINAL=1; the payload then is that
// block followed by one octet 0x00 (the example in the RFC is f3 48 cd c9 c9 07 00 | 00 for "Hello").
// RFC 6455 lets the sender (or an intermediary) fragment the message anywhere.
func TestC14FinalBlockThenPaddingNotDecodable(t *testing.T) {
	hello := []byte{0xf3, 0x48, 0xcd, 0xc9, 0xc9, 0x07, 0x00, 0x00}

	// control: in one frame it is decoded
	c14ReadAll(t, "control/one-frame", [][]byte{c14Frame(true, true, 1, hello), c14Frame(true, true, 1, hello)},
		[][]byte{[]byte("Hello"), []byte("Hello")})

	// (a) the same payload, the trailing 0x00 octet in its own (final) frame
	c14ReadAll(t, "fragmented", [][]byte{
		c14Frame(false, true, 1, hello[:7]), c14Frame(true, false, 0, hello[7:]),
		c14Frame(true, true, 1, hello),
	}, [][]byte{[]byte("Hello"), []byte("Hello")})

	// (b) a single unfragmented frame whose payload is 4097 bytes: final block in the first 4096, then the 0x00 octet
	rng := rand.New(rand.NewSource(5))
	pool := make([]byte, 20000)
	for i := range pool {
		pool[i] = byte('a' + rng.Intn(20))
	}
	var msg, payload []byte
	for sz := 6500; sz < len(pool); sz++ {
		var buf bytes.Buffer
		fw, _ := flate.NewWriter(&buf, flate.BestCompression)
		fw.Write(pool[:sz])
		fw.Close() // BFINAL=1
		if buf.Len()+1 == 4097 {
			msg, payload = pool[:sz], append(buf.Bytes(), 0x00)
			break
		}
	}
	if payload == nil {
		t.Fatal("could not build a 4097 byte payload")
	}
	c14ReadAll(t, "single-frame-4097", [][]byte{c14Frame(true, true, 2, payload), c14Frame(true, true, 1, hello)},
		[][]byte{msg, []byte("Hello")})
}
