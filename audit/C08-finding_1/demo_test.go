//go:build !js

package websocket

import (
	"bufio"
	"bytes"
	"context"
	"io"
	"net"
	"testing"
	"time"
)

// A compressed message whose DEFLATE stream ends in a block with BFINAL=1
// (RFC 7692 section 7.2.3.4, "Hello" = f3 48 cd c9 c9 07 00 followed by the 0x00 pad)
// is far below the read limit, but it is only delivered when the whole frame payload
// happens to sit in the 4096 byte flate bufio reader at the moment the final block ends.
// If the bytes after the final block arrive in another frame (or behind a 4096 byte
// boundary of a single frame) the read fails with "failed to read: EOF", no close frame
// is sent and the connection is wedged ("previous message not read to completion").
func TestC08FinalDeflateBlockFollowedByMoreFramePayload(t *testing.T) {
	maskedFrame := func(fin, rsv1 bool, op byte, payload []byte) []byte {
		b0 := op
		if fin {
			b0 |= 0x80
		}
		if rsv1 {
			b0 |= 0x40
		}
		b := []byte{b0}
		switch {
		case len(payload) > 125:
			b = append(b, 0x80|126, byte(len(payload)>>8), byte(len(payload)))
		default:
			b = append(b, 0x80|byte(len(payload)))
		}
		key := [4]byte{0xa1, 0xb2, 0xc3, 0xd4}
		b = append(b, key[:]...)
		for i, c := range payload {
			b = append(b, c^key[i%4])
		}
		return b
	}

	hello := []byte{0xf3, 0x48, 0xcd, 0xc9, 0xc9, 0x07, 0x00} // RFC 7692 7.2.3.4, BFINAL=1
	pad := []byte{0x00}

	// stored block with BFINAL=1 that ends exactly at payload offset 4096, then the pad.
	big := bytes.Repeat([]byte("x"), 4096-5)
	storedFinal := append([]byte{0x01, byte(len(big)), byte(len(big) >> 8), ^byte(len(big)), ^byte(len(big) >> 8)}, big...)

	type tc struct {
		name string
		wire []byte
		want []byte
	}
	cases := []tc{
		{
			name: "control: final block and pad in one small frame",
			wire: maskedFrame(true, true, 1, append(append([]byte{}, hello...), pad...)),
			want: []byte("Hello"),
		},
		{
			name: "pad byte in its own final frame",
			wire: append(maskedFrame(false, true, 1, hello), maskedFrame(true, false, 0, pad)...),
			want: []byte("Hello"),
		},
		{
			name: "final block in first frame, empty final frame",
			wire: append(maskedFrame(false, true, 1, hello), maskedFrame(true, false, 0, nil)...),
			want: []byte("Hello"),
		},
		{
			name: "single frame, final block ends at payload offset 4096, then pad",
			wire: maskedFrame(true, true, 2, append(append([]byte{}, storedFinal...), pad...)),
			want: big,
		},
	}

	for _, tc := range cases {
		for _, mode := range []CompressionMode{CompressionNoContextTakeover, CompressionContextTakeover} {
			func() {
				a, b := net.Pipe()
				c := newConn(connConfig{
					rwc:    a,
					client: false,
					copts:  mode.opts(),
					br:     bufio.NewReader(a),
					bw:     bufio.NewWriter(a),
				})
				drained := make(chan struct{})
				go func() {
					defer close(drained)
					io.Copy(io.Discard, b)
				}()
				defer func() {
					c.CloseNow()
					b.Close()
					<-drained
				}()

				wire := append(append([]byte{}, tc.wire...), maskedFrame(true, false, 1, []byte("next"))...)
				go func() {
					b.SetWriteDeadline(time.Now().Add(5 * time.Second))
					b.Write(wire)
				}()

				ctx, cancel := context.WithTimeout(context.Background(), 5*time.Second)
				defer cancel()

				// default read limit: 32768, the message has 5 (resp. 4091) bytes.
				_, got, err := c.Read(ctx)
				if err != nil || !bytes.Equal(got, tc.want) {
					t.Errorf("%s (mode %d): message of %d bytes within the read limit was not delivered: got %d bytes, err = %v",
						tc.name, mode, len(tc.want), len(got), err)
					_, _, err = c.Read(ctx)
					t.Logf("%s (mode %d): following Read: err = %v", tc.name, mode, err)
					return
				}
				_, got, err = c.Read(ctx)
				if err != nil || string(got) != "next" {
					t.Errorf("%s (mode %d): following message not delivered: %q, %v", tc.name, mode, got, err)
				}
			}()
		}
	}
}
