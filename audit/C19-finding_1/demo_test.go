package websocket_test

// C19 demo: a legal permessage-deflate text message whose DEFLATE stream ends
// with a BFINAL=1 block (RFC 7692 section 7.2.3.4) is rejected by wsjson.Read
// with "failed to read: EOF" whenever the end of the DEFLATE stream does not
// coincide with the very last payload byte of the FIN frame, e.g. when the
// message ends with an empty FIN continuation frame (the same framing this
// library's own writer produces), or when the RFC's trailing 0x00 octet is the
// 4097th byte of a frame.

import (
	"bufio"
	"bytes"
	"compress/flate"
	"context"
	"encoding/binary"
	"io"
	"net"
	"net/http/httptest"
	"strings"
	"testing"
	"time"

	"nhooyr.io/websocket"
	"nhooyr.io/websocket/wsjson"
)

type c19Hijacker struct {
	*httptest.ResponseRecorder
	conn net.Conn
}

func (hj c19Hijacker) Hijack() (net.Conn, *bufio.ReadWriter, error) {
	return hj.conn, bufio.NewReadWriter(bufio.NewReader(hj.conn), bufio.NewWriter(hj.conn)), nil
}

// c19Server returns a library server connection with permessage-deflate negotiated
// and the raw client side of the transport.
func c19Server(t *testing.T) (*websocket.Conn, net.Conn) {
	a, b := net.Pipe()
	r := httptest.NewRequest("GET", "/", nil)
	r.Header.Set("Connection", "Upgrade")
	r.Header.Set("Upgrade", "websocket")
	r.Header.Set("Sec-WebSocket-Version", "13")
	r.Header.Set("Sec-WebSocket-Key", "dGhlIHNhbXBsZSBub25jZQ==")
	r.Header.Set("Sec-WebSocket-Extensions", "permessage-deflate; client_no_context_takeover; server_no_context_takeover")
	w := c19Hijacker{httptest.NewRecorder(), a}
	c, err := websocket.Accept(w, r, &websocket.AcceptOptions{CompressionMode: websocket.CompressionNoContextTakeover})
	if err != nil {
		t.Fatal(err)
	}
	if got := w.Header().Get("Sec-WebSocket-Extensions"); !strings.HasPrefix(got, "permessage-deflate") {
		t.Fatalf("permessage-deflate not negotiated: %q", got)
	}
	go io.Copy(io.Discard, b)
	return c, b
}

// c19Frame builds a masked client frame.
func c19Frame(fin, rsv1 bool, op byte, payload []byte) []byte {
	b0 := op
	if fin {
		b0 |= 0x80
	}
	if rsv1 {
		b0 |= 0x40
	}
	b := []byte{b0}
	n := len(payload)
	switch {
	case n < 126:
		b = append(b, 0x80|byte(n))
	case n < 65536:
		b = append(b, 0x80|126)
		b = binary.BigEndian.AppendUint16(b, uint16(n))
	default:
		b = append(b, 0x80|127)
		b = binary.BigEndian.AppendUint64(b, uint64(n))
	}
	key := [4]byte{0x11, 0x22, 0x33, 0x44}
	b = append(b, key[:]...)
	for i, c := range payload {
		b = append(b, c^key[i%4])
	}
	return b
}

// c19DeflateFinal compresses p into a complete DEFLATE stream whose last block has BFINAL=1.
func c19DeflateFinal(p []byte) []byte {
	var buf bytes.Buffer
	fw, _ := flate.NewWriter(&buf, flate.BestSpeed)
	fw.Write(p)
	fw.Close()
	return buf.Bytes()
}

func TestC19_BFINALMessageWithTrailingFrame(t *testing.T) {
	const doc = `{"hello":"world","n":[1,2,3]}`
	type want struct {
		Hello string
		N     []int
	}

	read := func(t *testing.T, name string, wire []byte) {
		c, raw := c19Server(t)
		defer c.CloseNow()
		defer raw.Close()
		go func() {
			raw.Write(wire)
			// A second, plain message. It shows whether the connection is still usable.
			raw.Write(c19Frame(true, false, 1, []byte(`{"hello":"again"}`)))
		}()
		ctx, cancel := context.WithTimeout(context.Background(), 10*time.Second)
		defer cancel()

		var v want
		err := wsjson.Read(ctx, c, &v)
		if err != nil {
			t.Errorf("%s: wsjson.Read of a valid JSON text message failed: %v", name, err)
			return
		}
		if v.Hello != "world" || len(v.N) != 3 {
			t.Errorf("%s: decoded %+v", name, v)
		}
		var v2 want
		err = wsjson.Read(ctx, c, &v2)
		if err != nil || v2.Hello != "again" {
			t.Errorf("%s: second message: %+v, %v", name, v2, err)
		}
	}

	stream := c19DeflateFinal([]byte(doc))

	// Control: the very same DEFLATE stream in a single frame is accepted.
	read(t, "single frame", c19Frame(true, true, 1, stream))

	// Control: split over two non-empty frames is accepted, too.
	read(t, "two non-empty frames", append(
		c19Frame(false, true, 1, stream[:5]),
		c19Frame(true, false, 0, stream[5:])...))

	// The same stream, followed by an empty FIN continuation frame. This is the framing
	// the library's own msgWriter uses (data frames, then an empty fin frame).
	read(t, "data frame + empty FIN frame", append(
		c19Frame(false, true, 1, stream),
		c19Frame(true, false, 0, nil)...))

	// The form from RFC 7692 section 7.2.3.4: BFINAL=1 block followed by a single 0x00 octet,
	// here in ONE frame. A stored BFINAL=1 block of 4091 bytes is 4096 bytes long, so the
	// 0x00 octet is byte 4097 of the payload, just past what the 4096 byte bufio reader
	// in front of the flate reader fetches at once.
	big := `{"hello":"world","n":[1,2,3],"pad":"` + strings.Repeat("x", 4091-38) + `"}`
	if len(big) != 4091 {
		t.Fatalf("bad test setup: %d", len(big))
	}
	stored := []byte{0x01, 0, 0, 0, 0}
	binary.LittleEndian.PutUint16(stored[1:], uint16(len(big)))
	binary.LittleEndian.PutUint16(stored[3:], ^uint16(len(big)))
	stored = append(stored, big...)
	stored = append(stored, 0x00)
	read(t, "RFC 7692 7.2.3.4 form, single frame of 4097 bytes", c19Frame(true, true, 1, stored))
}
