package websocket

import (
	"bufio"
	"bytes"
	"compress/flate"
	"context"
	"encoding/binary"
	"io"
	"net"
	"testing"
	"time"
)

// c18Frame encodes one (client, i.e. masked) WebSocket frame by hand.
func c18Frame(fin, rsv1 bool, op opcode, p []byte) []byte {
	var b bytes.Buffer
	b0 := byte(op)
	if fin {
		b0 |= 0x80
	}
	if rsv1 {
		b0 |= 0x40
	}
	b.WriteByte(b0)
	switch n := len(p); {
	case n > 65535:
		b.WriteByte(0x80 | 127)
		var x [8]byte
		binary.BigEndian.PutUint64(x[:], uint64(n))
		b.Write(x[:])
	case n > 125:
		b.WriteByte(0x80 | 126)
		var x [2]byte
		binary.BigEndian.PutUint16(x[:], uint16(n))
		b.Write(x[:])
	default:
		b.WriteByte(0x80 | byte(n))
	}
	key := [4]byte{0xa1, 0xb2, 0xc3, 0xd4}
	b.Write(key[:])
	for i, c := range p {
		b.WriteByte(c ^ key[i%4])
	}
	return b.Bytes()
}

// A legal permessage-deflate peer may end the DEFLATE stream of a message with a block
// that has BFINAL=1, followed by the octet 0x00 (RFC 7692 section 7.2.3.4). The bytes
// of such messages must come out of the net.Conn adapter like any others.
func TestC18NetConnBFinalMessage(t *testing.T) {
	run := func(t *testing.T, frames [][]byte, want string) {
		a, b := net.Pipe()
		srv := newConn(connConfig{
			rwc: a, client: false, copts: &compressionOptions{},
			br: bufio.NewReader(a), bw: bufio.NewWriter(a),
		})
		defer srv.CloseNow()
		defer b.Close()
		go io.Copy(io.Discard, b) // the raw peer ignores what the server sends
		go func() {
			for _, f := range frames {
				b.Write(f)
			}
			b.Write(c18Frame(true, false, opBinary, []byte("|next")))   // a second, plain message
			b.Write(c18Frame(true, false, opClose, []byte{0x03, 0xe8})) // close 1000
		}()

		ctx, cancel := context.WithTimeout(context.Background(), 5*time.Second)
		defer cancel()
		nc := NetConn(ctx, srv, MessageBinary)
		got, err := io.ReadAll(nc) // io.EOF (normal closure) is reported as nil
		if err != nil {
			t.Errorf("read error: %v (after %d bytes, want %d bytes and io.EOF)", err, len(got), len(want)+5)
			return
		}
		if string(got) != want+"|next" {
			t.Errorf("stream mismatch: got %d bytes, want %d", len(got), len(want)+5)
		}
	}

	t.Run("rfc7692-example-in-two-frames", func(t *testing.T) {
		// RFC 7692 section 7.2.3.4: "Hello" in one BFINAL=1 block (7 octets) plus 0x00.
		payload := []byte{0xf3, 0x48, 0xcd, 0xc9, 0xc9, 0x07, 0x00, 0x00}
		run(t, [][]byte{
			c18Frame(false, true, opBinary, payload[:7]),
			c18Frame(true, false, opContinuation, payload[7:]),
		}, "Hello")
	})

	t.Run("single-frame-4097-bytes", func(t *testing.T) {
		// One unfragmented frame; the mandatory trailing 0x00 is byte 4097 of the payload.
		data := bytes.Repeat([]byte("0123456789abcdef"), 256)[:4086]
		var z bytes.Buffer
		fw, _ := flate.NewWriter(&z, flate.NoCompression)
		fw.Write(data)
		fw.Close() // ends the stream with a BFINAL=1 block
		payload := append(z.Bytes(), 0x00)
		if len(payload) != 4097 {
			t.Fatalf("setup: payload is %d bytes", len(payload))
		}
		run(t, [][]byte{c18Frame(true, true, opBinary, payload)}, string(data))
	})

	t.Run("control-same-message-unfragmented-small", func(t *testing.T) {
		// The same RFC example in a single frame works, so the message itself is accepted.
		payload := []byte{0xf3, 0x48, 0xcd, 0xc9, 0xc9, 0x07, 0x00, 0x00}
		run(t, [][]byte{c18Frame(true, true, opBinary, payload)}, "Hello")
	})
}
