package main

import (
	"fmt"
	"go/ast"
	"go/constant"
	"go/token"
	"go/types"
	"path/filepath"
	"strings"

	"golang.org/x/tools/go/ssa"
)

func init() {
	register("C17", propInfo{
		Explanation: "Decided for the portable implementation, by a shape certificate on maskGo's syntax with constant evaluation (no execution): (i) key64 replicates the key into both halves; (ii) every unrolled loop guarded by len(b) >= N consists of load/xor/store pairs over identical little-endian word ranges that tile [0,N) without gap or overlap, uses key64 for 64-bit and key for 32-bit words, N ≡ 0 (mod 4), and ends with b = b[N:]; (iii) the tail XORs byte by byte with byte(key) and rotates the key right by 8 per byte; (iv) key is assigned nowhere else and is returned. From (i)–(iv) the start of b stays ≡ 0 (mod 4) relative to the original start through all word loops, a little-endian word XOR with the replicated key XORs byte j with key byte j mod 4, and the returned key is the input rotated by 8·(len mod 4): the RFC 6455 §5.3 transform, chunk-composable. Callers thread the returned key; mask() forwards to maskGo on every analysed architecture; the assembly is unreachable.",
		Decides: []string{
			"C17.shape: certificate (i)–(iv) on maskGo",
			"C17.thread: every mask call stores its result back where its key came from (msgReader.maskKey; loop-carried key in writeFramePayload starting at writeHeader.maskKey) or masks a whole control payload once",
			"C17.slice: the slice masked is the slice just filled (read side: buffer[:n] of readFramePayload; write side: writeBuf[i:Buffered()] with i = Buffered() before the Write)",
			"C17.safe: mask.go imports neither unsafe nor reflect; all accesses are bounds-checked slice expressions",
			"C17.asm: mask forwards to maskGo in every analysed configuration; maskAsm has no caller",
		},
		NotDecided: []string{"the assembly routines (no IR for .s files; unreachable while mask forwards to maskGo)", "alignment behaviour (the portable code has no alignment-dependent path)"},
		Trusted:    []string{"go/types, go/ast", "encoding/binary.LittleEndian, math/bits.RotateLeft32 contracts", "the paper argument from (i)–(iv) to the RFC transform, recorded above"},
	}, runC17)
}

func runC17(p *Program, r *Report) {
	c17shape(p, r, "C17.shape")
	c17thread(p, r, "C17.thread")
	c17slice(p, r, "C17.slice")
	c17safe(p, r, "C17.safe")
}

// ---- shape certificate on the AST ---------------------------------------------------------------------------------

type shapeCtx struct {
	p    *Program
	info *types.Info
	errs []string
	b    types.Object // parameter b
	key  types.Object // parameter key
	k64  types.Object // key64
	nLoops, nPairs int
}

func (c *shapeCtx) fail(n ast.Node, format string, a ...interface{}) {
	c.errs = append(c.errs, c.p.Pos(n.Pos())+": "+fmt.Sprintf(format, a...))
}

func (c *shapeCtx) constInt(e ast.Expr) (int64, bool) {
	if tv, ok := c.info.Types[e]; ok && tv.Value != nil && tv.Value.Kind() == constant.Int {
		return constant.Int64Val(tv.Value)
	}
	return 0, false
}

func (c *shapeCtx) isObj(e ast.Expr, o types.Object) bool {
	id, ok := ast.Unparen(e).(*ast.Ident)
	return ok && o != nil && c.info.Uses[id] == o
}

// lenGuard matches len(b) >= N.
func (c *shapeCtx) lenGuard(e ast.Expr) (int64, bool) {
	be, ok := ast.Unparen(e).(*ast.BinaryExpr)
	if !ok || be.Op != token.GEQ {
		return 0, false
	}
	call, ok := be.X.(*ast.CallExpr)
	if !ok || len(call.Args) != 1 || !c.isObj(call.Args[0], c.b) {
		return 0, false
	}
	if id, ok := call.Fun.(*ast.Ident); !ok || id.Name != "len" {
		return 0, false
	}
	return c.constInt(be.Y)
}

// leCall matches binary.LittleEndian.<name>(args...).
func (c *shapeCtx) leCall(e ast.Expr) (string, []ast.Expr, bool) {
	call, ok := ast.Unparen(e).(*ast.CallExpr)
	if !ok {
		return "", nil, false
	}
	sel, ok := call.Fun.(*ast.SelectorExpr)
	if !ok {
		return "", nil, false
	}
	inner, ok := sel.X.(*ast.SelectorExpr)
	if !ok || inner.Sel.Name != "LittleEndian" {
		return "", nil, false
	}
	if id, ok := inner.X.(*ast.Ident); !ok || c.info.Uses[id] == nil {
		return "", nil, false
	} else if pn, ok := c.info.Uses[id].(*types.PkgName); !ok || pn.Imported().Path() != "encoding/binary" {
		return "", nil, false
	}
	return sel.Sel.Name, call.Args, true
}

// sliceRange of b or b[lo:hi]; width is the word size in bytes when the slice is open (plain b).
func (c *shapeCtx) sliceRange(e ast.Expr, width int64) (lo, hi int64, ok bool) {
	e = ast.Unparen(e)
	if c.isObj(e, c.b) {
		return 0, width, true
	}
	se, isS := e.(*ast.SliceExpr)
	if !isS || !c.isObj(se.X, c.b) || se.Slice3 {
		return 0, 0, false
	}
	if se.Low != nil {
		if lo, ok = c.constInt(se.Low); !ok {
			return 0, 0, false
		}
	}
	if se.High == nil {
		return lo, lo + width, true
	}
	hi, ok = c.constInt(se.High)
	return lo, hi, ok
}

func (c *shapeCtx) wordLoop(f *ast.ForStmt) {
	N, ok := c.lenGuard(f.Cond)
	if !ok || f.Init != nil || f.Post != nil {
		c.fail(f, "loop is not of the form `for len(b) >= N`")
		return
	}
	c.nLoops++
	if N%4 != 0 || N <= 0 {
		c.fail(f, "loop width %d is not a positive multiple of 4", N)
	}
	stmts := f.Body.List
	if len(stmts) == 0 {
		c.fail(f, "empty loop body")
		return
	}
	// last statement: b = b[N:]
	last, ok := stmts[len(stmts)-1].(*ast.AssignStmt)
	okAdv := false
	if ok && last.Tok == token.ASSIGN && len(last.Lhs) == 1 && c.isObj(last.Lhs[0], c.b) {
		if se, ok := last.Rhs[0].(*ast.SliceExpr); ok && c.isObj(se.X, c.b) && se.High == nil && se.Low != nil {
			if lo, ok := c.constInt(se.Low); ok && lo == N {
				okAdv = true
			}
		}
	}
	if !okAdv {
		c.fail(f, "loop for len(b) >= %d does not end with b = b[%d:]", N, N)
	}
	covered := make([]bool, N)
	body := stmts[:len(stmts)-1]
	if len(body)%2 != 0 {
		c.fail(f, "loop body is not a sequence of load/store pairs")
		return
	}
	for i := 0; i < len(body); i += 2 {
		ld, ok1 := body[i].(*ast.AssignStmt)
		st, ok2 := body[i+1].(*ast.ExprStmt)
		if !ok1 || !ok2 || len(ld.Lhs) != 1 || len(ld.Rhs) != 1 {
			c.fail(body[i], "statement pair is not `v := LE.UintW(b[lo:hi]); LE.PutUintW(b[lo:hi], v^K)`")
			return
		}
		vid, ok := ld.Lhs[0].(*ast.Ident)
		if !ok {
			c.fail(ld, "load target is not a variable")
			return
		}
		vobj := c.info.Defs[vid]
		if vobj == nil {
			vobj = c.info.Uses[vid]
		}
		lname, largs, ok := c.leCall(ld.Rhs[0])
		if !ok || len(largs) != 1 || (lname != "Uint64" && lname != "Uint32") {
			c.fail(ld, "load is not binary.LittleEndian.Uint64/Uint32")
			return
		}
		W := int64(8)
		if lname == "Uint32" {
			W = 4
		}
		lo, hi, ok := c.sliceRange(largs[0], W)
		if !ok || hi-lo != W {
			c.fail(ld, "load range is not a constant %d-byte window of b", W)
			return
		}
		sname, sargs, ok := c.leCall(st.X)
		if !ok || len(sargs) != 2 || sname != "Put"+lname {
			c.fail(st, "store is not binary.LittleEndian.Put%s", lname)
			return
		}
		slo, shi, ok := c.sliceRange(sargs[0], W)
		if !ok || slo != lo || shi != hi {
			c.fail(st, "store range [%d:%d) differs from load range [%d:%d)", slo, shi, lo, hi)
			return
		}
		x, ok := ast.Unparen(sargs[1]).(*ast.BinaryExpr)
		if !ok || x.Op != token.XOR {
			c.fail(st, "stored value is not v ^ K")
			return
		}
		want := c.k64
		if W == 4 {
			want = c.key
		}
		if !((c.isObj(x.X, vobj) && c.isObj(x.Y, want)) || (c.isObj(x.Y, vobj) && c.isObj(x.X, want))) {
			c.fail(st, "stored value is not the loaded word XOR %s", map[int64]string{8: "key64", 4: "key"}[W])
			return
		}
		for k := lo; k < hi; k++ {
			if k < 0 || k >= N {
				c.fail(st, "range [%d:%d) outside [0,%d)", lo, hi, N)
				return
			}
			if covered[k] {
				c.fail(st, "byte %d of the %d-byte block is XORed twice", k, N)
				return
			}
			covered[k] = true
		}
		c.nPairs++
	}
	for k, v := range covered {
		if !v {
			c.fail(f, "byte %d of the %d-byte block is never XORed (gap in the tiling)", k, N)
			return
		}
	}
}

func (c *shapeCtx) stmts(list []ast.Stmt, top bool) {
	for _, s := range list {
		switch x := s.(type) {
		case *ast.IfStmt:
			if _, ok := c.lenGuard(x.Cond); !ok || x.Else != nil || x.Init != nil {
				c.fail(x, "if statement is not a plain `if len(b) >= N` wrapper")
				continue
			}
			c.stmts(x.Body.List, false)
		case *ast.AssignStmt:
			// key64 := uint64(key)<<32 | uint64(key)
			if x.Tok == token.DEFINE && len(x.Lhs) == 1 {
				if id, ok := x.Lhs[0].(*ast.Ident); ok && id.Name == "key64" && c.k64 == nil {
					c.k64 = c.info.Defs[id]
					if !c.isKey64(x.Rhs[0]) {
						c.fail(x, "key64 is not uint64(key)<<32 | uint64(key)")
					}
					continue
				}
			}
			c.fail(x, "unexpected assignment %s", types.ExprString(x.Lhs[0]))
		case *ast.ForStmt:
			c.wordLoop(x)
		case *ast.RangeStmt:
			c.tail(x)
		case *ast.ReturnStmt:
			if !top || len(x.Results) != 1 || !c.isObj(x.Results[0], c.key) {
				c.fail(x, "return is not `return key` at top level")
			}
		default:
			c.fail(s, "unrecognised statement in maskGo")
		}
	}
}

func (c *shapeCtx) isKey64(e ast.Expr) bool {
	be, ok := ast.Unparen(e).(*ast.BinaryExpr)
	if !ok || be.Op != token.OR {
		return false
	}
	conv := func(e ast.Expr) bool {
		call, ok := ast.Unparen(e).(*ast.CallExpr)
		if !ok || len(call.Args) != 1 || !c.isObj(call.Args[0], c.key) {
			return false
		}
		tv, ok := c.info.Types[call.Fun]
		return ok && tv.IsType() && types.Identical(tv.Type, types.Typ[types.Uint64])
	}
	shifted := func(e ast.Expr) bool {
		sh, ok := ast.Unparen(e).(*ast.BinaryExpr)
		if !ok || sh.Op != token.SHL || !conv(sh.X) {
			return false
		}
		n, ok := c.constInt(sh.Y)
		return ok && n == 32
	}
	return (shifted(be.X) && conv(be.Y)) || (shifted(be.Y) && conv(be.X))
}

func (c *shapeCtx) tail(rs *ast.RangeStmt) {
	if !c.isObj(rs.X, c.b) || rs.Value != nil || rs.Key == nil {
		c.fail(rs, "tail loop is not `for i := range b`")
		return
	}
	iid, _ := rs.Key.(*ast.Ident)
	iobj := c.info.Defs[iid]
	if len(rs.Body.List) != 2 {
		c.fail(rs, "tail loop body is not {b[i] ^= byte(key); key = bits.RotateLeft32(key, -8)}")
		return
	}
	a, ok := rs.Body.List[0].(*ast.AssignStmt)
	okX := false
	if ok && a.Tok == token.XOR_ASSIGN && len(a.Lhs) == 1 {
		if ix, ok := a.Lhs[0].(*ast.IndexExpr); ok && c.isObj(ix.X, c.b) && c.isObj(ix.Index, iobj) {
			if call, ok := a.Rhs[0].(*ast.CallExpr); ok && len(call.Args) == 1 && c.isObj(call.Args[0], c.key) {
				if tv, ok := c.info.Types[call.Fun]; ok && tv.IsType() && types.Identical(tv.Type, types.Typ[types.Uint8]) {
					okX = true
				}
			}
		}
	}
	if !okX {
		c.fail(rs.Body.List[0], "tail does not do b[i] ^= byte(key)")
	}
	rot, ok := rs.Body.List[1].(*ast.AssignStmt)
	okR := false
	if ok && rot.Tok == token.ASSIGN && len(rot.Lhs) == 1 && c.isObj(rot.Lhs[0], c.key) {
		if call, ok := rot.Rhs[0].(*ast.CallExpr); ok && len(call.Args) == 2 && c.isObj(call.Args[0], c.key) {
			if sel, ok := call.Fun.(*ast.SelectorExpr); ok && sel.Sel.Name == "RotateLeft32" {
				if id, ok := sel.X.(*ast.Ident); ok {
					if pn, ok := c.info.Uses[id].(*types.PkgName); ok && pn.Imported().Path() == "math/bits" {
						if n, ok := c.constInt(call.Args[1]); ok && n == -8 {
							okR = true
						}
					}
				}
			}
		}
	}
	if !okR {
		c.fail(rs.Body.List[1], "tail does not rotate with key = bits.RotateLeft32(key, -8)")
	}
}

func c17shape(p *Program, r *Report, rule string) {
	fn := p.Func("maskGo")
	if fn == nil {
		return
	}
	decl := p.FuncDecl(fn)
	info := p.InfoFor(fn)
	if decl == nil || info == nil {
		r.Undecide("%s: no syntax for maskGo", rule)
		return
	}
	c := &shapeCtx{p: p, info: info}
	params := decl.Type.Params.List
	if len(params) == 2 && len(params[0].Names) == 1 && len(params[1].Names) == 1 {
		c.b = info.Defs[params[0].Names[0]]
		c.key = info.Defs[params[1].Names[0]]
	}
	if c.b == nil || c.key == nil || c.b.Type().String() != "[]byte" || c.key.Type().String() != "uint32" {
		r.Undecide("%s: maskGo's signature is not (b []byte, key uint32) uint32", rule)
		return
	}
	c.stmts(decl.Body.List, true)
	// last top-level statement is the return, tail loop right before it
	n := len(decl.Body.List)
	if n < 2 {
		c.fail(decl, "body too short")
	} else {
		if _, ok := decl.Body.List[n-1].(*ast.ReturnStmt); !ok {
			c.fail(decl.Body.List[n-1], "maskGo does not end with return key")
		}
		if _, ok := decl.Body.List[n-2].(*ast.RangeStmt); !ok {
			c.fail(decl.Body.List[n-2], "the byte-wise tail loop is not the last loop")
		}
	}
	// key assigned nowhere else (only in the tail), b only advanced in loops: count assignments to key
	nKeyAssign := 0
	ast.Inspect(decl.Body, func(n ast.Node) bool {
		if a, ok := n.(*ast.AssignStmt); ok {
			for _, l := range a.Lhs {
				if c.isObj(l, c.key) {
					nKeyAssign++
				}
			}
		}
		if u, ok := n.(*ast.IncDecStmt); ok && c.isObj(u.X, c.key) {
			nKeyAssign++
		}
		return true
	})
	if nKeyAssign != 1 {
		c.fail(decl, "key is assigned %d times (want exactly once, in the tail)", nKeyAssign)
	}
	ok := len(c.errs) == 0 && c.nLoops >= 1
	r.UseFunc("maskGo")
	r.Evaluations += c.nPairs + c.nLoops
	r.Check(rule, "maskGo", "certificate (i)-(iv)", p.FuncPos(fn), ok,
		"maskGo consists of: key64 = key replicated; word loops `for len(b) >= N` whose load/xor/store pairs tile [0,N) exactly once with the right key and end with b = b[N:] (N ≡ 0 mod 4); a byte-wise tail with rotate-right-8; return key",
		firstNonEmpty(strings.Join(c.errs, "; "), fmt.Sprintf("%d word loops, %d load/xor/store pairs, tail and return verified", c.nLoops, c.nPairs)))
	// mask forwards to maskGo; maskAsm unreachable
	if m := p.Func("mask"); m != nil {
		p.forAllPaths(r, "C17.asm", m, "mask forwards to maskGo", Opts{}, "mask(b, key) returns maskGo(b, key) in this build configuration", func(pa *Path) (bool, string) {
			mg := pa.Calls("maskGo")
			if len(mg) != 1 || argKey(mg[0], 0) != "param:b" || argKey(mg[0], 1) != "param:key" || pa.End != "return" || pa.Ret[0].Key() != mg[0].Res.Key() {
				return false, "mask does not simply return maskGo(b, key)"
			}
			return true, ""
		})
	}
	asmCallers := 0
	for _, cs := range p.CallSites() {
		if strings.HasSuffix(cs.Name, "maskAsm") {
			asmCallers++
		}
	}
	r.Exists("C17.asm", "mask_asm.go", "maskAsm unreachable", "-", asmCallers == 0, "maskAsm has no caller in this configuration (the assembly is not shipped behaviour; C17 covers the portable path only)", fmt.Sprintf("%d callers", asmCallers))
}

func c17thread(p *Program, r *Report, rule string) {
	n := 0
	for _, cs := range p.CallSites() {
		if cs.Name != "mask" {
			continue
		}
		n++
		fname := p.FuncName(cs.Fn)
		ok := fname == "msgReader.read" || fname == "Conn.writeFramePayload" || fname == "Conn.handleControl"
		r.Exists(rule+".sites", fname, "mask call", p.InstrPos(cs.Instr), ok, "mask is called only from msgReader.read, Conn.writeFramePayload and Conn.handleControl (each checked below)", fname)
	}
	r.Floor(rule+".sites", 3)
	if fn := p.Func("Conn.writeFramePayload"); fn != nil {
		p.forAllPaths(r, rule, fn, "loop-carried key", Opts{Unroll: 2, Val: map[string]AV{"Conn.writeHeader.masked": cBool(true)}},
			"writeFramePayload masks each chunk with the key returned by the previous chunk's mask call, starting from writeHeader.maskKey", func(pa *Path) (bool, string) {
				ms := pa.Calls("mask")
				for i, e := range ms {
					want := "Conn.writeHeader.maskKey"
					if i > 0 {
						want = ms[i-1].Res.Key()
					}
					if argKey(e, 1) != want {
						return false, fmt.Sprintf("chunk %d masked with %s, want %s", i, argKey(e, 1), want)
					}
				}
				return true, ""
			})
	}
	if fn := p.Func("Conn.handleControl"); fn != nil {
		p.forAllPaths(r, rule, fn, "one-shot over the whole control payload", Opts{Val: map[string]AV{"header.fin": cBool(true), "header.payloadLength": cInt(7)}},
			"handleControl unmasks iff h.masked, once, over exactly the slice filled by the single readFramePayload, with h.maskKey", func(pa *Path) (bool, string) {
				rd := pa.Calls("Conn.readFramePayload")
				ms := pa.Calls("mask")
				if len(rd) == 0 {
					return true, ""
				}
				if ok, k := decidedLike(pa, "call:Conn.readFramePayload@@#1 == nil"); !k || !ok {
					return len(ms) == 0, "mask after a failed read"
				}
				masked, known := pa.Decided("param:h.masked")
				if !known {
					return false, "h.masked not consulted"
				}
				if !masked {
					return len(ms) == 0, "unmasked frame masked"
				}
				if len(rd) != 1 || len(ms) != 1 || argKey(ms[0], 0) != argKey(rd[0], 2) || argKey(ms[0], 1) != "param:h.maskKey" {
					return false, "control payload not unmasked once over the slice read"
				}
				return true, ""
			})
	}
	c04unmask(p, r, rule+".read")
}

func c17slice(p *Program, r *Report, rule string) {
	fn := p.Func("Conn.writeFramePayload")
	if fn == nil {
		return
	}
	p.forAllPaths(r, rule, fn, "mask the bytes just buffered, in the library's buffer", Opts{Unroll: 2, Val: map[string]AV{"Conn.writeHeader.masked": cBool(true)}},
		"each chunk is first copied into the bufio buffer with bw.Write(p[:j]) and then masked in place as writeBuf[i:bw.Buffered()], with i = bw.Buffered() taken before that Write (never the caller's slice)",
		func(pa *Path) (bool, string) {
			for k, e := range pa.Events {
				if !isCall(e, "mask") {
					continue
				}
				sl, ok := e.Args[0].(*Expr)
				if !ok || sl.Op != "slice" || keyOf(sl.Args[0]) != "Conn.writeBuf" {
					return false, "mask destination is " + argKey(e, 0)
				}
				lo, hi := keyOf(sl.Args[1]), keyOf(sl.Args[2])
				// find the Write preceding this mask and the Buffered calls around it
				wi := -1
				for j := k - 1; j >= 0; j-- {
					if isCall(pa.Events[j], "(*bufio.Writer).Write") {
						wi = j
						break
					}
				}
				if wi < 0 {
					return false, "mask without a preceding Write"
				}
				loIdx, hiIdx := -1, -1
				for j, x := range pa.Events[:k] {
					if isCall(x, "(*bufio.Writer).Buffered") && argKey(x, 0) == "Conn.bw" {
						if x.Res.Key() == lo {
							loIdx = j
						}
						if x.Res.Key() == hi {
							hiIdx = j
						}
					}
				}
				if loIdx < 0 || hiIdx < 0 || !(loIdx < wi && wi < hiIdx) {
					return false, "masked range is not [Buffered() before the Write : Buffered() after it]"
				}
				// no flush between lo and the mask (the buffer offset would move)
				for j := loIdx; j < k; j++ {
					if isCall(pa.Events[j], "(*bufio.Writer).Flush") {
						return false, "Flush between taking the offset and masking"
					}
				}
				if !strings.HasPrefix(argKey(pa.Events[wi], 1), "slice(") || !strings.Contains(argKey(pa.Events[wi], 1), "param:p") {
					return false, "Write argument is not a slice of p"
				}
			}
			return true, ""
		})
	// unmasked path: plain Write of p
	p.forAllPaths(r, rule+".plain", fn, "server frames are written unmasked", Opts{Val: map[string]AV{"Conn.writeHeader.masked": cBool(false)}}, "with masked=false writeFramePayload is a single bw.Write(p) and no mask call", func(pa *Path) (bool, string) {
		if len(pa.Calls("mask")) > 0 {
			return false, "mask on an unmasked frame"
		}
		w := pa.Calls("(*bufio.Writer).Write")
		if len(w) != 1 || argKey(w[0], 1) != "param:p" {
			return false, "not a single Write(p)"
		}
		return true, ""
	})
	// writeBuf is the bufio writer's own buffer: assigned only in newConn from extractBufioWriterBuf(c.bw, c.rwc)
	if f := p.Field("Conn.writeBuf"); f != nil {
		for _, fa := range p.FieldAccesses(f) {
			if !fa.Write {
				continue
			}
			fname := p.FuncName(fa.Fn)
			ok := false
			if c, isC := fa.Store.Val.(*ssa.Call); isC && fname == "newConn" {
				if _, nm := p.calleeOf(&c.Call); nm == "extractBufioWriterBuf" && derivesFromField(c.Call.Args[0], p.FieldOpt("Conn.bw")) {
					ok = true
				}
			}
			r.Check(rule+".buf", fname, "store Conn.writeBuf", p.InstrPos(fa.Instr), ok, "Conn.writeBuf is the backing array of Conn.bw, extracted once in newConn", fa.Store.Val.String())
		}
	}
}

func c17safe(p *Program, r *Report, rule string) {
	pk := p.Pkgs[modPath]
	found := false
	for _, f := range pk.Syntax {
		name := filepath.Base(p.Fset.Position(f.Pos()).Filename)
		if name != "mask.go" && name != "mask_go.go" && name != "mask_asm.go" {
			continue
		}
		found = true
		bad := ""
		for _, im := range f.Imports {
			path := strings.Trim(im.Path.Value, `"`)
			if path == "unsafe" || path == "reflect" {
				bad += path + " "
			}
		}
		r.Exists(rule, name, "imports", "-", bad == "", name+" imports neither unsafe nor reflect", firstNonEmpty(bad, "ok"))
	}
	if !found {
		r.Undecide("%s: mask.go not found", rule)
	}
	// maskGo performs no pointer arithmetic: only slice / index expressions on b
	if fn := p.Func("maskGo"); fn != nil {
		bad := ""
		for _, b := range p.blocksOf(fn) {
			for _, in := range b.Instrs {
				switch x := in.(type) {
				case *ssa.Convert:
					if _, ok := x.Type().Underlying().(*types.Pointer); ok {
						bad += "pointer conversion; "
					}
					if b, ok := x.Type().Underlying().(*types.Basic); ok && b.Kind() == types.UnsafePointer {
						bad += "unsafe.Pointer; "
					}
				case *ssa.SliceToArrayPointer:
					bad += "slice-to-array-pointer; "
				}
			}
		}
		r.Exists(rule, "maskGo", "bounds-checked accesses only", p.FuncPos(fn), bad == "", "maskGo touches memory only through slice and index expressions (bounds-checked)", firstNonEmpty(bad, "ok"))
	}
}
