package main

import (
	"fmt"
		"go/constant"
	"go/token"
	"go/types"
	"path/filepath"
	"strings"

	"golang.org/x/tools/go/ssa"
)

func init() {
	register("C17", propInfo{
		Explanation: "Decided for the portable implementation, by a shape certificate on the SSA form of maskGo (values and natural loops, no execution; a helper outside the reference tree that finishes the job is followed): (i) the 64-bit key is uint64(key)<<32|uint64(key) of the key parameter; (ii) every word loop has one loop-carried slice b', is entered only under len(b') >= N with N ≡ 0 (mod 4), consists of LittleEndian load/xor/store triples over equal constant windows of b' that tile [0,N) without gap or overlap, uses the replicated key for 64-bit and key for 32-bit words, and continues with b'[N:]; (iii) one byte loop runs an index over 0..len(b)-1 of the slice value every word loop flows into, XORs b[i] with byte(k) and continues with k rotated right by 8, k starting at the key parameter, and nothing follows it; (iv) the loop-carried k is returned and there is no other store or call. From (i)–(iv) the start of b stays ≡ 0 (mod 4) relative to the original start through all word loops, a little-endian word XOR with the replicated key XORs byte j with key byte j mod 4, and the returned key is the input rotated by 8·(len mod 4): the RFC 6455 §5.3 transform, chunk-composable. Callers thread the returned key; mask() forwards to maskGo on every analysed architecture; the assembly is unreachable.",
		Decides: []string{
			"C17.hdr (= C03.hdr): the key handed to the transform is read right behind the length that was read",
			"C17.shape: certificate (i)–(iv) on maskGo",
			"C17.thread: every mask call stores its result back where its key came from (msgReader.maskKey; loop-carried key in writeFramePayload starting at writeHeader.maskKey) or masks a whole control payload once",
			"C17.slice: the slice masked is the slice just filled (read side: buffer[:n] of readFramePayload; write side: writeBuf[i:Buffered()] with i = Buffered() before the Write)",
			"C17.safe: mask.go imports neither unsafe nor reflect; all accesses are bounds-checked slice expressions",
			"C17.asm: mask forwards to maskGo in every analysed configuration; maskAsm has no caller",
		},
		NotDecided: []string{"the assembly routines (no IR for .s files; unreachable while mask forwards to maskGo)", "alignment behaviour (the portable code has no alignment-dependent path)"},
		Trusted:    []string{"go/types, go/ast", "encoding/binary.LittleEndian, math/bits.RotateLeft32 contracts", "the paper argument from (i)–(iv) to the RFC transform, recorded above"},
	}, runC17)
}

func runC17(p *Program, r *Report) {
	c17shape(p, r, "C17.shape")
	c17thread(p, r, "C17.thread")
	c17slice(p, r, "C17.slice")
	c17safe(p, r, "C17.safe")
	// the key handed to the transform is the key on the wire: the header codec reads it right behind the length it read (seed C17-M)
	c03hdr(p, r, "C17.hdr")
}

// ---- shape certificate on the SSA form -------------------------------------------------------------------------------
//
// The certificate is checked on values and loops of the SSA form (not on syntax), so that renaming locals, re-spelling
// the loops or moving the tail into a helper does not matter:
//   (i)   K64 = uint64(key)<<32 | uint64(key) for the function's key parameter;
//   (ii)  every word loop has a single loop-carried value b' (a slice), is entered only when len(b') >= N, N ≡ 0 (mod 4),
//         consists of LittleEndian load / xor / store triples over equal constant windows of b' that tile [0,N) exactly
//         once, with K64 for 64-bit and key for 32-bit words, and continues with b'[N:];
//   (iii) exactly one byte loop XORs b[i] with byte(k) for i = 0..len(b)-1 once each, k starting at key and continuing
//         with k rotated right by 8; it runs over the slice value all word loops flow into, and nothing follows it;
//   (iv)  the loop-carried k of the byte loop is what is returned; there are no other stores or calls.

type maskCert struct {
	p      *Program
	errs   []string
	nLoops int
	nPairs int
}

func (c *maskCert) fail(pos token.Pos, format string, a ...interface{}) {
	c.errs = append(c.errs, c.p.Pos(pos)+": "+fmt.Sprintf(format, a...))
}

func ssaConstInt(v ssa.Value) (int64, bool) {
	if k, ok := v.(*ssa.Const); ok && k.Value != nil && k.Value.Kind() == constant.Int {
		return constant.Int64Val(k.Value)
	}
	return 0, false
}

// leMethod recognises a call of encoding/binary.LittleEndian.<name>.
func leMethod(call *ssa.Call) (string, []ssa.Value, bool) {
	f := call.Call.StaticCallee()
	if f == nil || f.Signature.Recv() == nil || len(call.Call.Args) == 0 {
		return "", nil, false
	}
	if f.Signature.Recv().Type().String() != "encoding/binary.littleEndian" {
		return "", nil, false
	}
	return f.Name(), call.Call.Args[1:], true
}

// window describes v as base[lo:hi] for a byte-slice value base (v itself: [0:width)).
func window(v ssa.Value, width int64) (base ssa.Value, lo, hi int64, ok bool) {
	if sl, isS := v.(*ssa.Slice); isS && sl.Max == nil {
		lo = 0
		if sl.Low != nil {
			if lo, ok = ssaConstInt(sl.Low); !ok {
				return nil, 0, 0, false
			}
		}
		if sl.High == nil {
			return sl.X, lo, lo + width, true
		}
		if hi, ok = ssaConstInt(sl.High); !ok {
			return nil, 0, 0, false
		}
		return sl.X, lo, hi, true
	}
	return v, 0, width, true
}

func isConvOf(v ssa.Value, x ssa.Value, kind types.BasicKind) bool {
	cv, ok := v.(*ssa.Convert)
	if !ok || cv.X != x {
		return false
	}
	b, ok := cv.Type().Underlying().(*types.Basic)
	return ok && b.Kind() == kind
}

// isKey64: uint64(key)<<32 | uint64(key) in either operand order.
func isKey64(v ssa.Value, key ssa.Value) bool {
	or, ok := v.(*ssa.BinOp)
	if !ok || or.Op != token.OR {
		return false
	}
	shifted := func(x ssa.Value) bool {
		sh, ok := x.(*ssa.BinOp)
		if !ok || sh.Op != token.SHL || !isConvOf(sh.X, key, types.Uint64) {
			return false
		}
		n, ok := ssaConstInt(sh.Y)
		return ok && n == 32
	}
	return shifted(or.X) && isConvOf(or.Y, key, types.Uint64) || shifted(or.Y) && isConvOf(or.X, key, types.Uint64)
}

// isRotr8: k rotated right by 8 bits: bits.RotateLeft32(k, -8) or k>>8 | k<<24.
func isRotr8(v ssa.Value, k ssa.Value) bool {
	if call, ok := v.(*ssa.Call); ok {
		if f := call.Call.StaticCallee(); f != nil && f.Pkg != nil && f.Pkg.Pkg.Path() == "math/bits" && f.Name() == "RotateLeft32" && len(call.Call.Args) == 2 && call.Call.Args[0] == k {
			n, ok := ssaConstInt(call.Call.Args[1])
			return ok && (n == -8 || n == 24)
		}
		return false
	}
	or, ok := v.(*ssa.BinOp)
	if !ok || (or.Op != token.OR && or.Op != token.XOR && or.Op != token.ADD) {
		return false
	}
	sh := func(x ssa.Value, op token.Token, by int64) bool {
		b, ok := x.(*ssa.BinOp)
		if !ok || b.Op != op || b.X != k {
			return false
		}
		n, ok := ssaConstInt(b.Y)
		return ok && n == by
	}
	return sh(or.X, token.SHR, 8) && sh(or.Y, token.SHL, 24) || sh(or.Y, token.SHR, 8) && sh(or.X, token.SHL, 24)
}

type natLoop struct {
	head   *ssa.BasicBlock
	blocks map[*ssa.BasicBlock]bool
}

func naturalLoops(fn *ssa.Function) []*natLoop {
	byHead := map[*ssa.BasicBlock]*natLoop{}
	var out []*natLoop
	for _, b := range fn.Blocks {
		for _, s := range b.Succs {
			if s.Dominates(b) { // back edge b → s
				l := byHead[s]
				if l == nil {
					l = &natLoop{head: s, blocks: map[*ssa.BasicBlock]bool{s: true}}
					byHead[s] = l
					out = append(out, l)
				}
				stack := []*ssa.BasicBlock{b}
				for len(stack) > 0 {
					x := stack[len(stack)-1]
					stack = stack[:len(stack)-1]
					if l.blocks[x] {
						continue
					}
					l.blocks[x] = true
					stack = append(stack, x.Preds...)
				}
			}
		}
	}
	return out
}

// lenGuard: the smallest N such that taking the edge head→body implies len(of) >= N.
func lenGuard(head *ssa.BasicBlock, body *ssa.BasicBlock) (of ssa.Value, N int64, ok bool) {
	iff, isIf := head.Instrs[len(head.Instrs)-1].(*ssa.If)
	if !isIf {
		return nil, 0, false
	}
	cmp, isB := iff.Cond.(*ssa.BinOp)
	if !isB {
		return nil, 0, false
	}
	onTrue := head.Succs[0] == body
	lenOf := func(v ssa.Value) ssa.Value {
		if call, ok := v.(*ssa.Call); ok {
			if b, ok := call.Call.Value.(*ssa.Builtin); ok && b.Name() == "len" && len(call.Call.Args) == 1 {
				return call.Call.Args[0]
			}
		}
		return nil
	}
	op, x, y := cmp.Op, cmp.X, cmp.Y
	if lenOf(x) == nil && lenOf(y) != nil { // c OP len  ≡  len OP' c
		x, y = y, x
		op = map[token.Token]token.Token{token.LSS: token.GTR, token.GTR: token.LSS, token.LEQ: token.GEQ, token.GEQ: token.LEQ, token.EQL: token.EQL, token.NEQ: token.NEQ}[op]
	}
	of = lenOf(x)
	cst, isC := ssaConstInt(y)
	if of == nil || !isC {
		return nil, 0, false
	}
	switch {
	case op == token.GEQ && onTrue, op == token.LSS && !onTrue:
		return of, cst, true
	case op == token.GTR && onTrue, op == token.LEQ && !onTrue:
		return of, cst + 1, true
	case op == token.NEQ && onTrue && cst == 0, op == token.EQL && !onTrue && cst == 0:
		return of, 1, true
	}
	return nil, 0, false
}

// run checks fn (maskGo, or a helper it ends in) and returns false when the certificate cannot be established.
func (c *maskCert) run(fn *ssa.Function, depth int) {
	if len(fn.Params) != 2 || fn.Params[0].Type().String() != "[]byte" || fn.Params[1].Type().String() != "uint32" || fn.Signature.Results().Len() != 1 {
		c.fail(fn.Pos(), "%s does not have the signature (b []byte, key uint32) uint32", c.p.rawName(fn))
		return
	}
	b0, key0 := ssa.Value(fn.Params[0]), ssa.Value(fn.Params[1])
	loops := naturalLoops(fn)
	inLoop := map[*ssa.BasicBlock]*natLoop{}
	for _, l := range loops {
		for bl := range l.blocks {
			if cur := inLoop[bl]; cur == nil || len(l.blocks) < len(cur.blocks) {
				inLoop[bl] = l
			}
		}
	}
	for _, l := range loops {
		for _, o := range loops {
			if o != l && o.blocks[l.head] {
				c.fail(l.head.Instrs[0].Pos(), "nested loops")
				return
			}
		}
	}
	// B: the values that denote "the rest of b": the parameter, loop-carried slices advanced by b'[N:], merges of those
	isB := map[ssa.Value]bool{b0: true}
	for changed := true; changed; {
		changed = false
		for _, bl := range fn.Blocks {
			for _, in := range bl.Instrs {
				phi, ok := in.(*ssa.Phi)
				if !ok || isB[phi] || phi.Type().String() != "[]byte" {
					continue
				}
				good := true
				for i, e := range phi.Edges {
					if isB[e] {
						continue
					}
					if sl, isS := e.(*ssa.Slice); isS && sl.X == phi && bl.Dominates(bl.Preds[i]) {
						continue // back edge b'[N:], checked with its loop
					}
					good = false
				}
				if good {
					isB[phi] = true
					changed = true
				}
			}
		}
	}
	accounted := map[ssa.Instruction]bool{}
	var byteLoop *natLoop
	var tailK *ssa.Phi
	var tailB ssa.Value
	wordPhi := map[*natLoop]*ssa.Phi{}
	for _, l := range loops {
		pos := l.head.Instrs[0].Pos()
		var phis []*ssa.Phi
		for _, in := range l.head.Instrs {
			if ph, ok := in.(*ssa.Phi); ok {
				phis = append(phis, ph)
			}
		}
		// body blocks in order, straight-line
		var body []*ssa.BasicBlock
		for _, bl := range fn.Blocks {
			if l.blocks[bl] && bl != l.head {
				body = append(body, bl)
				if len(bl.Succs) != 1 {
					c.fail(bl.Instrs[0].Pos(), "branch inside a loop body")
				}
			}
		}
		if len(body) == 0 {
			c.fail(pos, "loop without a body block")
			continue
		}
		entry := body[0]
		for _, s := range l.head.Succs {
			if l.blocks[s] && s != l.head {
				entry = s
			}
		}
		if len(phis) == 1 && isB[phis[0]] {
			// ---- word loop
			c.nLoops++
			bl := phis[0]
			wordPhi[l] = bl
			of, N, ok := lenGuard(l.head, entry)
			if !ok || of != ssa.Value(bl) {
				c.fail(pos, "word loop is not entered under a guard len(b') >= N on its own loop-carried slice")
				continue
			}
			if N <= 0 || N%4 != 0 {
				c.fail(pos, "loop width %d is not a positive multiple of 4", N)
				continue
			}
			// back edge value b'[N:]
			for i, e := range bl.Edges {
				if l.head.Dominates(l.head.Preds[i]) && l.blocks[l.head.Preds[i]] {
					sl, isS := e.(*ssa.Slice)
					lo, okc := int64(0), false
					if isS && sl.Low != nil {
						lo, okc = ssaConstInt(sl.Low)
					}
					if !isS || sl.X != ssa.Value(bl) || sl.High != nil || sl.Max != nil || !okc || lo != N {
						c.fail(pos, "loop entered under len(b') >= %d does not continue with b'[%d:]", N, N)
					} else {
						accounted[sl] = true
					}
				}
			}
			covered := make([]bool, N)
			for _, blk := range body {
				for _, in := range blk.Instrs {
					call, isCall := in.(*ssa.Call)
					if !isCall {
						continue
					}
					name, args, isLE := leMethod(call)
					if !isLE {
						continue
					}
					switch name {
					case "Uint64", "Uint32":
						accounted[call] = true // a pure load; its use is checked at the store
					case "PutUint64", "PutUint32":
						W := int64(8)
						want := "Uint64"
						if name == "PutUint32" {
							W, want = 4, "Uint32"
						}
						base, lo, hi, okw := window(args[0], W)
						if !okw || base != ssa.Value(bl) || hi-lo != W {
							c.fail(call.Pos(), "store does not go to a constant %d-byte window of the loop's slice", W)
							continue
						}
						x, isX := args[1].(*ssa.BinOp)
						if !isX || x.Op != token.XOR {
							c.fail(call.Pos(), "stored value is not (loaded word) ^ K")
							continue
						}
						okPair := false
						for _, pr := range [][2]ssa.Value{{x.X, x.Y}, {x.Y, x.X}} {
							ld, isLd := pr[0].(*ssa.Call)
							if !isLd {
								continue
							}
							ln, largs, isLE2 := leMethod(ld)
							if !isLE2 || ln != want || !l.blocks[ld.Block()] {
								continue
							}
							lb, llo, lhi, okl := window(largs[0], W)
							if !okl || lb != ssa.Value(bl) || llo != lo || lhi != hi {
								continue
							}
							if W == 8 && isKey64(pr[1], key0) || W == 4 && pr[1] == key0 {
								okPair = true
							}
						}
						if !okPair {
							c.fail(call.Pos(), "stored value is not the word loaded from the same window XOR %s", map[int64]string{8: "uint64(key)<<32|uint64(key)", 4: "key"}[W])
							continue
						}
						for k := lo; k < hi; k++ {
							if k < 0 || k >= N {
								c.fail(call.Pos(), "window [%d:%d) outside [0,%d)", lo, hi, N)
								break
							}
							if covered[k] {
								c.fail(call.Pos(), "byte %d of the %d-byte block is XORed twice", k, N)
								break
							}
							covered[k] = true
						}
						accounted[call] = true
						c.nPairs++
					default:
						c.fail(call.Pos(), "unexpected LittleEndian.%s", name)
					}
				}
			}
			for k, v := range covered {
				if !v {
					c.fail(pos, "byte %d of the %d-byte block is never XORed (gap in the tiling)", k, N)
					break
				}
			}
			continue
		}
		// ---- byte loop: loop-carried k (uint32) and index i (int)
		var kPhi, iPhi *ssa.Phi
		for _, ph := range phis {
			switch ph.Type().String() {
			case "uint32":
				kPhi = ph
			case "int":
				iPhi = ph
			}
		}
		if len(phis) != 2 || kPhi == nil || iPhi == nil {
			c.fail(pos, "loop is neither a word loop (one loop-carried slice) nor a byte loop (loop-carried key and index)")
			continue
		}
		if byteLoop != nil {
			c.fail(pos, "more than one byte loop")
			continue
		}
		byteLoop, tailK = l, kPhi
		back := func(ph *ssa.Phi) (init []ssa.Value, next ssa.Value) {
			for i, e := range ph.Edges {
				if l.blocks[l.head.Preds[i]] {
					next = e
				} else {
					init = append(init, e)
				}
			}
			return
		}
		kInit, kNext := back(kPhi)
		for _, v := range kInit {
			if v != key0 {
				c.fail(pos, "the byte loop does not start with the key parameter")
			}
		}
		if kNext == nil || !isRotr8(kNext, kPhi) {
			c.fail(pos, "the byte loop does not continue with the key rotated right by 8 bits")
		} else if in, ok := kNext.(ssa.Instruction); ok {
			accounted[in] = true
		}
		iInit, iNext := back(iPhi)
		// index used in the body and its range
		var idx ssa.Value
		guardOK := false
		if iff, ok := l.head.Instrs[len(l.head.Instrs)-1].(*ssa.If); ok && l.head.Succs[0] == entry {
			if cmp, ok := iff.Cond.(*ssa.BinOp); ok && cmp.Op == token.LSS {
				idx = cmp.X
				lenOK := false
				if call, ok := cmp.Y.(*ssa.Call); ok {
					if bi, ok := call.Call.Value.(*ssa.Builtin); ok && bi.Name() == "len" && isB[call.Call.Args[0]] {
						tailB = call.Call.Args[0]
						lenOK = true
					}
				}
				one := func(v ssa.Value) bool { n, ok := ssaConstInt(v); return ok && n == 1 }
				isInc := func(v ssa.Value) bool {
					a, ok := v.(*ssa.BinOp)
					return ok && a.Op == token.ADD && (a.X == ssa.Value(iPhi) && one(a.Y) || a.Y == ssa.Value(iPhi) && one(a.X))
				}
				initIs := func(n int64) bool {
					for _, v := range iInit {
						if k, ok := ssaConstInt(v); !ok || k != n {
							return false
						}
					}
					return len(iInit) > 0
				}
				switch {
				case idx == ssa.Value(iPhi) && initIs(0) && iNext != nil && isInc(iNext): // for i := 0; i < len(b); i++
					guardOK = lenOK
				case isInc(idx) && initIs(-1) && iNext == idx: // for i := range b
					guardOK = lenOK
				}
			}
		}
		if !guardOK {
			c.fail(pos, "the byte loop does not run its index over 0..len(b)-1 once each")
			continue
		}
		nStores := 0
		for _, blk := range body {
			for _, in := range blk.Instrs {
				st, ok := in.(*ssa.Store)
				if !ok {
					continue
				}
				nStores++
				ia, okA := st.Addr.(*ssa.IndexAddr)
				x, okX := st.Val.(*ssa.BinOp)
				good := okA && okX && x.Op == token.XOR && ia.X == tailB && ia.Index == idx
				if good {
					good = false
					for _, pr := range [][2]ssa.Value{{x.X, x.Y}, {x.Y, x.X}} {
						ld, isLd := pr[0].(*ssa.UnOp)
						if !isLd || ld.Op != token.MUL {
							continue
						}
						la, isIA := ld.X.(*ssa.IndexAddr)
						if isIA && la.X == tailB && la.Index == idx && isConvOf(pr[1], kPhi, types.Uint8) {
							good = true
						}
					}
				}
				if !good {
					c.fail(st.Pos(), "the byte loop does not do b[i] = b[i] ^ byte(k) on the remaining slice")
				} else {
					accounted[st] = true
				}
			}
		}
		if nStores != 1 {
			c.fail(pos, "the byte loop has %d stores (want one)", nStores)
		}
	}
	// (iv) nothing else has an effect; the return value
	var cont *ssa.Function
	for _, bl := range fn.Blocks {
		for _, in := range bl.Instrs {
			switch x := in.(type) {
			case *ssa.Store, *ssa.MapUpdate, *ssa.Send, *ssa.Go, *ssa.Defer, *ssa.Panic:
				if !accounted[in] {
					c.fail(in.Pos(), "effect outside the certified loops: %s", in.String())
				}
			case *ssa.Slice:
				if isB[x.X] && !accounted[x] {
					if _, lo, _, ok := window(x, 0); !(ok && inLoop[bl] != nil && wordPhi[inLoop[bl]] == x.X && lo >= 0) {
						c.fail(x.Pos(), "the remaining slice is re-sliced outside the certified pattern")
					}
				}
			case *ssa.Call:
				if accounted[in] {
					continue
				}
				if bi, ok := x.Call.Value.(*ssa.Builtin); ok && (bi.Name() == "len" || bi.Name() == "cap") {
					continue
				}
				if _, _, isLE := leMethod(x); isLE {
					c.fail(x.Pos(), "LittleEndian access outside a certified loop")
					continue
				}
				if f := x.Call.StaticCallee(); f != nil && c.p.isLib(f) && f.Parent() == nil && !knownFuncs[c.p.rawName(f)] && depth < 3 {
					// a helper outside the reference tree that finishes the job: maskGo must return its result
					cont = f
					ok := len(x.Call.Args) == 2 && x.Call.Args[1] == key0 && isB[x.Call.Args[0]] && byteLoop == nil
					for _, ref := range *x.Referrers() {
						if _, isRet := ref.(*ssa.Return); !isRet {
							if _, isDbg := ref.(*ssa.DebugRef); !isDbg {
								ok = false
							}
						}
					}
					// the helper must see the slice all word loops flow into
					if ok {
						tailB = x.Call.Args[0]
					} else {
						c.fail(x.Pos(), "call of %s is not `return helper(rest of b, key)` after the word loops", c.p.rawName(f))
					}
					continue
				}
				if f := x.Call.StaticCallee(); f != nil && f.Pkg != nil && f.Pkg.Pkg.Path() == "math/bits" {
					continue // pure
				}
				c.fail(x.Pos(), "call outside the certified pattern: %s", x.String())
			case *ssa.Return:
				switch {
				case cont != nil && len(x.Results) == 1:
					if call, ok := x.Results[0].(*ssa.Call); !ok || call.Call.StaticCallee() != cont {
						c.fail(x.Pos(), "return does not pass on the helper's result")
					}
				case tailK != nil && len(x.Results) == 1 && x.Results[0] == ssa.Value(tailK):
				default:
					c.fail(x.Pos(), "return value is not the loop-carried key of the byte loop")
				}
			}
		}
	}
	// the byte loop (or the finishing helper) works on the slice value every word loop flows into
	if tailB != nil {
		derives := map[ssa.Value]bool{tailB: true}
		for changed := true; changed; {
			changed = false
			for v := range derives {
				if ph, ok := v.(*ssa.Phi); ok {
					for _, e := range ph.Edges {
						if isB[e] && !derives[e] {
							derives[e] = true
							changed = true
						}
					}
				}
			}
		}
		for l, ph := range wordPhi {
			if !derives[ph] {
				c.fail(l.head.Instrs[0].Pos(), "the slice advanced by this word loop does not flow into the byte loop (stale slice used afterwards)")
			}
		}
		for v := range isB {
			if ph, ok := v.(*ssa.Phi); ok && v != tailB {
				for _, e := range ph.Edges {
					if e == tailB {
						c.fail(ph.Pos(), "a word loop continues from the slice the byte loop runs over")
					}
				}
			}
		}
	}
	if byteLoop == nil && cont == nil {
		c.fail(fn.Pos(), "no byte loop for the remaining 0..3 bytes")
	}
	if byteLoop != nil {
		// nothing after the byte loop but the return
		seen := map[*ssa.BasicBlock]bool{}
		var stack []*ssa.BasicBlock
		for _, s := range byteLoop.head.Succs {
			if !byteLoop.blocks[s] {
				stack = append(stack, s)
			}
		}
		for len(stack) > 0 {
			x := stack[len(stack)-1]
			stack = stack[:len(stack)-1]
			if seen[x] {
				continue
			}
			seen[x] = true
			if inLoop[x] != nil {
				c.fail(x.Instrs[0].Pos(), "a loop follows the byte loop")
			}
			stack = append(stack, x.Succs...)
		}
	}
	if cont != nil {
		c.run(cont, depth+1)
	}
}

func c17shape(p *Program, r *Report, rule string) {
	fn := p.Func("maskGo")
	if fn == nil {
		return
	}
	c := &maskCert{p: p}
	c.run(fn, 0)
	ok := len(c.errs) == 0
	r.UseFunc("maskGo")
	r.Evaluations += c.nPairs + c.nLoops
	r.Check(rule, "maskGo", "certificate (i)-(iv)", p.FuncPos(fn), ok,
		"maskGo consists of: word loops entered under len(b') >= N (N ≡ 0 mod 4) whose LittleEndian load/xor/store triples tile [0,N) exactly once with the key (replicated for 64-bit words) and continue with b'[N:]; one byte loop over the remaining slice with rotate-right-8 of the loop-carried key; that key is returned; nothing else has an effect",
		firstNonEmpty(strings.Join(c.errs, "; "), fmt.Sprintf("%d word loops, %d load/xor/store triples, byte loop and return verified", c.nLoops, c.nPairs)))
	// mask forwards to maskGo; maskAsm unreachable
	if m := p.Func("mask"); m != nil {
		p.forAllPaths(r, "C17.asm", m, "mask forwards to maskGo", Opts{}, "mask(b, key) returns maskGo(b, key) in this build configuration", func(pa *Path) (bool, string) {
			mg := pa.Calls("maskGo")
			if len(mg) != 1 || argKey(mg[0], 0) != "param:b" || argKey(mg[0], 1) != "param:key" || pa.End != "return" || pa.Ret[0].Key() != mg[0].Res.Key() {
				return false, "mask does not simply return maskGo(b, key)"
			}
			return true, ""
		})
	}
	asmCallers := 0
	for _, cs := range p.CallSites() {
		if strings.HasSuffix(cs.Name, "maskAsm") {
			asmCallers++
		}
	}
	r.Exists("C17.asm", "mask_asm.go", "maskAsm unreachable", "-", asmCallers == 0, "maskAsm has no caller in this configuration (the assembly is not shipped behaviour; C17 covers the portable path only)", fmt.Sprintf("%d callers", asmCallers))
}

func c17thread(p *Program, r *Report, rule string) {
	n := 0
	for _, cs := range p.CallSites() {
		if cs.Name != "mask" {
			continue
		}
		n++
		fname := p.FuncName(cs.Fn)
		ok := fname == "msgReader.read" || fname == "Conn.writeFramePayload" || fname == "Conn.handleControl"
		r.Exists(rule+".sites", fname, "mask call", p.InstrPos(cs.Instr), ok, "mask is called only from msgReader.read, Conn.writeFramePayload and Conn.handleControl (each checked below)", fname)
	}
	r.Floor(rule+".sites", 3)
	if fn := p.Func("Conn.writeFramePayload"); fn != nil {
		p.forAllPaths(r, rule, fn, "loop-carried key", Opts{Unroll: 2, Val: map[string]AV{"Conn.writeHeader.masked": cBool(true)}},
			"writeFramePayload masks each chunk with the key returned by the previous chunk's mask call, starting from writeHeader.maskKey", func(pa *Path) (bool, string) {
				ms := pa.Calls("mask")
				for i, e := range ms {
					want := "Conn.writeHeader.maskKey"
					if i > 0 {
						want = ms[i-1].Res.Key()
					}
					if argKey(e, 1) != want {
						return false, fmt.Sprintf("chunk %d masked with %s, want %s", i, argKey(e, 1), want)
					}
				}
				return true, ""
			})
	}
	if fn := p.Func("Conn.handleControl"); fn != nil {
		p.forAllPaths(r, rule, fn, "one-shot over the whole control payload", Opts{Val: map[string]AV{"header.fin": cBool(true), "header.payloadLength": cInt(7)}},
			"handleControl unmasks iff h.masked, once, over exactly the slice filled by the single readFramePayload, with h.maskKey", func(pa *Path) (bool, string) {
				rd := pa.Calls("Conn.readFramePayload")
				ms := pa.Calls("mask")
				if len(rd) == 0 {
					return true, ""
				}
				if ok, k := decidedLike(pa, "call:Conn.readFramePayload@@#1 == nil"); !k || !ok {
					return len(ms) == 0, "mask after a failed read"
				}
				masked, known := pa.Decided("param:h.masked")
				if !known {
					return false, "h.masked not consulted"
				}
				if !masked {
					return len(ms) == 0, "unmasked frame masked"
				}
				if len(rd) != 1 || len(ms) != 1 || argKey(ms[0], 0) != argKey(rd[0], 2) || argKey(ms[0], 1) != "param:h.maskKey" {
					return false, "control payload not unmasked once over the slice read"
				}
				return true, ""
			})
	}
	c04unmask(p, r, rule+".read")
}

func c17slice(p *Program, r *Report, rule string) {
	fn := p.Func("Conn.writeFramePayload")
	if fn == nil {
		return
	}
	p.forAllPaths(r, rule, fn, "mask the bytes just buffered, in the library's buffer", Opts{Unroll: 2, Val: map[string]AV{"Conn.writeHeader.masked": cBool(true)}},
		"each chunk is first copied into the bufio buffer with bw.Write(p[:j]) and then masked in place as writeBuf[i:bw.Buffered()], with i = bw.Buffered() taken before that Write (never the caller's slice)",
		func(pa *Path) (bool, string) {
			for k, e := range pa.Events {
				if !isCall(e, "mask") {
					continue
				}
				sl, ok := e.Args[0].(*Expr)
				if !ok || sl.Op != "slice" || keyOf(sl.Args[0]) != "Conn.writeBuf" {
					return false, "mask destination is " + argKey(e, 0)
				}
				lo, hi := keyOf(sl.Args[1]), keyOf(sl.Args[2])
				// find the Write preceding this mask and the Buffered calls around it
				wi := -1
				for j := k - 1; j >= 0; j-- {
					if isCall(pa.Events[j], "(*bufio.Writer).Write") {
						wi = j
						break
					}
				}
				if wi < 0 {
					return false, "mask without a preceding Write"
				}
				loIdx, hiIdx := -1, -1
				for j, x := range pa.Events[:k] {
					if isCall(x, "(*bufio.Writer).Buffered") && argKey(x, 0) == "Conn.bw" {
						if x.Res.Key() == lo {
							loIdx = j
						}
						if x.Res.Key() == hi {
							hiIdx = j
						}
					}
				}
				if loIdx < 0 || hiIdx < 0 || !(loIdx < wi && wi < hiIdx) {
					return false, "masked range is not [Buffered() before the Write : Buffered() after it]"
				}
				// no flush between lo and the mask (the buffer offset would move)
				for j := loIdx; j < k; j++ {
					if isCall(pa.Events[j], "(*bufio.Writer).Flush") {
						return false, "Flush between taking the offset and masking"
					}
				}
				if !strings.HasPrefix(argKey(pa.Events[wi], 1), "slice(") || !strings.Contains(argKey(pa.Events[wi], 1), "param:p") {
					return false, "Write argument is not a slice of p"
				}
			}
			return true, ""
		})
	// unmasked path: plain Write of p
	p.forAllPaths(r, rule+".plain", fn, "server frames are written unmasked", Opts{Val: map[string]AV{"Conn.writeHeader.masked": cBool(false)}}, "with masked=false writeFramePayload is a single bw.Write(p) and no mask call", func(pa *Path) (bool, string) {
		if len(pa.Calls("mask")) > 0 {
			return false, "mask on an unmasked frame"
		}
		w := pa.Calls("(*bufio.Writer).Write")
		if len(w) != 1 || argKey(w[0], 1) != "param:p" {
			return false, "not a single Write(p)"
		}
		return true, ""
	})
	// writeBuf is the bufio writer's own buffer: assigned only in newConn from extractBufioWriterBuf(c.bw, c.rwc)
	if f := p.Field("Conn.writeBuf"); f != nil {
		for _, fa := range p.FieldAccesses(f) {
			if !fa.Write {
				continue
			}
			fname := p.FuncName(fa.Fn)
			ok := false
			if c, isC := fa.Store.Val.(*ssa.Call); isC && fname == "newConn" {
				if _, nm := p.calleeOf(&c.Call); nm == "extractBufioWriterBuf" && derivesFromField(c.Call.Args[0], p.FieldOpt("Conn.bw")) {
					ok = true
				}
			}
			r.Check(rule+".buf", fname, "store Conn.writeBuf", p.InstrPos(fa.Instr), ok, "Conn.writeBuf is the backing array of Conn.bw, extracted once in newConn", fa.Store.Val.String())
		}
	}
}

func c17safe(p *Program, r *Report, rule string) {
	pk := p.Pkgs[modPath]
	found := false
	for _, f := range pk.Syntax {
		name := filepath.Base(p.Fset.Position(f.Pos()).Filename)
		if name != "mask.go" && name != "mask_go.go" && name != "mask_asm.go" {
			continue
		}
		found = true
		bad := ""
		for _, im := range f.Imports {
			path := strings.Trim(im.Path.Value, `"`)
			if path == "unsafe" || path == "reflect" {
				bad += path + " "
			}
		}
		r.Exists(rule, name, "imports", "-", bad == "", name+" imports neither unsafe nor reflect", firstNonEmpty(bad, "ok"))
	}
	if !found {
		r.Undecide("%s: mask.go not found", rule)
	}
	// maskGo performs no pointer arithmetic: only slice / index expressions on b
	if fn := p.Func("maskGo"); fn != nil {
		bad := ""
		for _, b := range p.blocksOf(fn) {
			for _, in := range b.Instrs {
				switch x := in.(type) {
				case *ssa.Convert:
					if _, ok := x.Type().Underlying().(*types.Pointer); ok {
						bad += "pointer conversion; "
					}
					if b, ok := x.Type().Underlying().(*types.Basic); ok && b.Kind() == types.UnsafePointer {
						bad += "unsafe.Pointer; "
					}
				case *ssa.SliceToArrayPointer:
					bad += "slice-to-array-pointer; "
				}
			}
		}
		r.Exists(rule, "maskGo", "bounds-checked accesses only", p.FuncPos(fn), bad == "", "maskGo touches memory only through slice and index expressions (bounds-checked)", firstNonEmpty(bad, "ok"))
	}
}
