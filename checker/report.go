package main

// Obligations, verdicts, evidence and known findings.

import (
	"bufio"
	"crypto/sha1"
	"encoding/hex"
	"encoding/json"
	"fmt"
	"os"
	"path/filepath"
	"sort"
	"strings"
)

// Obligation is one instance of one rule: a construct of the program and a verdict.
type Obligation struct {
	Rule       string `json:"rule"`      // e.g. C03.loop
	Key        string `json:"key"`       // rule|function|construct — never a line number
	Pos        string `json:"pos"`       // file:line (diagnosis only)
	What       string `json:"what"`      // what was required
	Detail     string `json:"detail"`    // what was found
	OK         bool   `json:"ok"`
	Nontrivial bool   `json:"nontrivial"` // discharged by a path/table argument, not a bare existence check
	Config     string `json:"config,omitempty"`
	Known      bool   `json:"known_finding,omitempty"`
}

type Report struct {
	Prop        string
	Tier        string
	Config      string
	Obls        []*Obligation
	Evaluations int // valuations walked + paths + sites visited
	Funcs       map[string]bool
	Tables      map[string]interface{}
	Notes       []string
	Undecided   []string
	floors      map[string]int
	counts      map[string]int
}

func newReport(prop, tier string) *Report {
	return &Report{Prop: prop, Tier: tier, Funcs: map[string]bool{}, Tables: map[string]interface{}{},
		floors: map[string]int{}, counts: map[string]int{}}
}

// shareAs runs a rule set of another property into a scratch report and takes over the obligations whose rule name
// starts with from, renamed to start with to: the same clause is a necessary condition of this property as well.
func shareAs(r *Report, from, to string, run func(sub *Report)) {
	sub := newReport(r.Prop, r.Tier)
	sub.Config = r.Config
	run(sub)
	for _, o := range sub.Obls {
		if o.Rule == from || strings.HasPrefix(o.Rule, from+".") {
			nr := to + strings.TrimPrefix(o.Rule, from)
			o.Key = strings.Replace(o.Key, o.Rule, nr, 1)
			o.Rule = nr
			r.add(o)
		}
	}
	r.Evaluations += sub.Evaluations
	for f := range sub.Funcs {
		r.Funcs[f] = true
	}
}

func (r *Report) add(o *Obligation) *Obligation {
	o.Config = r.Config
	r.Obls = append(r.Obls, o)
	r.counts[o.Rule]++
	return o
}

// Check records a non-trivial obligation (path/table argument).
func (r *Report) Check(rule, fn, construct, pos string, ok bool, what, detail string) bool {
	r.add(&Obligation{Rule: rule, Key: rule + "|" + fn + "|" + construct, Pos: pos, What: what, Detail: detail, OK: ok, Nontrivial: true})
	return ok
}

// Exists records a trivial (existence / who-may-call) obligation.
func (r *Report) Exists(rule, fn, construct, pos string, ok bool, what, detail string) bool {
	r.add(&Obligation{Rule: rule, Key: rule + "|" + fn + "|" + construct, Pos: pos, What: what, Detail: detail, OK: ok})
	return ok
}

// Floor demands that a rule matched at least n instances (no vacuous pass).
func (r *Report) Floor(rule string, n int) { r.floors[rule] = n }

func (r *Report) Undecide(format string, a ...interface{}) {
	r.Undecided = append(r.Undecided, fmt.Sprintf(format, a...))
}

func (r *Report) Note(format string, a ...interface{}) {
	r.Notes = append(r.Notes, fmt.Sprintf(format, a...))
}

func (r *Report) UseFunc(name string) { r.Funcs[name] = true }

// ---- known findings -------------------------------------------------------------------

type knownFinding struct {
	Prop string
	Key  string
	Text string
}

// loadKnownFindings reads /verif/KNOWN_FINDINGS.txt. Only "finding:" lines suppress;
// "fixed:" lines are documentation and suppress nothing.
func loadKnownFindings(path string) ([]knownFinding, []string, error) {
	f, err := os.Open(path)
	if err != nil {
		if os.IsNotExist(err) {
			return nil, nil, nil
		}
		return nil, nil, err
	}
	defer f.Close()
	var out []knownFinding
	var fixed []string
	sc := bufio.NewScanner(f)
	for sc.Scan() {
		line := strings.TrimSpace(sc.Text())
		if line == "" || strings.HasPrefix(line, "#") {
			continue
		}
		if strings.HasPrefix(line, "fixed:") {
			fixed = append(fixed, line)
			continue
		}
		if !strings.HasPrefix(line, "finding:") {
			return nil, nil, fmt.Errorf("KNOWN_FINDINGS: unrecognised line %q", line)
		}
		rest := strings.TrimSpace(strings.TrimPrefix(line, "finding:"))
		// finding: property=<id> key="<rule>|<function>|<construct>" <what fails>     (the key may contain spaces, hence the quotes)
		fs := strings.SplitN(rest, " ", 2)
		if len(fs) < 2 || !strings.HasPrefix(fs[0], "property=") || !strings.HasPrefix(strings.TrimSpace(fs[1]), "key=") {
			return nil, nil, fmt.Errorf("KNOWN_FINDINGS: malformed finding line %q", line)
		}
		kf := knownFinding{Prop: strings.TrimPrefix(fs[0], "property=")}
		k := strings.TrimPrefix(strings.TrimSpace(fs[1]), "key=")
		if strings.HasPrefix(k, `"`) {
			end := strings.Index(k[1:], `"`)
			if end < 0 {
				return nil, nil, fmt.Errorf("KNOWN_FINDINGS: unterminated key in %q", line)
			}
			kf.Key = k[1 : 1+end]
			kf.Text = strings.TrimSpace(k[2+end:])
		} else {
			parts := strings.SplitN(k, " ", 2)
			kf.Key = parts[0]
			if len(parts) == 2 {
				kf.Text = parts[1]
			}
		}
		out = append(out, kf)
	}
	return out, fixed, sc.Err()
}

// ---- finishing a run --------------------------------------------------------------------

type runResult struct {
	Violations int
	Known      int
	Undecided  int
	Lines      []string
}

func hashKey(s string) string {
	h := sha1.Sum([]byte(s))
	return hex.EncodeToString(h[:])[:10]
}

// finish prints verdict lines, writes replay files and the evidence file.
func finishRun(prop, tier string, seed int64, reps []*Report, verifDir, evidencePath string, wall float64, info propInfo, cmdline string) int {
	known, fixed, err := loadKnownFindings(filepath.Join(verifDir, "KNOWN_FINDINGS.txt"))
	if err != nil {
		fmt.Printf("VIOLATION property=%s replay=%s\n  undecided: %v\n", prop, filepath.Join(verifDir, "KNOWN_FINDINGS.txt"), err)
		return 1
	}
	replayDir := filepath.Join(verifDir, "evidence", "replay")
	os.MkdirAll(replayDir, 0o755)

	var all []*Obligation
	evaluations := 0
	funcs := map[string]bool{}
	tables := map[string]interface{}{}
	var notes, undecided []string
	var configs []string
	for _, r := range reps {
		configs = append(configs, r.Config)
		// floors
		for rule, n := range r.floors {
			if r.counts[rule] < n {
				r.Undecide("rule %s matched %d instance(s) in config %s, expected at least %d: a rule must not pass vacuously", rule, r.counts[rule], r.Config, n)
			}
		}
		all = append(all, r.Obls...)
		evaluations += r.Evaluations
		for f := range r.Funcs {
			funcs[f] = true
		}
		for k, v := range r.Tables {
			if len(reps) > 1 {
				tables[r.Config+":"+k] = v
			} else {
				tables[k] = v
			}
		}
		for _, n := range r.Notes {
			notes = append(notes, n)
		}
		for _, u := range r.Undecided {
			undecided = append(undecided, "["+r.Config+"] "+u)
		}
	}

	exit := 0
	violations := 0
	var knownLines []string
	usedKnown := map[string]bool{}
	seenViol := map[string]bool{}
	perRuleViol := map[string]int{}
	distinct := map[string]bool{}
	discharged := 0
	for _, o := range all {
		if o.Nontrivial {
			distinct[o.Key] = true
		}
		if o.OK {
			discharged++
			continue
		}
		isKnown := false
		for _, k := range known {
			if k.Prop == prop && k.Key == o.Key {
				isKnown = true
				if !usedKnown[k.Key] {
					usedKnown[k.Key] = true
					knownLines = append(knownLines, fmt.Sprintf("KNOWN-FINDING: property=%s %s: %s", prop, o.Key, firstNonEmpty(k.Text, o.Detail)))
				}
			}
		}
		if isKnown {
			o.Known = true
			continue
		}
		if seenViol[o.Key+o.Config] {
			continue
		}
		seenViol[o.Key+o.Config] = true
		violations++
		exit = 1
		perRuleViol[o.Rule]++
		if perRuleViol[o.Rule] > 6 {
			continue
		}
		rp := filepath.Join(replayDir, fmt.Sprintf("%s.%s.%s.json", prop, strings.ReplaceAll(o.Rule, "/", "_"), hashKey(o.Key)))
		b, _ := json.MarshalIndent(map[string]interface{}{"property": prop, "obligation": o, "replay": "./run.sh " + prop + " " + tier + " (re-evaluates every obligation of the property on the current tree; this one is key=" + o.Key + ")"}, "", " ")
		os.WriteFile(rp, b, 0o644)
		fmt.Printf("VIOLATION property=%s replay=%s\n", prop, rp)
		fmt.Printf("  %s: rule %s [%s] %s\n    required: %s\n    found:    %s\n", o.Pos, o.Rule, o.Config, o.Key, o.What, o.Detail)
	}
	for rule, n := range perRuleViol {
		if n > 6 {
			fmt.Printf("  … and %d more violation(s) of rule %s (all listed in the evidence file)\n", n-6, rule)
		}
	}
	for _, u := range undecided {
		violations++
		exit = 1
		rp := filepath.Join(replayDir, fmt.Sprintf("%s.undecided.%s.json", prop, hashKey(u)))
		b, _ := json.MarshalIndent(map[string]interface{}{"property": prop, "undecided": u}, "", " ")
		os.WriteFile(rp, b, 0o644)
		fmt.Printf("VIOLATION property=%s replay=%s\n  undecided (an analysis that could not run is not a pass): %s\n", prop, rp, u)
	}
	for _, l := range knownLines {
		fmt.Println(l)
	}

	// evidence
	var samples []interface{}
	perRule := map[string]int{}
	sort.SliceStable(all, func(i, j int) bool { return all[i].Rule < all[j].Rule })
	for _, o := range all {
		if perRule[o.Rule] < 2 || !o.OK {
			perRule[o.Rule]++
			samples = append(samples, o)
		}
		if len(samples) >= 200 {
			break
		}
	}
	ruleCounts := map[string]int{}
	ruleWhat := map[string]string{}
	for _, o := range all {
		ruleCounts[o.Rule]++
		if _, ok := ruleWhat[o.Rule]; !ok {
			ruleWhat[o.Rule] = o.What
		}
	}
	var fl []string
	for f := range funcs {
		fl = append(fl, f)
	}
	sort.Strings(fl)
	ev := map[string]interface{}{
		"property_id": prop,
		"tier":        tier,
		"seed":        seed,
		"level":       "other",
		"coverage": map[string]interface{}{
			"explanation":         info.Explanation,
			"decides":             info.Decides,
			"does_not_decide":     info.NotDecided,
			"obligations":         len(all),
			"discharged":          discharged,
			"evaluations":         evaluations + len(all),
			"distinct_nontrivial": len(distinct),
			"rule":                "obligations are enumerated from the resolved program (SSA functions, call sites, field accesses, CFG paths under every valuation of the rule's finite atom domain); one obligation = one (rule, function, construct) instance; non-trivial = its discharge needed a path, dominance, dataflow or decision-table argument rather than a bare existence test; distinct = distinct obligation keys",
			"samples":             samples,
			"obligations_by_rule": ruleCounts,
			"rules":               ruleWhat,
			"functions_analysed":  fl,
			"configs":             configs,
			"tables":              tables,
			"notes":               notes,
			"known_findings":      knownLines,
			"fixed_findings":      fixed,
			"undecided":           undecided,
			"checker_cmd":         cmdline,
			"trusted_base":        append([]string{}, info.Trusted...),
			"exhaustive":          true,
		},
		"assumptions": append([]string{"the library compiles in the analysed configuration; standard-library contracts as listed in trusted_base"}, info.Assumptions...),
		"wall_s":      wall,
		"violations":  violations,
	}
	os.MkdirAll(filepath.Dir(evidencePath), 0o755)
	b, _ := json.MarshalIndent(ev, "", " ")
	if err := os.WriteFile(evidencePath, b, 0o644); err != nil {
		fmt.Printf("VIOLATION property=%s replay=%s\n  cannot write evidence: %v\n", prop, evidencePath, err)
		return 1
	}
	fmt.Printf("%s %s: %d obligations, %d discharged, %d known finding(s), %d violation(s), %d function(s), configs %v, %.2fs\n",
		prop, tier, len(all), discharged, len(knownLines), violations, len(fl), configs, wall)
	return exit
}

func firstNonEmpty(a ...string) string {
	for _, s := range a {
		if s != "" {
			return s
		}
	}
	return ""
}

// propInfo is the static description of what a property's rule set decides.
type propInfo struct {
	Explanation string
	Decides     []string
	NotDecided  []string
	Trusted     []string
	Assumptions []string
}
