package main

import (
	"fmt"
	"go/constant"
	"go/token"
	"go/types"
	"strings"

	"golang.org/x/tools/go/ssa"
)

func init() {
	register("C01", propInfo{
		Explanation: "Round-trip byte equality through DEFLATE is a value-level property and is NOT decided. Decided are structural necessary conditions in the anchored mechanisms: the caller's buffers are never a write destination anywhere on the write path; masking happens in the library's own buffer; every delivered byte of a compressed message with context takeover enters the sliding window; the decompressor's dictionary argument and the compressor's per-message reset follow the negotiated takeover flags; the four withheld tail bytes are the ones the reader re-appends; frame position is advanced by exactly the bytes delivered; fragment opcodes and the compression decision are per message.",
		Decides: []string{
			"C01.handoff (= C03.handoff): bytes the client sent right behind its handshake are replayed in front of the connection",
			"C01.buf: no store, copy, append, mask, binary.Put*, or Read targets a slice derived from the p parameter of Write/Writer.Write/writeFrame/writeFramePayload/trimLastFourBytesWriter.Write/NetConn.Write/wsjson's writer",
			"C01.maskdst: on the write path mask() is applied to Conn.writeBuf[i:Buffered()] with i taken before the Write",
			"C01.dict: msgReader.Read feeds slidingWindow.write(p[:n]) with n the count just returned, exactly when flate ∧ takeover",
			"C01.dictarg: resetFlate passes mr.dict.buf as dictionary iff takeover (else nil), resets the tail reader to the 4 tail bytes, and installs the flate reader behind the limit reader",
			"C01.wreset: msgWriter.Close returns the flate writer to the pool iff flate ∧ ¬takeover, after the final frame succeeded",
			"C01.tail: deflateMessageTail is 00 00 ff ff and every non-zero constant in trimLastFourBytesWriter.Write equals its length",
			"C01.count / C01.frag / C01.side / C01.decide: shared with C04.count, C02.frag, C14.side, C02.rsv1.decide",
			"C01.payload: a data frame whose flate flag may be set carries nothing or the bytes handed to this very call (nothing bypasses the compressor)",
			"C01.recv.loop: the receive-side accept/reject/dispatch table of readLoop (shared with C03.loop)",
		},
		NotDecided: []string{"byte equality of the round trip", "sliding-window shifting arithmetic", "tail bookkeeping inside trimLastFourBytesWriter", "message order", "threshold values"},
		Trusted:    []string{"go/types, go/ssa", "compress/flate, bufio contracts", "io.Writer contract: Write does not modify p"},
	}, runC01)
	register("C08", propInfo{
		Explanation: "Decided: the limit reader wraps the (decompressed) stream; its decision table over the remaining allowance (negative = unlimited, zero = reject with 1009, positive = bounded read and decrement); SetReadLimit/newMsgReader store limit+1; the allowance is reloaded for every message; an over-limit error is never converted into a clean end of message; no allocation or buffer growth is sized by a peer-declared length.",
		Decides: []string{
			"C08.table: limitReader.Read: n<0 ↦ pass-through; n==0 ↦ error + writeError(1009) without reading; n>0 ↦ read into p cut to n, n decremented by the count (floored at 0)",
			"C08.plus1: SetReadLimit stores n+1 for n ≥ 0 and n for n < 0; the default is 32768+1",
			"C08.reset: every message reloads the allowance from the limit (limitReader.reset from msgReader.reset on every path)",
			"C08.wrap: limit(inflate(bufio(frames))) order by the funnel rules; msgReader.Read reads only through the limit reader",
			"C08.eom: the limit error (or any error other than io.EOF / io.ErrUnexpectedEOF) is never reported as a clean end of message",
			"C08.mem: wire-declared lengths size no allocation, Grow or copy (shared with C03.taint)",
			"C08.sites: StatusMessageTooBig (1009) is sent only from limitReader.Read, which counts delivered (decompressed) bytes",
		},
		NotDecided: []string{"the byte count at the boundary for a concrete compressed stream", "actual heap use (compress/flate's fixed windows are trusted)"},
		Trusted:    []string{"go/types, go/ssa", "io.Reader contract"},
	}, runC08)
	register("C18", propInfo{
		Explanation: "Decided: netConn.read's decision table (close status 1000/1001 ↦ sticky io.EOF, other errors unchanged, wrong type ↦ Close(1003) and an error, end of message by identity io.EOF, empty reads skipped), netConn.Write issuing exactly one message write of p, the unlimited read limit, and the deadline mechanism's table (timer: tryLock false ↦ cancel, true ↦ set expired flag; Read/Write test the flag under their lock; Set*Deadline clears the flag and re-arms).",
		Decides: []string{
			"C18.ctl (= C03.ctl): control frames up to 125 bytes are accepted (a close with a 123-byte reason reads as io.EOF)",
			"C18.eof: CloseStatus(err) ∈ {1000,1001} ↦ io.EOF and readEOFed=true (later reads return io.EOF before touching the connection); other errors returned unchanged",
			"C18.type: typ ≠ msgType ↦ c.Close(StatusUnsupportedData, …) and a non-nil error; the reader is not installed",
			"C18.msgend: identity err == io.EOF from the message reader ↦ reader=nil, err=nil; Read loops while n == 0 ∧ err == nil",
			"C18.write: Write holds writeMu, tests the expired flag, issues one c.Write(writeCtx, msgType, p) and returns len(p) on success",
			"C18.limit: NetConn calls SetReadLimit(-1)",
			"C18.deadline: timer callbacks: tryLock failed ↦ cancel the context only; succeeded ↦ atomic store expired=1 and release; Read/Write return an error wrapping context.DeadlineExceeded when the flag is set, without touching the connection; SetRead/WriteDeadline store 0 to the flag, Stop for the zero time; for a time already passed they stop the timer and take the callback's decision at once (F20); else Reset(until)",
		},
		NotDecided: []string{"that concatenated writes equal concatenated reads (rests on C01)", "timing", "a deadline reset that races a timer callback already in flight (audit C18-finding_2)"},
		Trusted:    []string{"go/types, go/ssa", "time.Timer, sync/atomic contracts"},
	}, runC18)
	register("C19", propInfo{
		Explanation: "Decided: wsjson.write performs one Encode on one encoder whose writer issues one c.Write(ctx, MessageText, p) per call with its own p; wsjson.read takes one reader, reads it through a pooled buffer whose Put is deferred, returns before Unmarshal on a read error, and on an Unmarshal error closes with 1007 and returns an error wrapping it; the pooled bytes flow only into Unmarshal.",
		Decides: []string{
			"C19.write: the WriterFunc closure calls c.Write(ctx, MessageText, p) with its own p and returns len(p) / (0, err); write does one Encode(v) on one encoder over that closure",
			"C19.read: one c.Reader(ctx); bpool.Get then deferred Put; ReadFrom error ↦ return; json.Unmarshal(b.Bytes(), v) error ↦ c.Close(StatusInvalidFramePayloadData, …) and a non-nil error wrapping it with %w; else nil",
			"C19.alias: b.Bytes() flows only into json.Unmarshal (shared with C07.ws)",
			"C19.clients: bpool is used only by wsjson.read (shared with C07.clients)",
		},
		NotDecided: []string{"JSON equivalence of values (encoding/json trusted: one Write per Encode)"},
		Trusted:    []string{"go/types, go/ssa", "encoding/json contracts"},
	}, runC19)
}

// ---- C01 --------------------------------------------------------------------------------------------------------------

func runC01(p *Program, r *Report) {
	c01buf(p, r, "C01.buf")
	cWriterHandle(p, r, "C01.handle")
	c17slice(p, r, "C01.maskdst")
	c01dict(p, r, "C01.dict")
	c01wreset(p, r, "C01.wreset")
	c01tail(p, r, "C01.tail")
	// shared rules
	c04unmask(p, r, "C01.unmask")
	c02frag(p, r, "C01.frag")
	c14side(p, r, "C01.side")
	c14sideUse(p, r, "C01.side.use")
	c07alias(p, r, "C01.pool")
	c07get(p, r, "C01.pool.get")
	c14server(p, r, "C01.negotiation.server")
	c14client(p, r, "C01.negotiation.client")
	cFramePayload(p, r, "C01.payload")
	c03loop(p, r, "C01.recv.loop")
	// the receiver reconstructs the frame lengths the sender wrote: the header codec's reads are full reads of exactly the
	// bytes of the form announced (a message over 65535 bytes is lost otherwise: seed C01-O)
	c03hdr(p, r, "C01.hdr")
	c03full(p, r, "C01.full")
	// bytes the client sent right behind its handshake are part of the first message (seed C01-M)
	shareAs(r, "C11.buf", "C01.handoff", func(sub *Report) { c11gate(p, sub, "C01.handoff") })
	sub := newReport(r.Prop, r.Tier)
	c02rsv(p, sub, "C01.rsv")
	for _, o := range sub.Obls {
		r.add(o)
	}
	r.Evaluations += sub.Evaluations
	for f := range sub.Funcs {
		r.Funcs[f] = true
	}
	for k, v := range sub.Tables {
		r.Tables[k] = v
	}
}

// c01buf: caller buffers are never written.
func c01buf(p *Program, r *Report, rule string) {
	roots := map[string]string{
		"Conn.Write": "p", "Conn.write": "p", "msgWriter.Write": "p", "msgWriter.write": "p", "Conn.writeFrame": "p", "Conn.writeFramePayload": "p",
		"trimLastFourBytesWriter.Write": "p", "netConn.Write": "p", "wsjson.write$1": "p", "Conn.writeControl": "p", "util.WriterFunc.Write": "p",
	}
	tainted := map[*ssa.Parameter]bool{}
	for fnName, prm := range roots {
		var fn *ssa.Function
		if fnName == "wsjson.write$1" {
			fn, _ = p.wsjsonSink()
			if fn != nil && fn.Signature.Recv() != nil {
				// a named writer type instead of the closure: its []byte parameter, whatever it is called
				for _, x := range fn.Params {
					if _, ok := x.Type().Underlying().(*types.Slice); ok {
						tainted[x] = true
					}
				}
				continue
			}
		}
		if fn == nil {
			fn = p.Func(fnName)
		}
		if fn == nil {
			continue
		}
		for _, x := range fn.Params {
			if paramName(x) == prm {
				tainted[x] = true
			}
		}
	}
	derives := func(v ssa.Value) *ssa.Parameter {
		seen := map[ssa.Value]bool{}
		var rec func(v ssa.Value) *ssa.Parameter
		rec = func(v ssa.Value) *ssa.Parameter {
			if v == nil || seen[v] {
				return nil
			}
			seen[v] = true
			switch x := v.(type) {
			case *ssa.Parameter:
				if tainted[x] {
					return x
				}
			case *ssa.Slice:
				return rec(x.X)
			case *ssa.Phi:
				for _, e := range x.Edges {
					if pr := rec(e); pr != nil {
						return pr
					}
				}
			case *ssa.ChangeType:
				return rec(x.X)
			case *ssa.MakeInterface:
				return rec(x.X)
			}
			return nil
		}
		return rec(v)
	}
	// propagate through library calls
	for changed := true; changed; {
		changed = false
		for _, cs := range p.CallSites() {
			if cs.Callee == nil || !p.isLib(cs.Callee) {
				continue
			}
			args := cs.Instr.Common().Args
			for i, a := range args {
				if i < len(cs.Callee.Params) && derives(a) != nil {
					if _, isSlice := cs.Callee.Params[i].Type().Underlying().(*types.Slice); isSlice && !tainted[cs.Callee.Params[i]] {
						tainted[cs.Callee.Params[i]] = true
						changed = true
					}
				}
			}
		}
	}
	nSinks := 0
	for _, fn := range p.Funcs {
		fname := p.FuncName(fn)
		has := false
		for _, x := range fn.Params {
			if tainted[x] {
				has = true
			}
		}
		if !has {
			continue
		}
		r.UseFunc(fname)
		for _, b := range p.blocksOf(fn) {
			for _, in := range b.Instrs {
				switch x := in.(type) {
				case *ssa.Store:
					if ia, ok := x.Addr.(*ssa.IndexAddr); ok && derives(ia.X) != nil {
						nSinks++
						r.Check(rule, fname, "element store into the caller's buffer", p.InstrPos(x), false, "the caller's buffer is never written", "store through "+ia.X.Name())
					}
				case ssa.CallInstruction:
					cc := x.Common()
					_, name := p.calleeOf(cc)
					dst := -1
					switch {
					case name == "builtin copy", name == "builtin append":
						dst = 0
					case name == "mask" || name == "maskGo":
						dst = 0
					case strings.Contains(name, "Endian).Put") || strings.Contains(name, "Endian).Append"):
						dst = 1
					case name == "io.ReadFull" || name == "io.ReadAtLeast":
						dst = 1
					case strings.HasSuffix(name, ".Read") && !cc.IsInvoke():
						dst = 1
					case cc.IsInvoke() && cc.Method.Name() == "Read":
						dst = 0
					}
					if dst >= 0 && dst < len(cc.Args) {
						nSinks++
						if pr := derives(cc.Args[dst]); pr != nil {
							r.Check(rule, fname, name+" into the caller's buffer", p.InstrPos(in), false, "the buffers passed to the write calls are never a destination of copy/append/mask/Put*/Read", name+" writes into a slice derived from parameter "+pr.Name())
						}
					}
				}
			}
		}
	}
	var names []string
	for prm := range tainted {
		names = append(names, p.FuncName(prm.Parent())+"("+prm.Name()+")")
	}
	r.Check(rule, "write path", "caller-buffer parameters", "-", len(tainted) >= 8, "taint roots and propagated parameters resolved", fmt.Sprintf("%d parameters carry the caller's buffer: %s; %d potential sinks inspected", len(tainted), strings.Join(sortedKeys(toSet(names)), ", "), nSinks))
}

func toSet(s []string) map[string]bool {
	m := map[string]bool{}
	for _, x := range s {
		m[x] = true
	}
	return m
}

// readerTakeover: whether the reader keeps the peer's compression context on this path: the result of
// msgReader.flateContextTakeover when it is called, else the same decision spelled out on the path (the helper was
// inlined or replaced by a function of the role and the options): client ↦ ¬serverNoContextTakeover, server ↦
// ¬clientNoContextTakeover (the side itself is decided by C14.side / C14.side.use).
func readerTakeover(pa *Path) (bool, bool) {
	for _, d := range pa.Decisions {
		if strings.HasPrefix(d.Key, "call:msgReader.flateContextTakeover@") {
			return d.Val, true
		}
	}
	client, known := pa.Decided("Conn.client")
	if !known {
		return false, false
	}
	flag := "compressionOptions.clientNoContextTakeover"
	if client {
		flag = "compressionOptions.serverNoContextTakeover"
	}
	no, known := pa.Decided(flag)
	return !no, known
}

func c01dict(p *Program, r *Report, rule string) {
	if fn := p.Func("msgReader.Read"); fn != nil {
		p.forAllPaths(r, rule, fn, "delivered bytes enter the dictionary", Opts{},
			"when the message is compressed and the peer's context is taken over, every Read passes slidingWindow.write(mr.dict, p[:n]) with n the count limitReader.Read just returned, before returning; otherwise the window is not touched",
			func(pa *Path) (bool, string) {
				lr := pa.Calls("limitReader.Read")
				if len(lr) == 0 {
					return true, ""
				}
				fl, k1 := pa.Decided("msgReader.flate")
				to, k2 := readerTakeover(pa)
				sw := pa.Calls("slidingWindow.write")
				want := k1 && fl && k2 && to
				if !want {
					if len(sw) > 0 {
						return false, "window written although flate∧takeover does not hold"
					}
					return true, ""
				}
				n := lr[0].Res.Key() + "#0"
				if len(sw) != 1 || argKey(sw[0], 0) != "msgReader.dict" || argKey(sw[0], 1) != "slice(param:p,_,"+n+",_)" {
					return false, "window not fed with p[:n]: " + fmt.Sprint(len(sw)) + " call(s) " + func() string {
						if len(sw) > 0 {
							return argKey(sw[0], 1)
						}
						return ""
					}()
				}
				return true, ""
			})
	}
	if fn := p.Func("msgReader.resetFlate"); fn != nil {
		p.forAllPaths(r, "C01.dictarg", fn, "dictionary per takeover flag", Opts{},
			"resetFlate: with takeover the flate reader is (re)initialised with mr.dict.buf as dictionary (the window is initialised first), without takeover with nil; its source is mr.flateBufio (created from mr.readFunc when absent); the limit reader is pointed at it and the tail reader is reset to the 4 tail bytes",
			func(pa *Path) (bool, string) {
				var tos []bool
				for _, d := range pa.Decisions {
					if strings.HasPrefix(d.Key, "call:msgReader.flateContextTakeover@") {
						tos = append(tos, d.Val)
					}
				}
				if len(tos) == 0 {
					if to, known := readerTakeover(pa); known {
						tos = append(tos, to)
					}
				}
				gf := pa.Calls("getFlateReader")
				if len(gf) != 1 {
					return false, "getFlateReader not called once"
				}
				if len(tos) == 0 {
					return false, "takeover not consulted"
				}
				// the decision governing the dictionary argument is the last one
				to := tos[len(tos)-1]
				dict := argKey(gf[0], 1)
				if to && !strings.HasSuffix(dict, ".buf") {
					return false, "takeover but dictionary argument is " + dict
				}
				if !to && dict != "nil" {
					return false, "no takeover but dictionary argument is " + dict
				}
				if to {
					if len(pa.Calls("slidingWindow.init")) == 0 && tos[0] {
						return false, "window not initialised"
					}
				}
				src := argKey(gf[0], 0)
				if src != "msgReader.flateBufio" && !keyIs(gf[0].Args[0], "call:getBufioReader@@") {
					return false, "flate source is " + src
				}
				// the bufio reader must not carry bytes of the previous message (BFINAL block + padding, RFC 7692 §7.2.3.4)
				if src == "msgReader.flateBufio" {
					gi := eventIndex(pa, 0, func(e *Event) bool { return e == gf[0] })
					ri := eventIndex(pa, 0, func(e *Event) bool {
						return isCall(e, "(*bufio.Reader).Reset") && argKey(e, 0) == "msgReader.flateBufio" && argKey(e, 1) == "msgReader.readFunc"
					})
					if ri < 0 || ri > gi {
						return false, "the retained bufio reader is reused for the next message without Reset: bytes left unread by the previous message (padding after a BFINAL=1 block) are decoded as the start of this one"
					}
				}
				okR, okT := false, false
				for _, e := range pa.Events {
					if e.Kind == "store" && e.AddrK == "limitReader.r" && e.Val.Key() == gf[0].Res.Key() {
						okR = true
					}
					if isCall(e, "(*strings.Reader).Reset") && argKey(e, 0) == "&msgReader.flateTail" && argKey(e, 1) == `"\x00\x00\xff\xff"` {
						okT = true
					}
				}
				if !okR || !okT {
					return false, fmt.Sprintf("limitReader.r installed=%v tail reset=%v", okR, okT)
				}
				return true, ""
			})
	}
	// msgReader.reset: flate = h.rsv1; resetFlate iff flate; limit reset; setFrame
	if fn := p.Func("msgReader.reset"); fn != nil {
		p.forAllPaths(r, "C01.reset", fn, "per-message reader state", Opts{}, "msgReader.reset stores ctx, flate = h.rsv1, reloads the limit reader with mr.readFunc, calls resetFlate iff the message is compressed, and installs the first frame", func(pa *Path) (bool, string) {
			fl, known := pa.Decided("param:h.rsv1")
			rf := len(pa.Calls("msgReader.resetFlate")) > 0
			if !known || fl != rf {
				return false, fmt.Sprintf("resetFlate=%v although rsv1=%v", rf, fl)
			}
			lr := pa.Calls("limitReader.reset")
			sf := pa.Calls("msgReader.setFrame")
			if len(lr) != 1 || argKey(lr[0], 1) != "msgReader.readFunc" || len(sf) != 1 {
				return false, "limit reader / frame not installed"
			}
			okF := false
			for _, e := range pa.Events {
				if e.Kind == "store" && e.AddrK == "msgReader.flate" && e.Val.Key() == "param:h.rsv1" {
					okF = true
				}
			}
			if !okF {
				return false, "flate not taken from h.rsv1"
			}
			return true, ""
		})
	}
}

func c01wreset(p *Program, r *Report, rule string) {
	fn := p.Func("msgWriter.Close")
	if fn == nil {
		return
	}
	p.forAllPaths(r, rule, fn, "per-message compressor reset", Opts{},
		"msgWriter.Close: a compressed message is flushed before the final frame; after the final frame succeeded the flate writer goes back to the pool iff flate ∧ ¬takeover (a sender with no_context_takeover starts a fresh stream per message; one with takeover keeps its window)",
		func(pa *Path) (bool, string) {
			wf := pa.Calls("Conn.writeFrame")
			if len(wf) == 0 {
				return true, ""
			}
			fl, _ := pa.Decided("msgWriter.flate")
			flush := eventIndex(pa, 0, func(e *Event) bool { return isCall(e, "(*flate.Writer).Flush") })
			wi := eventIndex(pa, 0, func(e *Event) bool { return isCall(e, "Conn.writeFrame") })
			if fl && (flush < 0 || flush > wi) {
				return false, "compressed message not flushed before the final frame"
			}
			ok, known := decidedLike(pa, "call:Conn.writeFrame@@#1 == nil")
			put := len(pa.Calls("msgWriter.putFlateWriter")) > 0
			if !known || !ok {
				if put {
					return false, "flate writer released although the final frame failed"
				}
				return true, ""
			}
			to, k2 := false, false
			for _, d := range pa.Decisions {
				if strings.HasPrefix(d.Key, "call:msgWriter.flateContextTakeover@") {
					to, k2 = d.Val, true
				}
			}
			want := fl && k2 && !to
			if put != want {
				return false, fmt.Sprintf("putFlateWriter=%v with flate=%v takeover=%v(known %v)", put, fl, to, k2)
			}
			return true, ""
		})
}

func c01tail(p *Program, r *Report, rule string) {
	if c, ok := p.member("deflateMessageTail").(*ssa.NamedConst); ok {
		s := constant.StringVal(c.Value.Value)
		r.Exists(rule, "compress.go", "deflateMessageTail", "-", s == "\x00\x00\xff\xff", "deflateMessageTail is the 4 bytes 00 00 ff ff (RFC 7692 §7.2.1)", fmt.Sprintf("%q", s))
		if fn := p.Func("trimLastFourBytesWriter.Write"); fn != nil {
			bad := ""
			n := 0
			for _, b := range p.blocksOf(fn) {
				for _, in := range b.Instrs {
					var ops []*ssa.Value
					for _, op := range in.Operands(ops) {
						if op == nil || *op == nil {
							continue
						}
						if k, ok := (*op).(*ssa.Const); ok && k.Value != nil && k.Value.Kind() == constant.Int {
							if v, ok := constant.Int64Val(k.Value); ok && v != 0 && v != 1 && v != -1 {
								n++
								if v != int64(len(s)) && v != -int64(len(s)) {
									bad += fmt.Sprintf("%d at %s; ", v, p.InstrPos(in))
								}
							}
						}
					}
				}
			}
			r.Check(rule, "trimLastFourBytesWriter.Write", "tail length constants", p.FuncPos(fn), bad == "" && n >= 4, "every length constant in trimLastFourBytesWriter.Write equals len(deflateMessageTail) = 4: the writer withholds exactly the bytes the reader re-appends", firstNonEmpty(bad, fmt.Sprintf("%d constants, all 4", n)))
		}
	} else {
		p.Unresolved = append(p.Unresolved, "const deflateMessageTail")
	}
}

// ---- C08 --------------------------------------------------------------------------------------------------------------------

func runC08(p *Program, r *Report) {
	cTooBigSites(p, r, "C08.sites")
	if fn := p.Func("limitReader.Read"); fn != nil {
		ns := candidates(intConstsCompared(fn), -1, 0, 1, 5)
		p.runTable(r, tableSpec{
			Rule: "C08.table", Fn: fn,
			Atoms: []Atom{intAtom("limitReader.n", ns), intAtom("len(param:p)", []int64{0, 1, 3, 5, 6, 100})},
			Classify: func(v Valuation, pa *Path) string {
				rd := pa.Calls("invoke io.Reader.Read")
				we := pa.Calls("Conn.writeError")
				if len(rd) == 0 {
					if len(we) == 1 && argKey(we[0], 1) == "1009" && retErr(pa) == "nonnil" {
						if z, ok := avInt(pa.Ret[0]); ok && z == 0 {
							return "REJECT-1009"
						}
					}
					return "NO-READ " + retErr(pa)
				}
				if argKey(rd[0], 0) != "limitReader.r" {
					return "READS-FROM " + argKey(rd[0], 0)
				}
				buf := argKey(rd[0], 1)
				if len(we) > 0 {
					// the budget ran out in this very call and the stream ended with it: the bytes read plus the limit error and 1009
					last := ""
					for _, e := range pa.Events {
						if e.Kind == "store" && e.AddrK == "limitReader.n" {
							last = e.Val.Key()
						}
					}
					if len(we) == 1 && argKey(we[0], 1) == "1009" && keyIs(pa.Ret[0], "call:invoke io.Reader.Read@@#0") && pa.Ret[1].Key() == argKey(we[0], 2) && retErr(pa) == "nonnil" && last == "0" {
						return "READ " + stripSites(buf) + " n=0 LIMIT-1009"
					}
					return "READ+CLOSE"
				}
				if !keyIs(pa.Ret[0], "call:invoke io.Reader.Read@@#0") || !keyIs(pa.Ret[1], "call:invoke io.Reader.Read@@#1") {
					return "RESULT-CHANGED"
				}
				// decrement
				dec := ""
				for _, e := range pa.Events {
					if e.Kind == "store" && e.AddrK == "limitReader.n" {
						dec = e.Val.Key()
					}
				}
				out := "READ " + stripSites(buf)
				if dec == "" {
					return out + " NO-DECREMENT"
				}
				return out + " n=" + stripSites(dec)
			},
			Oracle: func(v Valuation) []string {
				n, l := v.Int("limitReader.n"), v.Int("len(param:p)")
				cnt := "convert:int64(call:invoke io.Reader.Read#0)"
				switch {
				case n < 0:
					return []string{"READ param:p NO-DECREMENT"}
				case n == 0:
					return []string{"REJECT-1009"}
				case l > n:
					b := fmt.Sprintf("READ slice(param:p,_,%d,_)", n)
					return []string{fmt.Sprintf("%s n=(%d - %s)", b, n, cnt), b + " n=0", b + " n=0 LIMIT-1009"}
				}
				return []string{fmt.Sprintf("READ param:p n=(%d - %s)", n, cnt), "READ param:p n=0", "READ param:p n=0 LIMIT-1009"}
			},
			What: "limit reader: negative allowance = unlimited pass-through; zero = the message is over the limit: error and Close(1009) without reading; positive = read at most n bytes and subtract the count (floored at 0); when that uses the allowance up and the stream ends in the same call: the bytes, the limit error and Close(1009)",
		})
		// the allowance is limit+1 bytes: once it is used up the message is larger than the limit, also when the underlying
		// reader reports the end of the stream in the same call (a flate stream whose last block is final does)
		p.forAllPaths(r, "C08.boundary", fn, "end of stream together with the last allowed byte", Opts{},
			"limitReader.Read passes the underlying reader's error on unchanged only if allowance remains after this read (n - count > 0) or the error is not an end-of-stream error (io.EOF / io.ErrUnexpectedEOF); otherwise a message of exactly limit+1 bytes that ends in the same Read call is reported complete",
			func(pa *Path) (bool, string) {
				rd := pa.Calls("invoke io.Reader.Read")
				if len(rd) != 1 || pa.End != "return" {
					return true, ""
				}
				if pa.IntAtMost("limitReader.n", -1) {
					return true, "" // unlimited
				}
				uerr := rd[0].Res.Key() + "#1"
				if pa.Ret[1].Key() != uerr {
					return true, "" // replaced (checked by C08.table)
				}
				after := ""
				for _, e := range pa.Events {
					if e.Kind == "store" && e.AddrK == "limitReader.n" && after == "" {
						after = e.Val.Key()
					}
				}
				if after != "" && pa.IntAtLeast(after, 1) {
					return true, ""
				}
				notEnd := func(sentinel string) bool {
					if v, ok := decidedRel(pa, uerr, "==", sentinel); ok && !v {
						return true
					}
					for _, e := range pa.Calls("errors.Is") {
						if argKey(e, 0) == uerr && argKey(e, 1) == sentinel {
							if v, ok := pa.Decided(e.Res.Key()); ok && !v {
								return true
							}
						}
					}
					return false
				}
				if v, ok := decidedRel(pa, uerr, "==", "nil"); ok && v {
					return true, ""
				}
				if notEnd("G:io.EOF") && notEnd("G:io.ErrUnexpectedEOF") {
					return true, ""
				}
				return false, "the underlying reader's error is returned unchanged although the allowance of limit+1 bytes may be used up by this read"
			})
	}
	if c, ok := p.member("StatusMessageTooBig").(*ssa.NamedConst); ok {
		v, _ := constInt64(c.Value.Value)
		r.Exists("C08.table", "close.go", "StatusMessageTooBig", "-", v == 1009, "StatusMessageTooBig = 1009", fmt.Sprint(v))
	}
	if fn := p.Func("Conn.SetReadLimit"); fn != nil {
		p.runTable(r, tableSpec{
			Rule: "C08.plus1", Fn: fn, Atoms: []Atom{intAtom("param:n", candidates(intConstsCompared(fn), -1, 0, 1, 32768))},
			Classify: func(v Valuation, pa *Path) string {
				st := limitStores(pa)
				if len(st) != 1 || argKey(st[0], 0) != "&limitReader.limit" {
					return "NO-STORE"
				}
				return "limit=" + argKey(st[0], 1)
			},
			Oracle: func(v Valuation) []string {
				n := v.Int("param:n")
				if n >= 0 {
					return []string{fmt.Sprintf("limit=%d", n+1)}
				}
				return []string{fmt.Sprintf("limit=%d", n)}
			},
			What: "SetReadLimit stores n+1 for n ≥ 0 (one extra byte decides 'exactly at the limit' vs 'over it') and n itself for negative n (unlimited)",
		})
	}
	if fn := p.Func("newMsgReader"); fn != nil {
		p.forAllPaths(r, "C08.plus1", fn, "default limit", Opts{}, "newMsgReader creates the limit reader over mr.readFunc with the default allowance 32768+1", func(pa *Path) (bool, string) {
			nl := pa.Calls("newLimitReader")
			if len(nl) != 1 || argKey(nl[0], 2) != "32769" {
				return false, "default allowance " + func() string {
					if len(nl) > 0 {
						return argKey(nl[0], 2)
					}
					return "?"
				}()
			}
			return true, ""
		})
	}
	// the same end to end: whatever newLimitReader (and helpers) do with the argument, the value stored is 32768+1
	if fn := p.Func("newMsgReader"); fn != nil {
		p.forAllPaths(r, "C08.plus1", fn, "default limit as stored", Opts{Inline: p.inlineSet("newLimitReader")}, "the allowance stored by the constructor chain newMsgReader → newLimitReader is the constant 32768+1", func(pa *Path) (bool, string) {
			st := limitStores(pa)
			if len(st) != 1 || !strings.HasSuffix(argKey(st[0], 0), ".limit") {
				return false, fmt.Sprintf("%d stores of the limit in the constructor chain", len(st))
			}
			if argKey(st[0], 1) != "32769" {
				return false, "stored default allowance " + argKey(st[0], 1)
			}
			return true, ""
		})
	}
	// the limit in force when the message arrives applies: the allowance is reloaded after the first frame header was read
	if fn := p.Func("Conn.reader"); fn != nil {
		p.forAllPaths(r, "C08.reset", fn, "allowance reloaded when the message arrives", Opts{Inline: p.inlineSet("msgReader.reset")},
			"Conn.reader reloads the allowance (limitReader.reset) after readLoop returned the first frame of the message, not before waiting for it: a SetReadLimit made while a Reader waits applies to the message that arrives next", func(pa *Path) (bool, string) {
				li := eventIndex(pa, 0, func(e *Event) bool { return isCall(e, "limitReader.reset") })
				ri := eventIndex(pa, 0, func(e *Event) bool { return isCall(e, "Conn.readLoop") })
				if li >= 0 && (ri < 0 || li < ri) {
					return false, "the allowance is reloaded before the frame that starts the message was read"
				}
				if pa.End == "return" && retErr(pa) == "nil" && li < 0 {
					return false, "a message is delivered without reloading the allowance"
				}
				return true, ""
			})
	}
	if fn := p.Func("limitReader.reset"); fn != nil {
		p.forAllPaths(r, "C08.reset", fn, "allowance reloaded", Opts{}, "limitReader.reset sets n = limit.Load() and r = its argument", func(pa *Path) (bool, string) {
			okN, okR := false, false
			for _, e := range pa.Events {
				if e.Kind == "store" && e.AddrK == "limitReader.n" && (keyIs(e.Val, "call:xsync.Int64.Load@@") || keyIs(e.Val, "call:atomic.LoadInt64@@")) {
					okN = true
				}
				if e.Kind == "store" && e.AddrK == "limitReader.r" && e.Val.Key() == "param:r" {
					okR = true
				}
			}
			if !okN || !okR {
				return false, fmt.Sprintf("n reloaded=%v r set=%v", okN, okR)
			}
			return true, ""
		})
	}
	if fn := p.Func("msgReader.reset"); fn != nil {
		p.forAllPaths(r, "C08.reset", fn, "every message resets the limit", Opts{}, "msgReader.reset calls limitReader.reset(mr.readFunc) on every path (each message gets the full allowance, counted after decompression because resetFlate re-points r at the flate reader afterwards)", func(pa *Path) (bool, string) {
			li := eventIndex(pa, 0, func(e *Event) bool { return isCall(e, "limitReader.reset") })
			fi := eventIndex(pa, 0, func(e *Event) bool { return isCall(e, "msgReader.resetFlate") })
			if li < 0 {
				return false, "limit not reset"
			}
			if fi >= 0 && fi < li {
				return false, "resetFlate before the limit reset (the flate reader would be bypassed)"
			}
			return true, ""
		})
	}
	if f := p.Field("limitReader.n"); f != nil {
		for _, fa := range p.FieldAccesses(f) {
			if fa.Write || fa.Addr {
				fname := p.FuncName(fa.Fn)
				ok := fname == "limitReader.reset" || fname == "limitReader.Read"
				r.Check("C08.writers", fname, "store limitReader.n", p.InstrPos(fa.Instr), ok, "the remaining allowance is written only by limitReader.reset (per message) and limitReader.Read (decrement): a limit change takes effect at the next message", fname)
			}
		}
	}
	cReasons(p, r, "C08.reasons")
	c04eom(p, r, "C08.eom")
	c07funnel(p, r, "C08.wrap")
	c03taint(p, r, "C08.mem")
	if fn := p.Func("NetConn"); fn != nil {
		p.forAllPaths(r, "C08.netconn", fn, "NetConn disables the limit explicitly", Opts{}, "NetConn calls c.SetReadLimit(-1)", func(pa *Path) (bool, string) {
			sl := pa.Calls("Conn.SetReadLimit")
			if len(sl) != 1 || argKey(sl[0], 1) != "-1" {
				return false, "SetReadLimit(-1) missing"
			}
			return true, ""
		})
	}
}

// ---- C18 ---------------------------------------------------------------------------------------------------------------------

func runC18(p *Program, r *Report) {
	if fn := p.Func("netConn.read"); fn != nil {
		codes := candidates(intConstsCompared(fn), 1000, 1001, 1002, 1005, -1)
		p.runTable(r, tableSpec{
			Rule: "C18.eof", Fn: fn,
			Atoms: []Atom{intAtom("call:CloseStatus", codes), boolAtom("netConn.readEOFed"), intAtom("call:atomic.LoadInt64", []int64{0, 1})},
			Decide: func(v Valuation) func(string, AV) (bool, bool) {
				return func(key string, cond AV) (bool, bool) {
					if stripSites(key) == "(netConn.reader == nil)" {
						return true, true
					}
					if strings.HasPrefix(key, "(call:Conn.Reader@") {
						return false, true // Reader failed
					}
					return false, false
				}
			},
			Classify: func(v Valuation, pa *Path) string {
				if pa.End != "return" {
					return pa.End
				}
				touched := len(pa.Calls("Conn.Reader")) > 0
				t := ""
				if touched {
					t = " after Reader"
				}
				sticky := ""
				for _, e := range pa.Events {
					if e.Kind == "store" && e.AddrK == "netConn.readEOFed" {
						sticky = " sticky=" + e.Val.Key()
					}
				}
				switch {
				case pa.Ret[1].Key() == "G:io.EOF":
					return "EOF" + t + sticky
				case keyIs(pa.Ret[1], "call:Conn.Reader@@#2"):
					return "ERR-UNCHANGED" + sticky
				case nilness(pa.Ret[1], pa) == 1:
					for _, e := range pa.Calls("fmt.Errorf") {
						if e.Res.Key() == pa.Ret[1].Key() {
							f, _ := avStr(e.Args[0])
							va := varargsOf(pa, e)
							if strings.Contains(f, "%w") && len(va) == 1 && va[0].Key() == "G:context.DeadlineExceeded" {
								return "DEADLINE" + t
							}
						}
					}
					return "ERR" + t
				}
				return "RET " + pa.Ret[1].Key()
			},
			Oracle: func(v Valuation) []string {
				if v.Int("call:atomic.LoadInt64") == 1 {
					return []string{"DEADLINE"}
				}
				if v.Bool("netConn.readEOFed") {
					return []string{"EOF"}
				}
				c := v.Int("call:CloseStatus")
				if c == 1000 || c == 1001 {
					return []string{"EOF after Reader sticky=true"}
				}
				return []string{"ERR-UNCHANGED"}
			},
			What: "NetConn read: expired deadline ↦ deadline error without touching the connection; after EOF ↦ io.EOF again; a Reader error with close status 1000/1001 ↦ io.EOF (sticky); any other error unchanged",
		})
		p.forAllPaths(r, "C18.type", fn, "wrong message type", Opts{}, "a message whose type differs from msgType closes the connection with StatusUnsupportedData (1003) and fails the read; the reader is installed only for the right type", func(pa *Path) (bool, string) {
			mism, known := decidedRel(pa, "call:Conn.Reader@@#0", "!=", "netConn.msgType")
			if !known {
				return true, ""
			}
			installed := false
			for _, e := range pa.Events {
				if e.Kind == "store" && e.AddrK == "netConn.reader" && keyIs(e.Val, "call:Conn.Reader@@#1") {
					installed = true
				}
			}
			cl := pa.Calls("Conn.Close")
			if mism {
				// the 1003 close is the connection's own orderly failure close: cancelling the read context first would let the
				// timeout watcher tear the transport down before the close frame is out
				for _, e := range pa.Events {
					if e.Kind == "call" && strings.HasPrefix(e.Callee, "dyn ") && strings.Contains(e.Callee, "Cancel") {
						return false, "mismatch: " + e.Callee + " called before the connection is closed with 1003"
					}
				}
				if len(cl) != 1 || argKey(cl[0], 1) != "1003" || installed || retErr(pa) != "nonnil" {
					return false, fmt.Sprintf("mismatch: Close calls=%d code=%s installed=%v err=%s", len(cl), func() string {
						if len(cl) > 0 {
							return argKey(cl[0], 1)
						}
						return "-"
					}(), installed, retErr(pa))
				}
				return true, ""
			}
			if !installed || len(cl) > 0 {
				return false, "right type but reader not installed / connection closed"
			}
			return true, ""
		})
	}
	if fn := p.Func("netConn.read"); fn != nil {
		p.forAllPaths(r, "C18.msgend", fn, "reader dropped only at the end of its message", Opts{}, "netConn.read forgets the current message reader only when that reader returned io.EOF (by identity); a deadline error, or any other error, leaves a partly read message in place so that the stream continues where it stopped", func(pa *Path) (bool, string) {
			for _, e := range pa.Events {
				if e.Kind != "store" || e.AddrK != "netConn.reader" {
					continue
				}
				if keyIs(e.Val, "call:Conn.Reader@@#1") {
					continue // installing the reader of a new message
				}
				eof, known := decidedRel(pa, "call:invoke io.Reader.Read@@#1", "==", "G:io.EOF")
				if !known || !eof {
					return false, "netConn.reader is set to " + e.Val.Key() + " on a path where the message reader did not return io.EOF"
				}
			}
			return true, ""
		})
	}
	cReasons(p, r, "C18.reasons")
	// "a peer's normal or going-away close reads as io.EOF": the close frame must first be accepted, up to 125 bytes (seed C18-N)
	c03ctl(p, r, "C18.ctl")
	armingRules(p, r, true, false)
	c04adapters(p, r, "C18.msgend")
	if fn := p.Func("netConn.Read"); fn != nil {
		p.forAllPaths(r, "C18.msgend", fn, "empty reads skipped", Opts{Unroll: 2}, "netConn.Read holds readMu (forceLock + deferred unlock) and loops while read returned (0, nil); it returns as soon as n > 0 or err != nil, with read's values", func(pa *Path) (bool, string) {
			li := eventIndex(pa, 0, func(e *Event) bool { return isCall(e, "mu.forceLock") && argKey(e, 0) == "netConn.readMu" })
			ri := eventIndex(pa, 0, func(e *Event) bool { return isCall(e, "netConn.read") })
			if li < 0 || ri < li {
				return false, "read before readMu"
			}
			rds := pa.Calls("netConn.read")
			if pa.End == "return" {
				last := rds[len(rds)-1]
				if !keyIs(pa.Ret[0], last.Res.Key()+"#0") {
					return false, "returns count " + pa.Ret[0].Key()
				}
				// (0,nil) never returned: on a nil-error return the count was tested non-zero
				if nilness(pa.Ret[1], pa) == -1 {
					if z, known := decidedLike(pa, last.Res.Key()+"#0 == 0"); !known || z {
						// … except into an empty buffer, where looping would never end while a message is pending (F32)
						if ne, k := nonEmpty(pa, "param:p"); !(known && z && k && !ne) {
							return false, "may return (0, nil) for a non-empty buffer"
						}
					}
				}
			}
			return true, ""
		})
	}
	// a read of 0 bytes continues the loop only when the buffer could have taken something
	if fn := p.Func("netConn.Read"); fn != nil {
		p.forAllPaths(r, "C18.msgend", fn, "no spinning on an empty buffer", Opts{Unroll: 2}, "netConn.Read calls read again after (0, nil) only when len(p) > 0: with an empty buffer every read of a pending message returns (0, nil) and the loop would never end, holding readMu", func(pa *Path) (bool, string) {
			rds := pa.Calls("netConn.read")
			if len(rds) >= 2 {
				if ne, k := nonEmpty(pa, "param:p"); !k || !ne {
					return false, "read called again although the buffer is (or may be) empty"
				}
			}
			return true, ""
		})
	}
	// the close handshake precedes the cancellation of the read and write contexts (F31)
	if fn := p.Func("netConn.Close"); fn != nil {
		p.forAllPaths(r, "C18.close.order", fn, "handshake before cancel", Opts{}, "netConn.Close calls Conn.Close(StatusNormalClosure, \"\") before it cancels the contexts of a Read or Write in progress: a cancelled context makes the timeout watcher close the transport, and no close frame would be sent", func(pa *Path) (bool, string) {
			ci := eventIndex(pa, 0, func(e *Event) bool { return isCall(e, "Conn.Close") })
			if ci < 0 {
				return false, "Conn.Close is not called"
			}
			if c, ok := avInt(pa.Events[ci].Args[1]); !ok || c != 1000 {
				return false, "closes with " + argKey(pa.Events[ci], 1)
			}
			for i, e := range pa.Events {
				if e.Kind != "call" || i > ci {
					continue
				}
				if strings.Contains(e.Callee, "Cancel") || strings.Contains(e.Callee, "cancel") || strings.HasPrefix(e.Callee, "dynamic") {
					return false, e.Callee + " before the close handshake"
				}
				for _, a := range e.Args {
					if a != nil && (a.Key() == "netConn.readCancel" || a.Key() == "netConn.writeCancel") {
						return false, "a context is cancelled before the close handshake"
					}
				}
			}
			return true, ""
		})
	}
	if fn := p.Func("netConn.Write"); fn != nil {
		p.forAllPaths(r, "C18.write", fn, "one message per Write", Opts{}, "netConn.Write holds writeMu, fails with a deadline error when the expired flag is set (without writing), else issues exactly one c.Write(writeCtx, msgType, p) and returns len(p) on success / (0, err) on failure", func(pa *Path) (bool, string) {
			li := eventIndex(pa, 0, func(e *Event) bool { return isCall(e, "mu.forceLock") && argKey(e, 0) == "netConn.writeMu" })
			ws := pa.Calls("Conn.Write")
			exp, known := decidedLike(pa, "call:atomic.LoadInt64@@ == 1")
			if li < 0 || !known {
				return false, "lock / expired flag not consulted"
			}
			if exp {
				if len(ws) > 0 || retErr(pa) != "nonnil" {
					return false, "expired deadline does not fail the write"
				}
				return true, ""
			}
			if len(ws) != 1 || argKey(ws[0], 1) != "netConn.writeCtx" || argKey(ws[0], 2) != "netConn.msgType" || argKey(ws[0], 3) != "param:p" {
				return false, "not exactly one c.Write(writeCtx, msgType, p)"
			}
			ok, k := decidedLike(pa, "call:Conn.Write@@ == nil")
			if !k {
				return false, "write error not tested"
			}
			if ok && pa.Ret[0].Key() != "len(param:p)" {
				return false, "success returns " + pa.Ret[0].Key()
			}
			if !ok && (pa.Ret[0].Key() != "0" || pa.Ret[1].Key() != ws[0].Res.Key()) {
				return false, "failure returns " + pa.Ret[0].Key() + ", " + pa.Ret[1].Key()
			}
			return true, ""
		})
	}
	if fn := p.Func("NetConn"); fn != nil {
		p.forAllPaths(r, "C18.limit", fn, "unlimited reads; cancellable contexts; timers", Opts{}, "NetConn calls SetReadLimit(-1), derives readCtx/writeCtx by context.WithCancel(ctx), and creates both timers stopped", func(pa *Path) (bool, string) {
			sl := pa.Calls("Conn.SetReadLimit")
			if len(sl) != 1 || argKey(sl[0], 1) != "-1" {
				return false, "SetReadLimit(-1) missing"
			}
			wc := pa.Calls("context.WithCancel")
			if len(wc) != 2 || argKey(wc[0], 0) != "param:ctx" || argKey(wc[1], 0) != "param:ctx" {
				return false, "contexts not derived from ctx"
			}
			if len(pa.Calls("time.AfterFunc")) != 2 || len(pa.Calls("(*time.Timer).Stop")) != 2 {
				return false, "timers not created stopped"
			}
			return true, ""
		})
	}
	for _, s := range []struct{ fn, mu, cancel, flag string }{{"NetConn$1", "netConn.writeMu", "netConn.writeCancel", "&netConn.writeExpired"}, {"NetConn$2", "netConn.readMu", "netConn.readCancel", "&netConn.readExpired"}} {
		fn := p.Func(s.fn)
		if fn == nil {
			continue
		}
		s := s
		p.forAllPaths(r, "C18.deadline", fn, "timer callback", Opts{}, "deadline timer: tryLock("+s.mu+") failed ↦ an operation is active: cancel its context and nothing else; succeeded ↦ the connection is idle: atomic store expired=1 under the lock, release, no cancel", func(pa *Path) (bool, string) {
			return expireDecision(pa, s.mu, s.cancel, s.flag)
		})
	}
	for _, s := range []struct{ fn, flag, timer, mu, cancel string }{{"netConn.SetWriteDeadline", "&netConn.writeExpired", "netConn.writeTimer", "netConn.writeMu", "netConn.writeCancel"}, {"netConn.SetReadDeadline", "&netConn.readExpired", "netConn.readTimer", "netConn.readMu", "netConn.readCancel"}} {
		fn := p.Func(s.fn)
		if fn == nil {
			continue
		}
		s := s
		p.forAllPaths(r, "C18.deadline", fn, "set deadline", Opts{}, s.fn+" clears the expired flag, then stops the timer for the zero time; for a time that has already passed it stops the timer and expires at once (tryLock failed ↦ cancel the active call; succeeded ↦ store expired=1, release) instead of racing a timer against the caller's next call; otherwise it resets the timer to time.Until(t)", func(pa *Path) (bool, string) {
			si := eventIndex(pa, 0, func(e *Event) bool { return isCall(e, "atomic.StoreInt64") && argKey(e, 0) == s.flag && argKey(e, 1) == "0" })
			if si < 0 {
				return false, "expired flag not cleared"
			}
			zero := false
			zk := false
			for _, d := range pa.Decisions {
				if strings.HasPrefix(d.Key, "call:(time.Time).IsZero@") {
					zero, zk = d.Val, true
				}
			}
			if !zk {
				return false, "zero time not tested"
			}
			st := pa.Calls("(*time.Timer).Stop")
			rs := pa.Calls("(*time.Timer).Reset")
			if zero {
				if len(st) != 1 || argKey(st[0], 0) != s.timer || len(rs) != 0 {
					return false, "zero time does not stop the timer"
				}
				return true, ""
			}
			neg, known := decidedLike(pa, "call:time.Until@@ <= 0")
			if !known {
				neg2, k2 := decidedLike(pa, "call:time.Until@@ > 0")
				neg, known = !neg2, k2
			}
			if !known {
				return false, "a deadline that has already passed is not told from a future one"
			}
			if neg {
				// F20: a timer armed for a passed deadline fires after the caller's next call has taken the lock and kills the connection.
				if len(rs) != 0 {
					return false, "a deadline that has already passed is armed as a timer (" + argKey(rs[0], 1) + "): the callback races the caller's next call, finds it active and closes the connection"
				}
				if len(st) != 1 || argKey(st[0], 0) != s.timer {
					return false, "a deadline that has already passed does not stop the pending timer"
				}
				if ok, why := expireDecision(pa, s.mu, s.cancel, s.flag); !ok {
					return false, "passed deadline: " + why
				}
				sti := eventIndex(pa, 0, func(e *Event) bool { return isCall(e, "(*time.Timer).Stop") })
				xi := eventIndex(pa, 0, func(e *Event) bool { return isCall(e, "atomic.StoreInt64") && argKey(e, 0) == s.flag && argKey(e, 1) == "1" })
				if xi >= 0 && (xi < si || xi < sti) {
					return false, "expired flag set before it was cleared / before the old timer was stopped"
				}
				return true, ""
			}
			if len(rs) != 1 || argKey(rs[0], 0) != s.timer || len(st) != 0 {
				return false, "future time does not reset the timer"
			}
			if !keyIs(rs[0].Args[1], "call:time.Until@@") {
				return false, "timer reset to " + argKey(rs[0], 1)
			}
			if n := len(pa.Calls("mu.tryLock")); n != 0 {
				return false, "future deadline expires at once"
			}
			// flag cleared before the timer is re-armed
			ri := eventIndex(pa, 0, func(e *Event) bool { return isCall(e, "(*time.Timer).Reset") })
			if ri < si {
				return false, "timer re-armed before the flag is cleared"
			}
			return true, ""
		})
	}
	if f := p.Field("netConn.reader"); f != nil {
		for _, fa := range p.FieldAccesses(f) {
			if fa.Write || fa.Addr {
				fname := p.FuncName(fa.Fn)
				r.Check("C18.msgend", fname, "store netConn.reader", p.InstrPos(fa.Instr), fname == "netConn.read", "the current message reader is installed and dropped only by netConn.read (dropped only at the message's io.EOF): an error such as an idle deadline leaves a partly read message in place", fname)
			}
		}
	}
	if fn := p.Func("netConn.SetDeadline"); fn != nil {
		p.forAllPaths(r, "C18.deadline", fn, "SetDeadline sets both", Opts{}, "SetDeadline(t) calls SetWriteDeadline(t) and SetReadDeadline(t)", func(pa *Path) (bool, string) {
			w, rd := pa.Calls("netConn.SetWriteDeadline"), pa.Calls("netConn.SetReadDeadline")
			if len(w) != 1 || len(rd) != 1 || argKey(w[0], 1) != "param:t" || argKey(rd[0], 1) != "param:t" {
				return false, "does not forward t to both"
			}
			return true, ""
		})
	}
	c05guard(p, r, getLockEnv(p), "C18.guard", map[string]bool{"netConn.reader": true, "netConn.readEOFed": true})
}

// expireDecision is the decision a passed deadline takes (timer callback, or Set*Deadline with a time in the past):
// tryLock(mu) failed ↦ a call is active: cancel its context and nothing else; succeeded ↦ idle: store expired=1 under the lock, release, no cancel.
func expireDecision(pa *Path, mu, cancel, flag string) (bool, string) {
	tl := pa.Calls("mu.tryLock")
	if len(tl) != 1 || argKey(tl[0], 0) != mu {
		return false, "tryLock on " + func() string {
			if len(tl) > 0 {
				return argKey(tl[0], 0)
			}
			return "-"
		}()
	}
	got, known := pa.Decided(tl[0].Res.Key())
	if !known {
		return false, "tryLock result not tested"
	}
	cancels, stores, unlocks := 0, 0, 0
	for _, e := range pa.Events {
		if e.Kind == "call" && strings.HasPrefix(e.Callee, "dyn ") && strings.Contains(e.Callee, cancel) {
			cancels++
		}
		if isCall(e, "atomic.StoreInt64") && argKey(e, 0) == flag && argKey(e, 1) == "1" {
			stores++
		}
		if isCall(e, "mu.unlock") && argKey(e, 0) == mu {
			unlocks++
		}
	}
	if got {
		if cancels != 0 || stores != 1 || unlocks != 1 {
			return false, fmt.Sprintf("idle: cancels=%d stores=%d unlocks=%d", cancels, stores, unlocks)
		}
	} else if cancels != 1 || stores != 0 || unlocks != 0 {
		return false, fmt.Sprintf("active: cancels=%d stores=%d unlocks=%d", cancels, stores, unlocks)
	}
	return true, ""
}

// limitStores: the stores of the read limit, through the library's xsync.Int64 or a sync/atomic integer.
func limitStores(pa *Path) []*Event {
	out := append([]*Event{}, pa.Calls("xsync.Int64.Store")...)
	for _, e := range pa.Calls("atomic.StoreInt64") {
		if strings.HasSuffix(argKey(e, 0), ".limit") {
			out = append(out, e)
		}
	}
	return out
}

// wsjsonSink resolves the io.Writer handed to json.NewEncoder in wsjson.write: the closure (kind "closure") or the Write
// method of a library type (kind "method"). nil when it cannot be resolved.
func (p *Program) wsjsonSink() (*ssa.Function, string) {
	fn := p.FuncOpt("wsjson.write")
	if fn == nil {
		return nil, ""
	}
	for _, b := range p.blocksOf(fn) {
		for _, in := range b.Instrs {
			c, ok := in.(*ssa.Call)
			if !ok {
				continue
			}
			cal := c.Call.StaticCallee()
			if cal == nil || cal.Name() != "NewEncoder" || cal.Pkg == nil || cal.Pkg.Pkg.Path() != "encoding/json" || len(c.Call.Args) != 1 {
				continue
			}
			v := c.Call.Args[0]
			for {
				switch x := v.(type) {
				case *ssa.MakeInterface:
					v = x.X
					continue
				case *ssa.ChangeInterface:
					v = x.X
					continue
				case *ssa.ChangeType:
					v = x.X
					continue
				case *ssa.Convert:
					v = x.X
					continue
				}
				break
			}
			if mc, ok := v.(*ssa.MakeClosure); ok {
				return mc.Fn.(*ssa.Function), "closure"
			}
			t := v.Type()
			if _, isPtr := t.(*types.Pointer); !isPtr {
				if _, named := t.(*types.Named); !named {
					return nil, ""
				}
			}
			sel := p.SSA.MethodSets.MethodSet(t).Lookup(nil, "Write")
			if sel == nil {
				// unexported lookup needs the package; Write is exported, so nil means no such method
				return nil, ""
			}
			if m := p.SSA.MethodValue(sel); m != nil && p.isLib(m) && len(m.Blocks) > 0 {
				return m, "method"
			}
			return nil, ""
		}
	}
	return nil, ""
}

// ---- C19 -----------------------------------------------------------------------------------------------------------------------------

func runC19(p *Program, r *Report) {
	sink, sinkKind := p.wsjsonSink()
	if sink == nil {
		sink = p.Func("wsjson.write$1")
	}
	if fn := sink; fn != nil {
		// the writer the encoder writes into: the closure converted to util.WriterFunc, or the Write method of a named type
		// constructed in wsjson.write from its ctx and c
		pname, connK, ctxK := "param:p", "FV:c", "FV:ctx"
		if sinkKind == "method" {
			recv := ""
			if len(fn.Params) > 0 {
				recv = paramName(fn.Params[0])
			}
			for _, x := range fn.Params[1:] {
				if _, ok := x.Type().Underlying().(*types.Slice); ok {
					pname = "param:" + paramName(x)
				}
			}
			connK, ctxK = "recv:"+recv, "recv:"+recv
		}
		fromRecv := func(k, want string) bool {
			if !strings.HasPrefix(want, "recv:") {
				return k == want
			}
			rv := strings.TrimPrefix(want, "recv:")
			// a field of the receiver: value receiver "param:w.f", pointer receiver "<Type>.f"
			return strings.HasPrefix(k, "param:"+rv+".") || (strings.Contains(k, ".") && !strings.Contains(k, "call:") && !strings.HasPrefix(k, "param:") && !strings.HasPrefix(k, "FV:"))
		}
		p.forAllPaths(r, "C19.write", fn, "one text message per encoder write", Opts{}, "the encoder's writer issues c.Write(ctx, MessageText, p) with its own p and returns (len(p), nil) on success, (0, err) on failure", func(pa *Path) (bool, string) {
			ws := pa.Calls("Conn.Write")
			if len(ws) != 1 || !fromRecv(argKey(ws[0], 1), ctxK) || argKey(ws[0], 2) != "1" || argKey(ws[0], 3) != pname || !fromRecv(argKey(ws[0], 0), connK) {
				return false, "not exactly one c.Write(ctx, MessageText, p)"
			}
			ok, k := decidedLike(pa, "call:Conn.Write@@ == nil")
			if !k {
				return false, "error not tested"
			}
			if ok && (pa.Ret[0].Key() != "len("+pname+")" || pa.Ret[1].Key() != "nil") {
				return false, "success returns " + pa.Ret[0].Key()
			}
			if !ok && (pa.Ret[0].Key() != "0" || pa.Ret[1].Key() != ws[0].Res.Key()) {
				return false, "failure returns " + pa.Ret[0].Key() + "," + pa.Ret[1].Key()
			}
			return true, ""
		})
	}
	if fn := p.Func("wsjson.write"); fn != nil {
		p.forAllPaths(r, "C19.write", fn, "one Encode", Opts{}, "write performs exactly one json.NewEncoder(writer).Encode(v) over the writer built from its own ctx and c, and wraps its error with %w", func(pa *Path) (bool, string) {
			ne := pa.Calls("json.NewEncoder")
			en := pa.Calls("(*json.Encoder).Encode")
			if len(ne) != 1 || len(en) != 1 || argKey(en[0], 0) != ne[0].Res.Key() || argKey(en[0], 1) != "param:v" {
				return false, "not one Encode(v) on one encoder"
			}
			if _, ok := stripConvAll(ne[0].Args[0]).(*Closure); !ok {
				// a value of a named writer type: it must carry this call's ctx and c
				k := argKey(ne[0], 0)
				if sinkKind != "method" || !strings.Contains(k, "param:ctx") || !strings.Contains(k, "param:c") {
					return false, "encoder does not write into the closure: " + k
				}
			}
			ok, k := decidedLike(pa, "call:(*json.Encoder).Encode@@ == nil")
			if k && !ok && retErr(pa) != "nonnil" {
				return false, "encode error dropped"
			}
			if k && ok && retErr(pa) != "nil" {
				return false, "success returns an error"
			}
			return true, ""
		})
	}
	if fn := p.Func("wsjson.read"); fn != nil {
		p.forAllPaths(r, "C19.read", fn, "one message, 1007 on bad JSON", Opts{}, "read takes one c.Reader(ctx), reads it fully into the pooled buffer, returns a read error as is, unmarshals b.Bytes() into v; on failure closes with StatusInvalidFramePayloadData (1007) and returns an error wrapping the unmarshal error with %w; returns nil otherwise", func(pa *Path) (bool, string) {
			rd := pa.Calls("Conn.Reader")
			if len(rd) != 1 || argKey(rd[0], 1) != "param:ctx" {
				return false, "not one c.Reader(ctx)"
			}
			rok, _ := decidedLike(pa, "call:Conn.Reader@@#2 == nil")
			if !rok {
				if len(pa.Calls("bpool.Get")) > 0 {
					return false, "buffer taken although Reader failed"
				}
				return true, ""
			}
			rf := pa.Calls("(*bytes.Buffer).ReadFrom")
			if len(rf) != 1 || !keyIs(rf[0].Args[1], "call:Conn.Reader@@#1") {
				return false, "message not read with ReadFrom(r)"
			}
			fok, _ := decidedLike(pa, "call:(*bytes.Buffer).ReadFrom@@#1 == nil")
			um := pa.Calls("json.Unmarshal")
			if !fok {
				return true, "" // C04.adapters covers the early return
			}
			if len(um) != 1 || !keyIs(um[0].Args[0], "call:(*bytes.Buffer).Bytes@@") || argKey(um[0], 1) != "param:v" {
				return false, "Unmarshal(b.Bytes(), v) missing"
			}
			uok, uk := decidedLike(pa, "call:json.Unmarshal@@ == nil")
			cl := pa.Calls("Conn.Close")
			if !uk {
				return false, "unmarshal error not tested"
			}
			if uok {
				if len(cl) > 0 || retErr(pa) != "nil" {
					return false, "valid JSON closes / fails"
				}
				return true, ""
			}
			if len(cl) != 1 || argKey(cl[0], 1) != "1007" {
				return false, "invalid JSON does not close with 1007"
			}
			if reason, ok := avStr(cl[0].Args[2]); !ok || len(reason) > 123 {
				return false, "the close reason is not a constant of at most 123 bytes (Close sends nothing for a longer reason): " + argKey(cl[0], 2)
			}
			for _, e := range pa.Calls("fmt.Errorf") {
				if e.Res.Key() == pa.Ret[0].Key() {
					f, _ := avStr(e.Args[0])
					va := varargsOf(pa, e)
					if strings.Contains(f, "%w") && len(va) == 1 && va[0].Key() == um[0].Res.Key() {
						return true, ""
					}
				}
			}
			return false, "returned error does not wrap the unmarshal error with %w"
		})
	}
	cReasons(p, r, "C19.reasons")
	c07ws(p, r, "C19.alias")
	c07get(p, r, "C19.pool")
	cPoolClients(p, r, "C19.clients")
	if c, ok := p.member("StatusInvalidFramePayloadData").(*ssa.NamedConst); ok {
		v, _ := constInt64(c.Value.Value)
		r.Exists("C19.read", "close.go", "StatusInvalidFramePayloadData", "-", v == 1007, "StatusInvalidFramePayloadData = 1007", fmt.Sprint(v))
	}
	if c, ok := p.member("MessageText").(*ssa.NamedConst); ok {
		v, _ := constInt64(c.Value.Value)
		r.Exists("C19.write", "conn.go", "MessageText", "-", v == 1, "MessageText = 1 (opText)", fmt.Sprint(v))
	}
}

var _ = token.ADD
