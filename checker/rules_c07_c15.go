package main

import (
	"fmt"
	"go/types"
	"strings"

	"golang.org/x/tools/go/ssa"
)

func init() {
	register("C07", propInfo{
		Explanation: "Decided: pool discipline as ownership/alias/reachability rules. Every pool-hit path resets the object to its new source before handing it out; every return to a pool clears (truncates) the object and every field that may still alias it before the guarding lock is released — or happens under a terminal acquisition; no release of a reader-side (writer-side) pooled object is synchronously reachable from the function that runs underneath the decompressor (compressor); pooled objects are accessed only under the read/write locks; nothing taken from a pool escapes to the API caller.",
		Decides: []string{
			"C07.get on bpool: nothing writes or refills the buffer between its Reset and the Put; Get returns the pooled object or an empty new buffer",
			"C07.unmask / C04.count (shared): the count handed to the decompressor and its pooled bufio reader is the transport's count",
			"C07.mu: the channel lock itself (C06.recheck = C05.recheck = C07.mu = C09.mu): mu.lock returns nil only holding the lock and after re-polling closed, returns an error only without it, and never releases a lock this call did not acquire; forceLock is one blocking send, unlock at most one receive, tryLock true exactly when its non-blocking send was taken, and nothing else",
			"C07.get: getFlateReader/getFlateWriter/getBufioReader/getBufioWriter Reset the pooled object with the new source/dictionary on the hit path and construct a fresh one on the miss path; bpool.Put resets; slidingWindow.close truncates to [:0] before Put; slidingWindow.init takes a window only when it has none",
			"C07.alias: where an owner field's object is returned to a pool outside a terminal acquisition, the owner field and every field that was ever assigned from it are overwritten in the same function before it returns",
			"C07.live: msgReader.read (running underneath flate/bufio) cannot synchronously reach a release of reader-side pooled objects; msgWriter.write cannot reach a release of writer-side ones",
			"C07.guard: the pooled-object fields are accessed only under readMu / writeFrameMu / writeMu (teardown acquires them with forceLock first)",
			"C07.escape / C07.ws: wsjson.read defers bpool.Put right after Get and passes b.Bytes() only to json.Unmarshal; Reader/Writer return the per-connection reader/writer objects",
			"C07.funnel: callback fields hold only the known library callbacks",
			"C07.clients: the clients of every pool getter (flate reader/writer, bufio reader/writer, bpool, sliding windows) and the inventory of process-wide pools are frozen: isolation is decided per client",
		},
		NotDecided: []string{"byte provenance under real races", "completeness of the standard library's Reset methods (trusted)"},
		Trusted:    []string{"go/types, go/ssa", "sync.Pool, flate/bufio Reset contracts", "E2 lock analysis, E6 call graph"},
	}, runC07)
	register("C15", propInfo{
		Explanation: "Decided: the registration/notification protocol of Ping and the echo of received pings, as path rules on the SSA: the pong channel is registered under the mutex before the ping frame is written and removed afterwards; it is buffered and notified without blocking; Ping returns nil only on a receive from its own channel; the pong is the very payload read, sent synchronously; unmatched pongs touch nothing; ping payloads are distinct per call.",
		Decides: []string{
			"C15.disarm (= C10.disarm): handling a control frame leaves the timeout watcher disarmed",
			"C15.reg: activePings[p] = pong (under activePingsMu) precedes writeControl(ctx, opPing, []byte(p)) with the same p; a deferred delete under the mutex follows",
			"C15.chan: the channel is make(chan struct{}, K) with constant K ≥ 1; the notifier is a select with default",
			"C15.ret: ping returns nil only after receiving from its own pong channel; closed ↦ net.ErrClosed; ctx.Done ↦ error wrapping ctx.Err() with %w",
			"C15.echo: the pong is writeControl(ctx, opPong, b) with b the slice filled by readFramePayload (and unmasked); no go statement on the path",
			"C15.match: the pong branch looks up string(b) under the mutex; a miss returns nil without touching any channel",
			"C15.unique: Ping's payload is strconv.Itoa of the result of atomic.AddInt32 on pingCounter",
			"C15.after-close: ping/pong frames are not refused by the close-sent guard (C16.guard table)",
		},
		NotDecided: []string{"timing", "counter wrap-around after 2^32 pings"},
		Trusted:    []string{"go/types, go/ssa", "sync/atomic, channel semantics"},
	}, runC15)
}

func runC07(p *Program, r *Report) {
	c07get(p, r, "C07.get")
	c07alias(p, r, "C07.alias")
	c07live(p, r, "C07.live")
	env := getLockEnv(p)
	c05guard(p, r, env, "C07.guard", map[string]bool{"msgReader.flateReader": true, "msgReader.flateBufio": true, "msgReader.dict": true, "limitReader.r": true,
		"Conn.br": true, "Conn.bw": true, "msgWriter.flateWriter": true, "msgReader.flateTail": true})
	c07ws(p, r, "C07.ws")
	c07funnel(p, r, "C07.funnel")
	c05pair(p, r, env, "C07.pair")
	cPoolClients(p, r, "C07.clients")
	// the channel lock itself: a lock that lets a refused caller release it voids every "held" fact above (seed C07-M)
	shareAs(r, "C06.recheck", "C07.mu", func(sub *Report) { c06closed(p, sub, "C07.closedpoll") })
	// the decompressor and its pooled bufio reader are told exactly the transport's count (seed C07-N)
	c04unmask(p, r, "C07.unmask")
}

// isPoolRef: the address of the package-level pool variable, or of the sync.Pool inside a typed wrapper around it.
func isPoolRef(key, pool string) bool {
	i := strings.Index(key, "."+pool)
	if i < 0 {
		return false
	}
	rest := key[i+len(pool)+1:]
	return rest == "" || (strings.HasPrefix(rest, ".") && !strings.ContainsAny(rest[1:], ".()[] "))
}

func c07get(p *Program, r *Report, rule string) {
	type getter struct {
		fn, pool, reset, fresh string
		resetArgs            []string // expected args after the receiver
	}
	for _, g := range []getter{
		{"getFlateReader", "flateReaderPool", "invoke flate.Resetter.Reset", "flate.NewReaderDict", []string{"param:r", "param:dict"}},
		{"getFlateWriter", "flateWriterPool", "(*flate.Writer).Reset", "flate.NewWriter", []string{"param:w"}},
		{"getBufioReader", "bufioReaderPool", "(*bufio.Reader).Reset", "bufio.NewReader", []string{"param:r"}},
		{"getBufioWriter", "bufioWriterPool", "(*bufio.Writer).Reset", "bufio.NewWriter", []string{"param:w"}},
	} {
		fn := p.Func(g.fn)
		if fn == nil {
			continue
		}
		g := g
		p.forAllPaths(r, rule, fn, "reset on hit, fresh on miss", Opts{}, g.fn+": an object taken from "+g.pool+" is Reset with the new source before it is returned; on a miss a fresh one is built from the same arguments", func(pa *Path) (bool, string) {
			if pa.End != "return" {
				return true, ""
			}
			get := pa.Calls("(*sync.Pool).Get")
			if len(get) != 1 || !isPoolRef(argKey(get[0], 0), g.pool) {
				return false, "does not take from " + g.pool + " (" + func() string {
					if len(get) == 1 {
						return argKey(get[0], 0)
					}
					return fmt.Sprint(len(get)) + " Get calls"
				}() + ")"
			}
			hit, known := decidedLike(pa, "assertok:@@("+get[0].Res.Key()+")")
			if !known {
				for _, d := range pa.Decisions {
					if strings.HasPrefix(d.Key, "assertok:") {
						hit, known = d.Val, true
					}
				}
			}
			if !known {
				return false, "pool result not type-tested"
			}
			ret := pa.Ret[0].Key()
			if hit {
				rs := pa.Calls(g.reset)
				if len(rs) != 1 {
					return false, "pooled object returned without " + g.reset
				}
				if !strings.Contains(argKey(rs[0], 0), get[0].Res.Key()) || !strings.Contains(ret, get[0].Res.Key()) {
					return false, "Reset / return of another object"
				}
				for i, want := range g.resetArgs {
					if argKey(rs[0], i+1) != want {
						return false, fmt.Sprintf("Reset argument %d is %s, want %s", i+1, argKey(rs[0], i+1), want)
					}
				}
				return true, ""
			}
			fr := pa.Calls(g.fresh)
			if len(fr) != 1 || !strings.HasPrefix(ret, fr[0].Res.Key()) {
				return false, "miss path does not return a fresh object"
			}
			for i, want := range g.resetArgs {
				if argKey(fr[0], i) != want {
					return false, "fresh object built from " + argKey(fr[0], i)
				}
			}
			return true, ""
		})
	}
	if fn := p.Func("bpool.Put"); fn != nil {
		p.forAllPaths(r, rule, fn, "Reset before Put", Opts{}, "bpool.Put resets the buffer before returning it to the pool", func(pa *Path) (bool, string) {
			ri := eventIndex(pa, 0, func(e *Event) bool { return isCall(e, "(*bytes.Buffer).Reset") && argKey(e, 0) == "param:b" })
			pi := eventIndex(pa, 0, func(e *Event) bool { return isCall(e, "(*sync.Pool).Put") })
			if ri < 0 || pi < 0 || ri > pi || argKey(pa.Events[pi], 1) != "param:b" {
				return false, "no Reset before Put"
			}
			// nothing refills or replaces the buffer between the Reset and the Put: the next taker relies on Len() == 0
			for _, e := range pa.Events[ri+1 : pi] {
				switch e.Kind {
				case "store":
					if strings.Contains(e.AddrK, "param:b") || strings.HasPrefix(e.AddrK, "Buffer.") || strings.HasPrefix(e.AddrK, "bytes.Buffer") {
						return false, "the buffer is written after its Reset (" + e.AddrK + " = " + keyOf(e.Val) + ")"
					}
				case "call":
					if e.Callee == "(*bytes.Buffer).Cap" || e.Callee == "(*bytes.Buffer).Len" {
						continue
					}
					for i := range e.Args {
						if argKey(e, i) == "param:b" {
							return false, e.Callee + " on the buffer after its Reset"
						}
					}
				}
			}
			return true, ""
		})
	}
	if fn := p.Func("bpool.Get"); fn != nil {
		p.forAllPaths(r, rule, fn, "pooled or empty", Opts{}, "bpool.Get returns the buffer taken from the pool (Put has reset it) or, on a miss, a new empty bytes.Buffer", func(pa *Path) (bool, string) {
			if pa.End != "return" {
				return true, ""
			}
			get := pa.Calls("(*sync.Pool).Get")
			if len(get) != 1 {
				return false, "does not take from the pool exactly once"
			}
			ret := stripConvAll(pa.Ret[0])
			if strings.Contains(ret.Key(), get[0].Res.Key()) {
				return true, ""
			}
			if ad, ok := ret.(*Addr); ok && isLocalAllocKey(ad.K) {
				for _, e := range pa.Events {
					if e.Kind == "store" && strings.HasPrefix(e.AddrK, ad.K) {
						return false, "the fresh buffer is not empty: " + e.AddrK + " = " + keyOf(e.Val)
					}
				}
				return true, ""
			}
			if nb := pa.Calls("bytes.NewBuffer"); len(nb) == 1 && ret.Key() == nb[0].Res.Key() {
				if c, ok := nb[0].Args[0].(*Const); ok && c.IsNil {
					return true, ""
				}
				if sl, ok := stripConvAll(nb[0].Args[0]).(*Expr); ok && sl.Op == "makeslice" && len(sl.Args) >= 1 {
					if n, ok := avInt(sl.Args[0]); ok && n == 0 {
						return true, ""
					}
				}
				return false, "fresh buffer built over " + argKey(nb[0], 0)
			}
			return false, "returns " + ret.Key()
		})
	}
	if fn := p.Func("slidingWindow.close"); fn != nil {
		p.forAllPaths(r, rule, fn, "truncate before Put", Opts{}, "slidingWindow.close truncates the window to length 0 before it goes back to the pool (the next connection must not inherit this connection's plaintext as its dictionary)", func(pa *Path) (bool, string) {
			si := eventIndex(pa, 0, func(e *Event) bool {
				return e.Kind == "store" && e.AddrK == "slidingWindow.buf" && keyIs(e.Val, "slice(slidingWindow.buf,_,0,_)")
			})
			pi := eventIndex(pa, 0, func(e *Event) bool { return isCall(e, "(*sync.Pool).Put") })
			if pi < 0 {
				return true, ""
			}
			if si < 0 || si > pi {
				return false, "window returned to the pool without truncation"
			}
			if argKey(pa.Events[pi], 1) != "param:sw" {
				return false, "puts " + argKey(pa.Events[pi], 1)
			}
			return true, ""
		})
	}
	if fn := p.Func("slidingWindow.init"); fn != nil {
		p.forAllPaths(r, rule, fn, "take a window only when empty", Opts{}, "slidingWindow.init takes a pooled window (or allocates one of length 0) only when it holds none", func(pa *Path) (bool, string) {
			has, known := decidedLike(pa, "slidingWindow.buf == nil")
			if !known {
				return false, "buf not tested"
			}
			took := len(pa.Calls("(*sync.Pool).Get")) > 0
			if !has && took {
				return false, "takes a second window"
			}
			for _, e := range pa.Events {
				if e.Kind == "store" && e.AddrK == "slidingWindow.buf" {
					if ms, ok := e.Val.(*Expr); !ok || ms.Op != "makeslice" || argKeyAV(ms.Args, 0) != "0" {
						return false, "fresh window not of length 0: " + e.Val.Key()
					}
				}
			}
			return true, ""
		})
	}
	// who calls the pool Put functions
	inlined := 0
	_ = inlined
	for callee, allowed := range map[string][]string{
		"putFlateReader": {"msgReader.putFlateReader"}, "putFlateWriter": {"msgWriter.putFlateWriter"},
		"putBufioReader": {"msgReader.close"}, "putBufioWriter": {"msgWriter.close"}, "slidingWindow.close": {"msgReader.close"},
	} {
		fn := p.FuncCallee(callee)
		if fn == nil {
			if p.absorbed[callee] != nil {
				inlined++
				r.Exists(rule+".callers", allowed[0], callee+" (inlined)", p.FuncPos(p.absorbed[callee]), true, callee+" is called only from "+strings.Join(allowed, ", "), "inlined into its only caller")
			}
			continue
		}
		for _, cs := range p.CallersOf(fn) {
			ok := false
			for _, a := range allowed {
				if p.FuncName(cs.Fn) == a {
					ok = true
				}
			}
			r.Exists(rule+".callers", p.FuncName(cs.Fn), callee, p.InstrPos(cs.Instr), ok, callee+" is called only from "+strings.Join(allowed, ", "), p.FuncName(cs.Fn))
		}
	}
	r.Floor(rule+".callers", 5)
}

func argKeyAV(a []AV, i int) string {
	if i < len(a) && a[i] != nil {
		return a[i].Key()
	}
	return ""
}

// c07alias: owner field + aliases cleared at non-terminal puts.
func c07alias(p *Program, r *Report, rule string) {
	la := getLockEnv(p).la
	type own struct{ field, put, lock string }
	owners := []own{
		{"msgReader.flateReader", "putFlateReader", "Conn.readMu"},
		{"msgReader.flateBufio", "putBufioReader", "Conn.readMu"},
		{"msgWriter.flateWriter", "putFlateWriter", "msgWriter.writeMu"},
		{"msgReader.dict", "slidingWindow.close", "Conn.readMu"},
		{"Conn.br", "putBufioReader", "Conn.readMu"},
		{"Conn.bw", "putBufioWriter", "Conn.writeFrameMu"},
	}
	for _, o := range owners {
		of := p.Field(o.field)
		if of == nil {
			continue
		}
		// alias fields: every field that is assigned a value loaded from the owner field
		aliases := map[string]bool{}
		for _, fn := range p.Funcs {
			for _, b := range fn.Blocks {
				for _, in := range b.Instrs {
					st, ok := in.(*ssa.Store)
					if !ok {
						continue
					}
					fa, ok := st.Addr.(*ssa.FieldAddr)
					if !ok {
						continue
					}
					v := st.Val
					for {
						if mi, ok := v.(*ssa.MakeInterface); ok {
							v = mi.X
							continue
						}
						if ci, ok := v.(*ssa.ChangeInterface); ok {
							v = ci.X
							continue
						}
						break
					}
					if derivesFromField(v, of) && fieldOf(fa) != of {
						aliases[typeShort(fa.X.Type())+"."+fieldName(fieldOf(fa))] = true
					}
				}
			}
		}
		// put sites whose argument derives from the owner
		for _, cs := range p.CallSites() {
			if cs.Name != o.put {
				continue
			}
			args := cs.Instr.Common().Args
			if len(args) == 0 || !derivesFromField(args[0], of) {
				continue
			}
			fn := cs.Fn
			fname := p.FuncName(fn)
			r.UseFunc(fname)
			// terminal: the function acquires the lock by forceLock and never releases it
			terminal := false
			for _, b := range p.blocksOf(fn) {
				for _, in := range b.Instrs {
					if c, ok := in.(*ssa.Call); ok {
						if f, ok := c.Call.Value.(*ssa.Function); ok && p.anyFuncName(f) == "mu.forceLock" && la.lockKey(c.Call.Args[0]) == o.lock {
							terminal = true
						}
					}
				}
			}
			released := false
			for _, op := range la.releases {
				if p.FuncName(op.Fn) == p.FuncName(fn) && op.Lock == o.lock {
					released = true
				}
			}
			if h := la.HeldAt(cs.Instr); terminal && !released && h != topLocks && la.Has(h, o.lock) {
				r.Check(rule, fname, "put "+o.field+" (terminal)", p.InstrPos(cs.Instr), true, "the object is returned to the pool under a terminal acquisition of "+o.lock+" (never released again): every alias is unreachable by C05.guard", "terminal forceLock in "+fname)
				continue
			}
			need := []string{o.field}
			for a := range aliases {
				need = append(need, a)
			}
			p.forAllPaths(r, rule, fn, "put "+o.field+": owner and aliases cleared", Opts{},
				"when "+o.field+"'s object goes back to the pool outside a terminal acquisition, "+strings.Join(need, ", ")+" are overwritten with something else in the same function (a stale alias would read or write an object that another connection may own by then)",
				func(pa *Path) (bool, string) {
					pi := eventIndex(pa, 0, func(e *Event) bool { return isCall(e, o.put) && argKey(e, 0) == o.field })
					if pi < 0 {
						return true, ""
					}
					for _, f := range need {
						ok := false
						for _, e := range pa.Events {
							if e.Kind == "store" && e.AddrK == f && !mentionsKey(e.Val, o.field) {
								ok = true
							}
						}
						if !ok {
							return false, f + " still refers to the pooled object after " + o.put
						}
					}
					return true, ""
				})
		}
	}
	r.Floor(rule, 4)
}

func c07live(p *Program, r *Report, rule string) {
	cg := getLockEnv(p).cg
	if us := unresolvedDynamic(p); len(us) > 0 {
		r.Undecide("%s: dynamic call sites not in the dispatch table (call graph incomplete): %v", rule, us)
	}
	for _, s := range []struct {
		under string
		puts  []string
		what  string
	}{
		{"msgReader.read", []string{"putFlateReader", "putBufioReader", "slidingWindow.close"}, "reader-side pooled objects (flate reader, bufio readers, sliding window)"},
		{"msgWriter.write", []string{"putFlateWriter", "putBufioWriter"}, "writer-side pooled objects (flate writer, bufio writer)"},
	} {
		from := p.Func(s.under)
		if from == nil {
			continue
		}
		set := map[*ssa.Function]bool{}
		for _, n := range s.puts {
			if f := p.Func(n); f != nil {
				set[f] = true
			}
		}
		path := cg.Reach(from, func(f *ssa.Function) bool { return set[f] }, nil)
		detail := "no synchronous path from " + s.under + " to a release"
		if path != nil {
			detail = cg.PathString(path)
		}
		r.Check(rule, s.under, "no release underneath the (de)compressor", p.FuncPos(from), path == nil,
			s.under+" executes underneath the flate/bufio objects' own methods; it must not synchronously reach a release of "+s.what+" (they would be pooled, and possibly handed to another connection, while still on this call stack)", detail)
	}
}

func c07ws(p *Program, r *Report, rule string) {
	fn := p.Func("wsjson.read")
	if fn == nil {
		return
	}
	p.forAllPaths(r, rule, fn, "pooled buffer does not escape", Opts{}, "wsjson.read defers bpool.Put(b) immediately after bpool.Get and b.Bytes() flows only into json.Unmarshal", func(pa *Path) (bool, string) {
		gi := eventIndex(pa, 0, func(e *Event) bool { return isCall(e, "bpool.Get") })
		if gi < 0 {
			return true, ""
		}
		b := pa.Events[gi].Res.Key()
		// next event must be the defer of Put(b)
		if gi+1 >= len(pa.Events) || pa.Events[gi+1].Kind != "defer" || pa.Events[gi+1].Callee != "bpool.Put" || argKey(pa.Events[gi+1], 0) != b {
			return false, "bpool.Put(b) is not deferred right after Get"
		}
		nPut := 0
		for _, e := range pa.Events {
			if e.Kind == "call" && e.Callee == "bpool.Put" {
				nPut++
			}
		}
		if nPut != 1 {
			return false, fmt.Sprintf("the buffer is returned to the pool %d times on this path (a double Put hands the same buffer to two readers)", nPut)
		}
		for _, e := range pa.Events {
			if e.Kind != "call" && e.Kind != "store" && e.Kind != "return" {
				continue
			}
			uses := false
			isBytes := func(a AV) bool {
				for a != nil {
					if keyIs(a, "call:(*bytes.Buffer).Bytes@@") {
						return true
					}
					x, ok := a.(*Expr)
					if !ok || !(x.Op == "slice" || x.Op == "convert") || len(x.Args) == 0 {
						return false
					}
					a = x.Args[0]
				}
				return false
			}
			for _, a := range e.Args {
				if isBytes(a) {
					uses = true
				}
			}
			if isBytes(e.Val) {
				uses = true
			}
			if uses && !(e.Kind == "call" && e.Callee == "json.Unmarshal") {
				return false, "b.Bytes() flows into " + e.Kind + " " + e.Callee
			}
		}
		return true, ""
	})
	// Reader / Writer return the per-connection objects
	if fn := p.Func("Conn.reader"); fn != nil {
		p.forAllPaths(r, rule+".reader", fn, "returns the connection's own reader", Opts{}, "reader() returns a handle created by this call whose only reader is c.msgReader (never a pooled object, never the shared reader itself: F37)", func(pa *Path) (bool, string) {
			if pa.End != "return" || retErr(pa) != "nil" {
				return true, ""
			}
			k := stripConvAll(pa.Ret[1]).Key()
			if k == "Conn.msgReader" {
				return false, "returns the shared Conn.msgReader: the handle of a finished message would lock under that message's context and read the next message's bytes"
			}
			base := strings.TrimPrefix(k, "&")
			if isLocalAllocKey(base) {
				for _, e := range pa.Events {
					if e.Kind == "store" && strings.HasPrefix(e.AddrK, base+".") && e.Val.Key() == "Conn.msgReader" {
						return true, ""
					}
				}
			}
			return false, "returns " + k
		})
	}
	cReaderHandle(p, r, rule+".reader.handle")
	if fn := p.Func("Conn.writer"); fn != nil {
		p.forAllPaths(r, rule+".writer", fn, "returns the connection's own writer", Opts{}, "writer() returns c.msgWriter, directly or through a handle created by this call whose only writer is c.msgWriter (never a pooled object)", func(pa *Path) (bool, string) {
			if pa.End != "return" || retErr(pa) != "nil" {
				return true, ""
			}
			k := stripConvAll(pa.Ret[0]).Key()
			if k == "Conn.msgWriter" {
				return true, ""
			}
			// a fresh handle: a local allocation one of whose fields was stored c.msgWriter, and no pooled object
			base := strings.TrimPrefix(k, "&")
			if isLocalAllocKey(base) {
				for _, e := range pa.Events {
					if e.Kind == "store" && strings.HasPrefix(e.AddrK, base+".") && e.Val.Key() == "Conn.msgWriter" {
						return true, ""
					}
				}
			}
			return false, "returns " + k
		})
	}
}

// cReaderHandle: what Reader hands out reports the end of its message once and for all: after io.EOF it never calls the
// shared message reader again (which would wait for the read lock under the finished message's context and return bytes
// of the next message); before that it forwards exactly once per call and marks the end only on the identity io.EOF.
func cReaderHandle(p *Program, r *Report, rule string) {
	fn := p.FuncOpt("msgReaderHandle.Read")
	if fn == nil {
		r.Check(rule, "msgReaderHandle.Read", "per-call reader handle", "-", false, "Reader returns a per-call handle with its own end-of-message state", "no msgReaderHandle.Read")
		return
	}
	p.runTable(r, tableSpec{
		Rule: rule, Fn: fn, Atoms: []Atom{boolAtom("msgReaderHandle.eof")},
		Classify: func(v Valuation, pa *Path) string {
			if pa.End != "return" {
				return pa.End
			}
			fw := pa.Calls("msgReader.Read")
			if len(fw) == 0 {
				if z, ok := avInt(pa.Ret[0]); ok && z == 0 && pa.Ret[1].Key() == "G:io.EOF" {
					return "EOF-WITHOUT-FORWARDING"
				}
				return "NOT-FORWARDED " + pa.Ret[0].Key() + "," + pa.Ret[1].Key()
			}
			// to its own reader, under its own context, for its own message, with the caller's buffer
			if len(fw) != 1 || len(fw[0].Args) != 4 || argKey(fw[0], 0) != "msgReaderHandle.mr" || argKey(fw[0], 1) != "msgReaderHandle.ctx" || argKey(fw[0], 2) != "msgReaderHandle.gen" || argKey(fw[0], 3) != "param:p" {
				return "FORWARDED-ELSEWHERE"
			}
			if !keyIs(pa.Ret[0], "call:msgReader.Read@@#0") || !keyIs(pa.Ret[1], "call:msgReader.Read@@#1") {
				return "RESULT-CHANGED"
			}
			set := false
			for _, e := range pa.Events {
				if e.Kind == "store" && e.AddrK == "msgReaderHandle.eof" {
					if b, ok := avBool(e.Val); !ok || !b {
						return "CLEARS-EOF"
					}
					set = true
				}
			}
			isEOF, known := decidedRel(pa, "call:msgReader.Read@@#1", "==", "G:io.EOF")
			if !known {
				return "NO-IDENTITY-TEST"
			}
			if set != isEOF {
				return fmt.Sprintf("MARK=%v-ON-EOF=%v", set, isEOF)
			}
			return "FORWARDED"
		},
		Oracle: func(v Valuation) []string {
			if v.Bool("msgReaderHandle.eof") {
				return []string{"EOF-WITHOUT-FORWARDING"}
			}
			return []string{"FORWARDED"}
		},
		What: "a handle that has reported io.EOF returns (0, io.EOF) without touching the shared reader; one that has not forwards once to its msgReader with its own context, its own generation and the caller's buffer, returns the results unchanged and marks the end exactly when the error is io.EOF",
	})
	if f := p.FieldOpt("msgReaderHandle.eof"); f != nil {
		for _, fa := range p.FieldAccesses(f) {
			if fa.Write || fa.Addr {
				fname := p.FuncName(fa.Fn)
				r.Check(rule, fname, "store msgReaderHandle.eof", p.InstrPos(fa.Instr), fname == "msgReaderHandle.Read", "the end-of-message mark of a reader handle is written only by its Read", fname)
			}
		}
	}
}

// ---- C15 -------------------------------------------------------------------------------------------------------------

func runC15(p *Program, r *Report) {
	// Ping is explored with ping looked through, so that the rule reads the same whether ping exists or was inlined
	if fn := p.Func("Conn.Ping"); fn != nil {
		p.forAllPaths(r, "C15.reg", fn, "register, write, wait", Opts{Inline: p.inlineSet("Conn.ping")},
			"ping creates a buffered channel, stores it in activePings[p] under activePingsMu before writeControl(ctx, opPing, []byte(p)), defers the removal, and returns nil only after receiving from that very channel; closed ↦ net.ErrClosed; ctx.Done() ↦ an error wrapping ctx.Err() with %w",
			func(pa *Path) (bool, string) {
				var mk *Expr
				var reg, wr, lock, unlock = -1, -1, -1, -1
				payload := ""
				for _, e := range pa.Events {
					if e.Kind == "mapupdate" && argKeyAV(e.Args, 0) == "Conn.activePings" {
						payload = argKeyAV(e.Args, 1)
					}
				}
				for i, e := range pa.Events {
					switch {
					case e.Kind == "mapupdate" && argKeyAV(e.Args, 0) == "Conn.activePings":
						reg = i
						if got := expandCalls(pa, payload); got != "strconv.Itoa(convert:int(atomic.AddInt32(&Conn.pingCounter,1)))" {
							return false, "registered under key " + got + " (want the decimal rendering of the atomic increment of pingCounter)"
						}
						m, ok := stripConvAll(e.Args[2]).(*Expr)
						if !ok || m.Op != "makechan" {
							return false, "registered value is " + e.Args[2].Key()
						}
						mk = m
					case isCall(e, "Conn.writeControl") && !e.Deferred:
						wr = i
						if argKey(e, 1) != "param:ctx" || argKey(e, 2) != "9" || argKey(e, 3) != "convert:[]byte("+payload+")" {
							return false, "ping frame written as writeControl(" + argKey(e, 1) + "," + argKey(e, 2) + "," + argKey(e, 3) + ")"
						}
					case isCall(e, "(*sync.Mutex).Lock") && argKey(e, 0) == "&Conn.activePingsMu" && lock < 0:
						lock = i
					case isCall(e, "(*sync.Mutex).Unlock") && argKey(e, 0) == "&Conn.activePingsMu" && unlock < 0:
						unlock = i
					}
				}
				if reg < 0 || mk == nil {
					return false, "pong channel not registered"
				}
				if !(lock >= 0 && lock < reg && reg < unlock) {
					return false, "registration not under activePingsMu"
				}
				if wr >= 0 && wr < reg {
					return false, "ping written before the pong channel is registered (a fast pong is lost)"
				}
				if c, ok := avInt(mk.Args[0]); !ok || c < 1 {
					return false, "pong channel is unbuffered: " + mk.Args[0].Key()
				}
				// deferred cleanup closure
				okDefer := false
				for _, e := range pa.Events {
					if e.Kind == "defer" && (e.Callee == "Conn.ping$1" || e.Callee == "Conn.Ping$1") {
						okDefer = true
					}
				}
				if !okDefer {
					return false, "no deferred removal from activePings"
				}
				if pa.End != "return" {
					return true, ""
				}
				ret := pa.Ret[0]
				// which select case was taken
				var sel *Event
				for _, e := range pa.Events {
					if e.Kind == "select" && e.Blocking {
						sel = e
					}
				}
				switch {
				case nilness(ret, pa) == -1:
					if sel == nil || sel.Case < 0 || stripConvAll(sel.Chan).Key() != mk.Key() {
						return false, "nil returned without a receive from its own pong channel"
					}
				case sel != nil && sel.Chan.Key() == "Conn.closed":
					if !wrapsKey(pa, ret, func(k string) bool { return k == "G:net.ErrClosed" }) {
						return false, "closed case returns " + ret.Key()
					}
				case sel != nil && strings.HasPrefix(sel.Chan.Key(), "call:invoke context.Context.Done@"):
					ok := ret.Key() != "" && !keyIs(ret, "call:invoke context.Context.Err@@") && wrapsKey(pa, ret, func(k string) bool { return pat("call:invoke context.Context.Err@@").MatchString(k) })
					if !ok {
						return false, "ctx.Done case does not wrap ctx.Err() with %w"
					}
				}
				if sel != nil {
					hasClosed, hasDone := false, false
					for _, a := range sel.Args {
						if a.Key() == "Conn.closed" {
							hasClosed = true
						}
						if strings.HasPrefix(a.Key(), "call:invoke context.Context.Done@") {
							hasDone = true
						}
					}
					if !hasClosed || !hasDone {
						return false, "wait has no case on closed / ctx.Done"
					}
				}
				return true, ""
			})
	}
	pingCleanup := p.FuncOpt("Conn.ping$1")
	if pingCleanup == nil {
		pingCleanup = p.FuncOpt("Conn.Ping$1")
	}
	if fn := pingCleanup; fn != nil {
		p.forAllPaths(r, "C15.reg", fn, "removal under the mutex", Opts{}, "the deferred closure deletes activePings[p] under activePingsMu", func(pa *Path) (bool, string) {
			li := eventIndex(pa, 0, func(e *Event) bool { return isCall(e, "(*sync.Mutex).Lock") })
			di := eventIndex(pa, 0, func(e *Event) bool { return isCall(e, "builtin delete") })
			ui := eventIndex(pa, 0, func(e *Event) bool { return isCall(e, "(*sync.Mutex).Unlock") })
			if !(li >= 0 && li < di && di < ui) {
				return false, "delete not bracketed by the mutex"
			}
			return true, ""
		})
	}
	if fn := p.Func("Conn.Ping"); fn != nil {
		p.forAllPaths(r, "C15.unique", fn, "distinct payload per call", Opts{Inline: p.inlineSet("Conn.ping")}, "Ping's payload is strconv.Itoa(int(atomic.AddInt32(&c.pingCounter, 1))): the result of the atomic increment, distinct for concurrent calls; exactly one increment and one ping frame per call", func(pa *Path) (bool, string) {
			if n := len(pa.Calls("atomic.AddInt32")); n != 1 {
				return false, fmt.Sprintf("%d atomic increments", n)
			}
			wc := pa.Calls("Conn.writeControl")
			if len(wc) > 1 {
				return false, "more than one ping frame"
			}
			for _, e := range wc {
				got := expandCalls(pa, argKey(e, 3))
				if got != "convert:[]byte(strconv.Itoa(convert:int(atomic.AddInt32(&Conn.pingCounter,1))))" {
					return false, "payload " + got
				}
				if argKey(e, 1) != "param:ctx" {
					return false, "ctx " + argKey(e, 1)
				}
			}
			return true, ""
		})
	}
	if fn := p.Func("Conn.handleControl"); fn != nil {
		val := map[string]AV{"header.fin": cBool(true), "header.payloadLength": cInt(5)}
		p.forAllPaths(r, "C15.echo", fn, "ping ↦ pong with the same bytes, synchronously", Opts{Val: mergeVal(val, "header.opcode", cInt(9))},
			"a received Ping is answered by writeControl(ctx, opPong, b) where b is the very slice readFramePayload filled (unmasked in place when masked); the path starts no goroutine",
			func(pa *Path) (bool, string) {
				rd := pa.Calls("Conn.readFramePayload")
				if len(rd) == 0 {
					return true, ""
				}
				if ok, known := decidedLike(pa, "call:Conn.readFramePayload@@#1 == nil"); !known || !ok {
					return true, ""
				}
				for _, e := range pa.Events {
					if e.Kind == "go" {
						return false, "goroutine started on the ping path"
					}
				}
				wc := pa.Calls("Conn.writeControl")
				if len(wc) != 1 {
					return false, fmt.Sprintf("%d writeControl calls for a ping", len(wc))
				}
				if argKey(wc[0], 2) != "10" || argKey(wc[0], 3) != argKey(rd[0], 2) {
					return false, "pong is writeControl(" + argKey(wc[0], 2) + ", " + argKey(wc[0], 3) + ") but the payload read is " + argKey(rd[0], 2)
				}
				if !keyIs(wc[0].Args[1], "call:context.WithTimeout@@#0") {
					return false, "pong written with ctx " + argKey(wc[0], 1)
				}
				if masked, known := pa.Decided("param:h.masked"); known && masked {
					mk := pa.Calls("mask")
					if len(mk) != 1 || argKey(mk[0], 0) != argKey(rd[0], 2) || argKey(mk[0], 1) != "param:h.maskKey" {
						return false, "masked ping payload not unmasked in place with the frame's key"
					}
				}
				if pa.End == "return" && pa.Ret[0].Key() != wc[0].Res.Key() {
					return false, "pong write error not returned"
				}
				return true, ""
			})
		p.forAllPaths(r, "C15.match", fn, "pong ↦ non-blocking notify of its own ping", Opts{Val: mergeVal(val, "header.opcode", cInt(10))},
			"a received Pong looks up string(b) in activePings under the mutex; a hit is notified by a select with default on that very channel; a miss returns nil and touches nothing; no frame is written",
			func(pa *Path) (bool, string) {
				rd := pa.Calls("Conn.readFramePayload")
				if len(rd) == 0 {
					return true, ""
				}
				if ok, known := decidedLike(pa, "call:Conn.readFramePayload@@#1 == nil"); !known || !ok {
					return true, ""
				}
				if len(pa.Calls("Conn.writeControl")) > 0 || len(pa.Calls("Conn.writeClose")) > 0 {
					return false, "a pong triggers a write"
				}
				nm := len(pa.Calls("mask"))
				if masked, known := pa.Decided("param:h.masked"); known && (masked && nm != 1 || !masked && nm != 0) {
					return false, fmt.Sprintf("pong payload masked %d times (masked=%v): the lookup key would not be the payload sent", nm, masked)
				}
				li := eventIndex(pa, 0, func(e *Event) bool { return isCall(e, "(*sync.Mutex).Lock") && argKey(e, 0) == "&Conn.activePingsMu" })
				ui := eventIndex(pa, 0, func(e *Event) bool { return isCall(e, "(*sync.Mutex).Unlock") && argKey(e, 0) == "&Conn.activePingsMu" })
				if li < 0 || ui < li {
					return false, "lookup not under activePingsMu"
				}
				hit := false
				hitKnown := false
				for _, d := range pa.Decisions {
					if strings.HasPrefix(d.Key, "lookupok:") {
						hit, hitKnown = d.Val, true
					}
				}
				if !hitKnown {
					return false, "lookup result not tested"
				}
				var sels []*Event
				for _, e := range pa.Events {
					if e.Kind == "select" {
						sels = append(sels, e)
					}
				}
				if !hit {
					if len(sels) > 0 {
						return false, "a miss still touches a channel"
					}
				} else {
					if len(sels) != 1 || sels[0].Blocking {
						return false, "notification is not a single non-blocking select"
					}
					want := "lookup:"
					if len(sels[0].Args) != 1 || !strings.HasPrefix(sels[0].Args[0].Key(), want) || !strings.Contains(sels[0].Args[0].Key(), "Conn.activePings,convert:string("+argKey(rd[0], 2)+")") {
						return false, "notifies " + argKeyAV(sels[0].Args, 0)
					}
				}
				if pa.End == "return" && nilness(pa.Ret[0], pa) != -1 {
					return false, "pong handling returns an error"
				}
				return true, ""
			})
	}
	c02flush(p, r, "C15.flush")
	c05leaf(p, r, getLockEnv(p), "C15.leaf")
	c03ctl(p, r, "C15.len")
	// the payload of a ping is read in full before it is echoed (seed C15-O)
	c03full(p, r, "C15.full")
	// a control frame that was handled (pong sent, unsolicited pong ignored) must leave the timeout watcher disarmed, or the
	// end of handleControl's own context closes the connection (seed C15-M)
	shareAs(r, "C10.disarm", "C15.disarm", func(sub *Report) { armingRules(p, sub, false, true) })
	// activePings accessed only under its mutex (shared with C05.guard)
	c05guard(p, r, getLockEnv(p), "C15.guard", map[string]bool{"Conn.activePings": true})
	cAfterClose(p, r, "C15.after-close")
	c03loop(p, r, "C15.recv.loop")
	c06wait(p, r, "C15.wait")
}

// cAfterClose: ping and pong frames pass the close-sent guard (the C16 table rows for opcodes 9 and 10): a ping that
// arrives after our Close frame and before the peer's is answered, and the close handshake goes on to read the peer's Close.
func cAfterClose(p *Program, r *Report, rule string) {
	if fn := p.Func("Conn.writeFrame"); fn != nil && p.FieldOpt("Conn.closeSent") != nil {
		p.runTable(r, tableSpec{
			Rule: rule, Fn: fn,
			Atoms:  []Atom{boolAtom("Conn.closeSent"), intAtom("param:opcode", []int64{9, 10}), boolAtom("Conn.client")},
			Decide: func(v Valuation) func(string, AV) (bool, bool) { return writeFrameOKDecide },
			Classify: func(v Valuation, pa *Path) string {
				if len(pa.Calls("writeFrameHeader")) > 0 {
					return "EMIT"
				}
				return "REFUSED"
			},
			Oracle: func(v Valuation) []string { return []string{"EMIT", "REFUSED"} },
			Need:   func(v Valuation) []string { return []string{"EMIT"} },
			What:   "ping and pong frames can still be emitted after a Close frame was sent (a ping arriving before the peer's Close reply is answered)",
		})
	}
}

func mergeVal(m map[string]AV, k string, v AV) map[string]AV {
	out := map[string]AV{}
	for a, b := range m {
		out[a] = b
	}
	out[k] = v
	return out
}

// stripConvAll removes conversions and change-type wrappers (chan struct{} → chan<- struct{}).
func stripConvAll(a AV) AV {
	for {
		e, ok := a.(*Expr)
		if ok && e.Op == "convert" && len(e.Args) == 1 {
			a = e.Args[0]
			continue
		}
		return a
	}
}

var _ = types.Typ
