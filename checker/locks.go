package main

// E2 — must-hold lock-state analysis over SSA (forward dataflow, join = intersection),
// interprocedural through held-on-entry sets (intersection over call sites) and
// function summaries: acquires(F) (locks held at every success return that were not held
// on entry) and releases(F) (locks F releases without acquiring them itself).
// Lock identity is the field object ("Conn.readMu", "msgWriter.mu", "G:swPoolMu").

import (
	"fmt"
	"go/token"
	"go/types"
	"sort"
	"strings"

	"golang.org/x/tools/go/ssa"
)

type lockset uint64

const topLocks = ^lockset(0)

type LockAnalysis struct {
	p       *Program
	names   []string
	idx     map[string]int
	entry   map[*ssa.Function]lockset
	at      map[ssa.Instruction]lockset // held immediately before the instruction
	exit    map[*ssa.Function]lockset   // held at success returns
	exitAll map[*ssa.Function]lockset   // held at all returns
	acq     map[*ssa.Function]lockset
	rel     map[*ssa.Function]lockset
	roots   map[*ssa.Function]bool
	// extra call edges: invoke/dynamic call sites resolved by the funnel proof (C07.funnel)
	callbacks map[ssa.CallInstruction][]*ssa.Function
	callersOf map[*ssa.Function][]lockCallSite
	releases  []lockOp // all release operations (for C05.pair)
	leaks     map[*ssa.Function]map[ssa.Instruction]lockset // returns that still hold a lock acquired by a primitive op of the same function
	iter      int
}

type lockCallSite struct {
	instr    ssa.CallInstruction
	in       *ssa.Function
	deferred bool
	goStmt   bool
}

type lockOp struct {
	Instr ssa.Instruction
	Fn    *ssa.Function
	Lock  string
	Held  bool
	Defer bool
}

func (la *LockAnalysis) bit(name string) lockset {
	i, ok := la.idx[name]
	if !ok {
		i = len(la.names)
		if i >= 63 {
			panic("too many locks")
		}
		la.idx[name] = i
		la.names = append(la.names, name)
	}
	return 1 << uint(i)
}

func (la *LockAnalysis) Names(s lockset) []string {
	var out []string
	for i, n := range la.names {
		if s&(1<<uint(i)) != 0 {
			out = append(out, n)
		}
	}
	sort.Strings(out)
	return out
}

func (la *LockAnalysis) Has(s lockset, name string) bool {
	i, ok := la.idx[name]
	return ok && s&(1<<uint(i)) != 0
}

// lockKey resolves the receiver of a lock operation to a lock identity.
func (la *LockAnalysis) lockKey(v ssa.Value) string {
	for i := 0; i < 6; i++ {
		switch x := v.(type) {
		case *ssa.UnOp:
			if x.Op == token.MUL {
				if fa, ok := x.X.(*ssa.FieldAddr); ok {
					return typeShort(fa.X.Type()) + "." + fieldName(fieldOf(fa))
				}
				if g, ok := x.X.(*ssa.Global); ok {
					return "G:" + memberName(g)
				}
			}
			return ""
		case *ssa.FieldAddr:
			return typeShort(x.X.Type()) + "." + fieldName(fieldOf(x))
		case *ssa.Global:
			return "G:" + memberName(x)
		case *ssa.Parameter:
			return "param:" + paramName(x)
		case *ssa.ChangeType:
			v = x.X
		default:
			return ""
		}
	}
	return ""
}

type opKind int

const (
	opNone opKind = iota
	opAcquire
	opAcquireOnNil  // result error == nil
	opAcquireOnTrue // result bool == true
	opRelease
)

// classify a static callee as a primitive lock operation.
func (la *LockAnalysis) primitive(callee *ssa.Function) opKind {
	if callee == nil {
		return opNone
	}
	name := la.p.anyFuncName(callee)
	switch name {
	case "mu.forceLock", "(*sync.Mutex).Lock", "(*sync.RWMutex).Lock", "(*sync.RWMutex).RLock":
		return opAcquire
	case "mu.lock":
		return opAcquireOnNil
	case "mu.tryLock", "(*sync.Mutex).TryLock":
		return opAcquireOnTrue
	case "mu.unlock", "(*sync.Mutex).Unlock", "(*sync.RWMutex).Unlock", "(*sync.RWMutex).RUnlock":
		return opRelease
	}
	return opNone
}

func newLockAnalysis(p *Program, callbacks map[ssa.CallInstruction][]*ssa.Function) *LockAnalysis {
	la := &LockAnalysis{p: p, idx: map[string]int{}, entry: map[*ssa.Function]lockset{}, at: map[ssa.Instruction]lockset{},
		exit: map[*ssa.Function]lockset{}, exitAll: map[*ssa.Function]lockset{}, acq: map[*ssa.Function]lockset{}, rel: map[*ssa.Function]lockset{},
		roots: map[*ssa.Function]bool{}, callbacks: callbacks, callersOf: map[*ssa.Function][]lockCallSite{}, leaks: map[*ssa.Function]map[ssa.Instruction]lockset{}}
	la.run()
	return la
}

// callTargets: library functions a call instruction may invoke (static, closure, or callback table).
func (la *LockAnalysis) callTargets(ci ssa.CallInstruction) []*ssa.Function {
	cc := ci.Common()
	if cb, ok := la.callbacks[ci]; ok {
		return cb
	}
	if pk := ci.Parent().Package(); pk != nil && pk.Pkg.Name() == "util" {
		return nil // ReaderFunc/WriterFunc wrappers: modelled by the funnel edges at the invoking site
	}
	if ts, ok := resolveDynamic(la.p, ci.Parent(), ci); ok {
		return ts
	}
	if cc.IsInvoke() {
		return nil
	}
	switch v := cc.Value.(type) {
	case *ssa.Function:
		return []*ssa.Function{v}
	case *ssa.MakeClosure:
		return []*ssa.Function{v.Fn.(*ssa.Function)}
	}
	return nil
}

func (la *LockAnalysis) run() {
	p := la.p
	// call sites and roots
	addrTaken := map[*ssa.Function]bool{}
	for _, fn := range p.Funcs {
		for _, b := range fn.Blocks {
			for _, in := range b.Instrs {
				if ci, ok := in.(ssa.CallInstruction); ok {
					_, isDefer := in.(*ssa.Defer)
					_, isGo := in.(*ssa.Go)
					for _, t := range la.callTargets(ci) {
						if p.isLib(t) {
							la.callersOf[t] = append(la.callersOf[t], lockCallSite{instr: ci, in: fn, deferred: isDefer, goStmt: isGo})
						}
					}
				}
				// function values that escape (method values, closures passed as arguments)
				var ops []*ssa.Value
				for _, op := range in.Operands(ops) {
					if op == nil || *op == nil {
						continue
					}
					var f *ssa.Function
					switch v := (*op).(type) {
					case *ssa.Function:
						f = v
					case *ssa.MakeClosure:
						f = v.Fn.(*ssa.Function)
					}
					if f == nil {
						continue
					}
					if ci, ok := in.(ssa.CallInstruction); ok && ci.Common().Value == *op {
						continue // direct call
					}
					if mc, ok := in.(*ssa.MakeClosure); ok && mc.Fn == *op {
						// the closure value itself: look at how the MakeClosure is used
						direct := true
						for _, ref := range *mc.Referrers() {
							if ci, ok := ref.(ssa.CallInstruction); ok && ci.Common().Value == mc {
								continue
							}
							if _, ok := ref.(*ssa.DebugRef); ok {
								continue
							}
							direct = false
						}
						if direct {
							continue
						}
					}
					addrTaken[f] = true
				}
			}
		}
	}
	isCallbackTarget := map[*ssa.Function]bool{}
	for _, ts := range la.callbacks {
		for _, t := range ts {
			isCallbackTarget[t] = true
		}
	}
	// types whose values are converted to an interface somewhere (their methods may be called from outside)
	ifaceTypes := map[string]bool{}
	for _, fn := range p.Funcs {
		for _, b := range fn.Blocks {
			for _, in := range b.Instrs {
				if mi, ok := in.(*ssa.MakeInterface); ok {
					ifaceTypes[typeShort(mi.X.Type())] = true
				}
			}
		}
	}
	for _, fn := range p.Funcs {
		exported := fn.Parent() == nil && fn.Object() != nil && fn.Object().Exported()
		root := false
		if recv := fn.Signature.Recv(); recv != nil && fn.Parent() == nil {
			tn := typeShort(recv.Type())
			typeExported := token.IsExported(tn)
			root = exported && (typeExported || ifaceTypes[tn])
		} else {
			root = exported
		}
		noCallers := len(la.callersOf[fn]) == 0
		if isCallbackTarget[fn] {
			root = false
		} else if noCallers || addrTaken[fn] {
			root = true
		}
		if root {
			la.roots[fn] = true
		}
		for _, cs := range la.callersOf[fn] {
			if cs.goStmt {
				la.roots[fn] = true
			}
		}
	}
	for _, fn := range p.Funcs {
		if la.roots[fn] {
			la.entry[fn] = 0
		} else {
			la.entry[fn] = topLocks
		}
		la.acq[fn] = 0
		la.rel[fn] = 0
		la.exit[fn] = topLocks
		la.exitAll[fn] = topLocks
	}
	// pre-register lock names so that TOP is meaningful
	for _, fn := range p.Funcs {
		for _, b := range fn.Blocks {
			for _, in := range b.Instrs {
				if ci, ok := in.(ssa.CallInstruction); ok {
					cc := ci.Common()
					if f, ok := cc.Value.(*ssa.Function); ok && la.primitive(f) != opNone && len(cc.Args) > 0 {
						if k := la.lockKey(cc.Args[0]); k != "" {
							la.bit(k)
						}
					}
				}
			}
		}
	}
	for la.iter = 0; la.iter < 40; la.iter++ {
		changed := false
		for _, fn := range p.Funcs {
			if la.analyze(fn) {
				changed = true
			}
		}
		// recompute entries
		for _, fn := range p.Funcs {
			if la.roots[fn] {
				continue
			}
			e := topLocks
			for _, cs := range la.callersOf[fn] {
				var h lockset
				if cs.deferred {
					h = la.heldAtRunDefers(cs.instr)
				} else {
					h = la.heldBefore(cs.instr)
				}
				e &= h
			}
			if e != la.entry[fn] {
				la.entry[fn] = e
				changed = true
			}
		}
		if !changed {
			break
		}
	}
}

// heldAtRunDefers: locks held when the deferred call registered at d runs (intersection over the
// RunDefers instructions dominated by d).
func (la *LockAnalysis) heldAtRunDefers(d ssa.Instruction) lockset {
	fn := d.Parent()
	h := topLocks
	found := false
	for _, b := range fn.Blocks {
		for _, in := range b.Instrs {
			if _, ok := in.(*ssa.RunDefers); !ok {
				continue
			}
			if d.Block() == b || d.Block().Dominates(b) {
				found = true
				h &= la.heldBefore(in)
			}
		}
	}
	if !found {
		return la.heldBefore(d)
	}
	return h
}

func (la *LockAnalysis) heldBefore(in ssa.Instruction) lockset {
	if h, ok := la.at[in]; ok {
		return h
	}
	return topLocks
}

// HeldAt is the public query (TOP for unreachable code is reported as "all").
func (la *LockAnalysis) HeldAt(in ssa.Instruction) lockset { return la.heldBefore(in) }

// pendingOf: if v is (derived from) the result of a conditional acquisition, return the lock set and the kind.
func (la *LockAnalysis) pendingOf(v ssa.Value) (lockset, opKind) {
	for i := 0; i < 4; i++ {
		switch x := v.(type) {
		case *ssa.Call:
			cc := &x.Call
			if f, ok := cc.Value.(*ssa.Function); ok {
				switch la.primitive(f) {
				case opAcquireOnNil:
					if k := la.lockKey(cc.Args[0]); k != "" {
						return la.bit(k), opAcquireOnNil
					}
				case opAcquireOnTrue:
					if k := la.lockKey(cc.Args[0]); k != "" {
						return la.bit(k), opAcquireOnTrue
					}
				}
				if la.p.isLib(f) && la.acq[f] != 0 && returnsError(f) && f.Signature.Results().Len() == 1 {
					return la.acq[f], opAcquireOnNil
				}
			}
			return 0, opNone
		case *ssa.Extract:
			if c, ok := x.Tuple.(*ssa.Call); ok {
				if f, ok := c.Call.Value.(*ssa.Function); ok && la.p.isLib(f) && la.acq[f] != 0 && returnsError(f) && x.Index == f.Signature.Results().Len()-1 {
					return la.acq[f], opAcquireOnNil
				}
			}
			return 0, opNone
		case *ssa.UnOp:
			if x.Op == token.MUL {
				// load of a local that was just stored
				if al, ok := x.X.(*ssa.Alloc); ok {
					b := x.Block()
					idx := -1
					for i, in := range b.Instrs {
						if in == x {
							idx = i
						}
					}
					for j := idx - 1; j >= 0; j-- {
						if st, ok := b.Instrs[j].(*ssa.Store); ok && st.Addr == al {
							v = st.Val
							goto next
						}
						if _, ok := b.Instrs[j].(*ssa.Call); ok {
							return 0, opNone
						}
					}
				}
			}
			return 0, opNone
		default:
			return 0, opNone
		}
	next:
	}
	return 0, opNone
}

func returnsError(f *ssa.Function) bool {
	res := f.Signature.Results()
	if res.Len() == 0 {
		return false
	}
	return types.Identical(res.At(res.Len()-1).Type(), types.Universe.Lookup("error").Type())
}

// edgeGain: locks gained on the edge from b to its succ index si.
func (la *LockAnalysis) edgeGain(b *ssa.BasicBlock, si int) lockset {
	iff, ok := b.Instrs[len(b.Instrs)-1].(*ssa.If)
	if !ok {
		return 0
	}
	cond := iff.Cond
	neg := false
	for {
		if u, ok := cond.(*ssa.UnOp); ok && u.Op == token.NOT {
			neg = !neg
			cond = u.X
			continue
		}
		break
	}
	onTrue := si == 0
	if bo, ok := cond.(*ssa.BinOp); ok && (bo.Op == token.NEQ || bo.Op == token.EQL) {
		var v ssa.Value
		if c, ok := bo.Y.(*ssa.Const); ok && c.Value == nil {
			v = bo.X
		} else if c, ok := bo.X.(*ssa.Const); ok && c.Value == nil {
			v = bo.Y
		}
		if v != nil {
			if ls, k := la.pendingOf(v); k == opAcquireOnNil {
				// (v == nil) true edge gains; (v != nil) false edge gains
				isNilEdge := (bo.Op == token.EQL) == onTrue
				if neg {
					isNilEdge = !isNilEdge
				}
				if isNilEdge {
					return ls
				}
			}
		}
		return 0
	}
	if ls, k := la.pendingOf(cond); k == opAcquireOnTrue {
		if onTrue != neg {
			return ls
		}
	}
	return 0
}

func (la *LockAnalysis) analyze(fn *ssa.Function) bool {
	if len(fn.Blocks) == 0 {
		return false
	}
	in := make([]lockset, len(fn.Blocks))
	drel := make([]lockset, len(fn.Blocks)) // may-be-released-at-RunDefers (union)
	for i := range in {
		in[i] = topLocks
	}
	in[0] = la.entry[fn]
	changedAny := false
	work := []*ssa.BasicBlock{fn.Blocks[0]}
	inWork := map[int]bool{0: true}
	visited := map[int]bool{}
	var ownAcq, ownRel lockset
	var pendingAcq lockset // locks conditionally acquired somewhere in fn
	exitOK, exitAll := topLocks, topLocks
	newAt := map[ssa.Instruction]lockset{}
	for len(work) > 0 {
		b := work[0]
		work = work[1:]
		inWork[b.Index] = false
		visited[b.Index] = true
		cur := in[b.Index]
		dr := drel[b.Index]
		for _, instr := range b.Instrs {
			newAt[instr] = cur
			switch x := instr.(type) {
			case *ssa.Call:
				cur = la.transferCall(fn, x, cur, &ownAcq, &ownRel, &pendingAcq, false)
			case *ssa.Defer:
				// a deferred release keeps the lock until RunDefers
				before := ownRel
				var tmpRel lockset
				la.transferCall(fn, x, cur, &ownAcq, &tmpRel, &pendingAcq, true)
				ownRel = before | tmpRel
				dr |= tmpRel
			case *ssa.RunDefers:
				if cur != topLocks {
					cur &^= dr
				}
			case *ssa.Return:
				exitAll &= cur
				if cur != topLocks {
					if lk := cur & la.primitiveAcq(fn) &^ la.entry[fn]; lk != 0 {
						if la.leaks[fn] == nil {
							la.leaks[fn] = map[ssa.Instruction]lockset{}
						}
						la.leaks[fn][x] = lk
					} else if la.leaks[fn] != nil {
						delete(la.leaks[fn], x)
					}
				}
				success := true
				okCur := cur
				if returnsError(fn) {
					last := x.Results[len(x.Results)-1]
					if c, ok := last.(*ssa.Const); !(ok && c.Value == nil) {
						success = false
						if u, ok := last.(*ssa.UnOp); ok && u.Op == token.MUL {
							success = true // named result reloaded after defers: may be nil
						}
						// the error of a callee that holds a lock when it returns nil, passed on unchanged
						if ls, kind := la.pendingOf(last); kind == opAcquireOnNil && ls != 0 && cur != topLocks {
							success = true
							okCur = cur | ls
							pendingAcq |= ls
						}
					}
				}
				if success {
					exitOK &= okCur
				}
			}
		}
		for si, s := range b.Succs {
			out := cur | la.edgeGain(b, si)
			if cur == topLocks {
				out = topLocks
			}
			n := in[s.Index] & out
			nd := drel[s.Index] | dr
			if n != in[s.Index] || nd != drel[s.Index] || !visited[s.Index] {
				in[s.Index] = n
				drel[s.Index] = nd
				if !inWork[s.Index] {
					work = append(work, s)
					inWork[s.Index] = true
				}
			}
		}
	}
	for k, v := range newAt {
		if old, ok := la.at[k]; !ok || old != v {
			la.at[k] = v
			changedAny = true
		}
	}
	if exitOK == topLocks {
		exitOK = exitAll
	}
	ent := la.entry[fn]
	var acq lockset
	if exitOK != topLocks && ent != topLocks {
		acq = exitOK &^ ent
	}
	rel := ownRel &^ (ownAcq | pendingAcq)
	if acq != la.acq[fn] || rel != la.rel[fn] || exitAll != la.exitAll[fn] || exitOK != la.exit[fn] {
		la.acq[fn], la.rel[fn], la.exitAll[fn], la.exit[fn] = acq, rel, exitAll, exitOK
		changedAny = true
	}
	return changedAny
}

func (la *LockAnalysis) transferCall(fn *ssa.Function, ci ssa.CallInstruction, cur lockset, ownAcq, ownRel, pendingAcq *lockset, deferred bool) lockset {
	cc := ci.Common()
	if f, ok := cc.Value.(*ssa.Function); ok {
		kind := la.primitive(f)
		if kind != opNone && len(cc.Args) > 0 {
			k := la.lockKey(cc.Args[0])
			if k == "" {
				return cur
			}
			bit := la.bit(k)
			switch kind {
			case opAcquire:
				if deferred {
					return cur
				}
				*ownAcq |= bit
				if cur == topLocks {
					return cur
				}
				return cur | bit
			case opAcquireOnNil, opAcquireOnTrue:
				*pendingAcq |= bit
				return cur
			case opRelease:
				*ownRel |= bit
				if la.iter > 0 || true {
					la.noteRelease(ci, fn, k, cur, deferred)
				}
				if deferred || cur == topLocks {
					return cur
				}
				return cur &^ bit
			}
		}
	}
	for _, t := range la.callTargets(ci) {
		if !la.p.isLib(t) {
			continue
		}
		if _, isGo := ci.(*ssa.Go); isGo {
			continue
		}
		// summaries
		if r := la.rel[t]; r != 0 {
			*ownRel |= r
			if !deferred && cur != topLocks {
				cur &^= r
			}
		}
		if a := la.acq[t]; a != 0 {
			if returnsError(t) {
				*pendingAcq |= a
			} else if !deferred {
				*ownAcq |= a
				if cur != topLocks {
					cur |= a
				}
			}
		}
	}
	return cur
}

func (la *LockAnalysis) noteRelease(ci ssa.CallInstruction, fn *ssa.Function, lock string, cur lockset, deferred bool) {
	for i := range la.releases {
		if la.releases[i].Instr == ci {
			la.releases[i].Held = cur == topLocks || la.Has(cur, lock)
			if deferred {
				la.releases[i].Held = true // decided at exit; see pair rule
			}
			return
		}
	}
	la.releases = append(la.releases, lockOp{Instr: ci, Fn: fn, Lock: lock, Held: cur == topLocks || la.Has(cur, lock), Defer: deferred})
}

func (la *LockAnalysis) Describe(fn *ssa.Function) string {
	return fmt.Sprintf("entry=%v acquires=%v releases=%v", la.Names(la.entry[fn]&^topIfTop(la.entry[fn])), la.Names(la.acq[fn]), la.Names(la.rel[fn]))
}

func topIfTop(s lockset) lockset {
	if s == topLocks {
		return topLocks
	}
	return 0
}

func (la *LockAnalysis) EntryNames(fn *ssa.Function) string {
	if la.entry[fn] == topLocks {
		return "⊤(no callers)"
	}
	return strings.Join(la.Names(la.entry[fn]), ",")
}

// primitiveAcq: locks for which fn itself contains a primitive acquisition (lock, forceLock, tryLock, Mutex.Lock).
func (la *LockAnalysis) primitiveAcq(fn *ssa.Function) lockset {
	var out lockset
	for _, b := range fn.Blocks {
		for _, in := range b.Instrs {
			c, ok := in.(*ssa.Call)
			if !ok {
				continue
			}
			if f, ok := c.Call.Value.(*ssa.Function); ok {
				switch la.primitive(f) {
				case opAcquire, opAcquireOnNil, opAcquireOnTrue:
					if k := la.lockKey(c.Call.Args[0]); k != "" {
						out |= la.bit(k)
					}
				}
			}
		}
	}
	return out
}
