package main

import (
	"fmt"
	"go/types"
	"sort"
	"strings"

	"golang.org/x/tools/go/ssa"
)

func init() {
	register("C05", propInfo{
		Explanation: "C05 (frame atomicity, unmixed messages, data-race freedom) is decided as lock discipline, which holds for all schedules when it holds for all paths: a must-hold lock-state dataflow over the SSA of the whole library (interprocedural: held-on-entry = intersection over call sites, acquire/release summaries, verified callback edges through flate/bufio) proves that every access to a guarded field and every transport emission happens under its lock, that locks are released only by their holder, that the message lock is released only after a final frame, that nothing reachable while a lock is held re-acquires it, and that close() orders 'closed' before the transport close before the teardown.",
		Decides: []string{
			"C05.watcher (= C10.loop): the timeout watcher keeps one context per direction: after a context arrived on each of the two channels both are waited on",
			"C05.recheck: the channel lock itself (C06.recheck = C05.recheck = C07.mu = C09.mu): mu.lock returns nil only holding the lock and after re-polling closed, returns an error only without it, and never releases a lock this call did not acquire; forceLock is one blocking send, unlock at most one receive, tryLock true exactly when its non-blocking send was taken, and nothing else",
			"C05.guard: guarded-by table (writer state → writeFrameMu; reader/frame/flate state → readMu; flateWriter → writeMu; activePings, closing/released, closeReadCtx, swPool, netConn reader state → their mutexes) holds at every access outside constructors",
			"C05.emitlock: every emission site holds writeFrameMu; writeFrame releases it only by its deferred unlock (header+payload+flush are one critical section)",
			"C05.pair: every release happens with the lock held by the releasing path (frozen exceptions: msgWriter.Close/msgWriter.mu handed over by reset; mu.lock's own release)",
			"C05.msglock: msgWriter.mu is acquired only in reset; it is released only after a writeFrame(fin=true) of the same function; data-frame writeFrame calls exist only in Conn.write, msgWriter.write, msgWriter.Close",
			"C05.closeorder: close(c.closed) precedes rwc.Close() precedes the reader/writer teardown, each once, under their mutexes",
			"C05.noreacquire: no call made while holding a channel mutex synchronously reaches an acquisition of the same mutex (self-deadlock / close inside the read stack)",
			"C05.recheck: mu.lock re-checks closed after acquisition",
			"C05.spawn: the goroutines and timers the library starts are the frozen list of C20.inventory: the lock discipline is decided for these concurrent entry points and the API; C05.closers: the teardown sites are frozen (shared with C04.closers)",
		},
		NotDecided: []string{"freedom from races on fields outside the guarded-by table", "per-writer message order and what the peer observes under a given interleaving", "prefix property of bytes returned by a read racing with Close"},
		Trusted:    []string{"go/types, go/ssa", "Go memory model for channel-based mutex and sync.Mutex", "funnel proof of callback fields (C07.funnel)"},
		Assumptions: []string{"lock identity is the field object (one Conn per object graph; constructors checked)", "Reader/Read are not called concurrently with each other (documented contract)"},
	}, runC05)
}

// guardedBy is the guarded-by table confirmed by reading every access.
var guardedBy = []struct{ Field, Lock string }{
	{"Conn.bw", "Conn.writeFrameMu"}, {"Conn.writeBuf", "Conn.writeFrameMu"}, {"Conn.writeHeader", "Conn.writeFrameMu"}, {"Conn.writeHeaderBuf", "Conn.writeFrameMu"},
	{"Conn.closeSent", "Conn.writeFrameMu"},
	{"Conn.br", "Conn.readMu"}, {"Conn.readHeaderBuf", "Conn.readMu"}, {"Conn.readControlBuf", "Conn.readMu"},
	{"msgReader.fin", "Conn.readMu"}, {"msgReader.payloadLength", "Conn.readMu"}, {"msgReader.maskKey", "Conn.readMu"}, {"msgReader.flate", "Conn.readMu"},
	{"msgReader.flateReader", "Conn.readMu"}, {"msgReader.flateBufio", "Conn.readMu"}, {"msgReader.flateTail", "Conn.readMu"}, {"msgReader.dict", "Conn.readMu"},
	{"limitReader.r", "Conn.readMu"}, {"limitReader.n", "Conn.readMu"},
	{"msgWriter.flateWriter", "msgWriter.writeMu"},
	{"Conn.activePings", "Conn.activePingsMu"},
	{"Conn.closing", "Conn.closeMu"}, {"Conn.released", "Conn.closeMu"},
	{"Conn.closeReadCtx", "Conn.closeReadMu"},
	{"netConn.reader", "netConn.readMu"}, {"netConn.readEOFed", "netConn.readMu"},
}

// constructors run before the object is published.
var constructorFns = map[string]bool{"newConn": true, "newMsgReader": true, "newMsgWriter": true, "newLimitReader": true, "NetConn": true, "newMu": true}

// guardExceptions: (function|field) pairs exempt from the table, one reason each.
var guardExceptions = map[string]string{
	"limitReader.reset|limitReader.r":  "called from newLimitReader (constructor) and from msgReader.reset under readMu; the constructor call has no lock (object not yet published)",
	"limitReader.reset|limitReader.n":  "same as above",
	"Conn.writeFrame|Conn.closeSent@-": "",
}

type lockEnv struct {
	la *LockAnalysis
	cg *CallGraph
}

var lockEnvCache = map[*Program]*lockEnv{}

func getLockEnv(p *Program) *lockEnv {
	if e, ok := lockEnvCache[p]; ok {
		return e
	}
	e := &lockEnv{la: newLockAnalysis(p, buildCallbacks(p)), cg: buildCallGraph(p)}
	lockEnvCache[p] = e
	return e
}

func runC05(p *Program, r *Report) {
	env := getLockEnv(p)
	c05guard(p, r, env, "C05.guard", nil)
	c05emitlock(p, r, env, "C05.emitlock")
	c05pair(p, r, env, "C05.pair")
	c05leak(p, r, env, "C05.leak")
	c05leaf(p, r, env, "C05.leaf")
	cWriterHandle(p, r, "C05.handle")
	c05msglock(p, r, "C05.msglock")
	c05closeorder(p, r, "C05.closeorder")
	c05noreacquire(p, r, env, "C05.noreacquire")
	c06recheckOnly(p, r)
	c07funnel(p, r, "C05.funnel")
	cSpawns(p, r, "C05.spawn")
	cClosers(p, r, "C05.closers")
	c10closes(p, r, "C05.ctxclose")
	// a read that races with a context expiry fails: the watcher keeps one context per direction (seed C05-N)
	c10loop(p, r, "C05.watcher")
	// CloseRead alongside a Read in flight: the two readers are kept apart by the generation of the message (F38)
	if fn := p.Func("msgReader.Read"); fn != nil {
		c04stale(p, r, "C05.stale", fn)
	}
	cReaderHandle(p, r, "C05.rhandle")
	// "whatever bytes it returns are a prefix of that message", also when the read is cut short by Close, CloseNow or a
	// context: the bytes read before the failure are unmasked (seed C05-R)
	c04unmask(p, r, "C05.unmask")
	// a control frame written between two frames of a compressed message carries its own header bits, and its payload is
	// not a buffer that concurrent callers share outside the frame lock (seeds C05-O, C05-P)
	shareAs(r, "C05", "C05", func(sub *Report) { c02rsv(p, sub, "C05.rsv") })
	shareAs(r, "C05.ctl", "C05.ctl", func(sub *Report) { c02ctl(p, sub, "C05.ctl") })
	// summaries into the evidence
	sum := map[string]string{}
	for _, fn := range p.Funcs {
		if env.la.acq[fn] != 0 || env.la.rel[fn] != 0 || (env.la.entry[fn] != 0 && env.la.entry[fn] != topLocks) {
			sum[p.FuncName(fn)] = fmt.Sprintf("entry={%s} acquires={%s} releases={%s}", env.la.EntryNames(fn), strings.Join(env.la.Names(env.la.acq[fn]), ","), strings.Join(env.la.Names(env.la.rel[fn]), ","))
		}
	}
	r.Tables["lock summaries"] = sum
}

func c06recheckOnly(p *Program, r *Report) {
	sub := newReport(r.Prop, r.Tier)
	c06closed(p, sub, "C05.closedpoll")
	for _, o := range sub.Obls {
		if o.Rule == "C06.recheck" {
			o.Rule = "C05.recheck"
			o.Key = strings.Replace(o.Key, "C06.recheck", "C05.recheck", 1)
			r.add(o)
		}
	}
	r.Evaluations += sub.Evaluations
	for f := range sub.Funcs {
		r.Funcs[f] = true
	}
}

func c05guard(p *Program, r *Report, env *lockEnv, rule string, only map[string]bool) {
	la := env.la
	for _, g := range guardedBy {
		if only != nil && !only[g.Field] {
			continue
		}
		f := p.FieldOpt(g.Field)
		if f == nil {
			if g.Field == "Conn.closeSent" || g.Field == "Conn.released" {
				continue // introduced by the repairs of F1/F4; absent on older trees (C16.state / C05.closeorder report that)
			}
			p.Unresolved = append(p.Unresolved, "field "+g.Field)
			continue
		}
		n := 0
		for _, fa := range p.FieldAccesses(f) {
			fname := p.FuncName(fa.Fn)
			root := fa.Fn
			for root.Parent() != nil {
				root = root.Parent()
			}
			if constructorFns[p.FuncName(root)] {
				continue
			}
			n++
			r.UseFunc(fname)
			held := la.HeldAt(fa.Instr)
			ok := held == topLocks || la.Has(held, g.Lock)
			detail := "held here: {" + strings.Join(la.Names(held&^topIfTop(held)), ",") + "}; entry of " + fname + ": {" + la.EntryNames(fa.Fn) + "}"
			if !ok {
				if reason, ex := guardExceptions[fname+"|"+g.Field]; ex && reason != "" {
					// exception applies only to the constructor caller: all other callers must hold the lock
					okAll := true
					for _, cs := range la.callersOf[p.ownerFunc(fa.Fn)] {
						if constructorFns[p.FuncName(cs.in)] {
							continue
						}
						if h := la.HeldAt(cs.instr); !(h == topLocks || la.Has(h, g.Lock)) {
							okAll = false
						}
					}
					if okAll {
						ok = true
						detail = "exception: " + reason
					}
				}
			}
			kind := "read"
			if fa.Write {
				kind = "write"
			} else if fa.Addr {
				kind = "addr"
			}
			r.Check(rule, fname, g.Field+" "+kind, p.InstrPos(fa.Instr), ok, g.Field+" is accessed only with "+g.Lock+" held (guarded-by table)", detail)
		}
		if n == 0 {
			r.Note("%s: field %s has no access outside constructors", rule, g.Field)
		}
	}
	// swPool global
	if only == nil {
		if g, ok := p.member("swPool").(*ssa.Global); ok {
			for _, fn := range p.Funcs {
				for _, b := range fn.Blocks {
					for _, in := range b.Instrs {
						uses := false
						var ops []*ssa.Value
						for _, op := range in.Operands(ops) {
							if op != nil && *op == ssa.Value(g) {
								uses = true
							}
						}
						if !uses || p.FuncName(fn) == "init" {
							continue
						}
						held := la.HeldAt(in)
						ok := held == topLocks || la.Has(held, "G:swPoolMu")
						r.Check(rule, p.FuncName(fn), "swPool", p.InstrPos(in), ok, "the swPool map is accessed only with swPoolMu held", "held: {"+strings.Join(la.Names(held&^topIfTop(held)), ",")+"}")
					}
				}
			}
		}
		// atomically accessed fields
		for _, name := range []string{"netConn.readExpired", "netConn.writeExpired", "Conn.pingCounter"} {
			f := p.Field(name)
			if f == nil {
				continue
			}
			for _, fa := range p.FieldAccesses(f) {
				root := fa.Fn
				for root.Parent() != nil {
					root = root.Parent()
				}
				okAtomic := true
				fai, _ := fa.Instr.(*ssa.FieldAddr)
				if fa.Write && !fa.Read && constructorFns[p.FuncName(root)] {
					continue // initialised before the object is published
				}
				if fai == nil || fa.Read || fa.Write {
					okAtomic = false
				} else {
					for _, ref := range *fai.Referrers() {
						ci, isCall := ref.(ssa.CallInstruction)
						if _, isDbg := ref.(*ssa.DebugRef); isDbg {
							continue
						}
						if !isCall {
							okAtomic = false
							continue
						}
						callee, nm := p.calleeOf(ci.Common())
						if !strings.HasPrefix(nm, "atomic.") && !strings.HasPrefix(nm, "(*atomic.") && !strings.HasPrefix(nm, "(*sync/atomic.") {
							// the address handed to a library helper that itself only passes it to sync/atomic
							if !(callee != nil && p.isLib(callee) && atomicOnlyParam(p, callee, ci.Common().Args, fai)) {
								okAtomic = false
							}
						}
					}
				}
				r.Check(rule+".atomic", p.FuncName(fa.Fn), name, p.InstrPos(fa.Instr), okAtomic, name+" is accessed only through sync/atomic", fmt.Sprintf("read=%v write=%v", fa.Read, fa.Write))
			}
		}
	}
	r.Floor(rule, 1)
}

func c05emitlock(p *Program, r *Report, env *lockEnv, rule string) {
	la := env.la
	n := 0
	for _, cs := range emitterSites(p) {
		fname := p.FuncName(cs.Fn)
		isEmitter := false
		for _, owner := range p.siteOwners(cs.Fn) {
			switch owner {
			case "Conn.writeFrame", "Conn.writeFramePayload", "writeFrameHeader":
				isEmitter = true
			}
		}
		if !isEmitter {
			continue
		}
		n++
		held := la.HeldAt(cs.Instr)
		ok := held == topLocks || la.Has(held, "Conn.writeFrameMu")
		r.Check(rule, fname, cs.Name, p.InstrPos(cs.Instr), ok, "every emission to the transport happens with Conn.writeFrameMu held", "held: {"+strings.Join(la.Names(held&^topIfTop(held)), ",")+"}")
	}
	r.Floor(rule, 6)
	// only the deferred release inside writeFrame
	wf := p.Func("Conn.writeFrame")
	nrel := 0
	for _, op := range la.releases {
		if wf != nil && p.FuncName(op.Fn) == "Conn.writeFrame" && op.Lock == "Conn.writeFrameMu" {
			nrel++
			r.Check(rule+".section", "Conn.writeFrame", "release of writeFrameMu", p.InstrPos(op.Instr), op.Defer, "writeFrame releases writeFrameMu only through its deferred unlock: header, payload and flush are one uninterrupted critical section", fmt.Sprintf("deferred=%v", op.Defer))
		}
	}
	if wf != nil && nrel == 0 {
		r.Check(rule+".section", "Conn.writeFrame", "release of writeFrameMu", p.FuncPos(wf), false, "writeFrame releases writeFrameMu by a deferred unlock", "no release found")
	}
	// the acquisition precedes everything else: entry of the helpers holds the lock
	for _, name := range []string{"Conn.writeFramePayload", "writeFrameHeader"} {
		if fn := p.FuncOpt(name); fn != nil {
			ok := la.Has(la.entry[fn], "Conn.writeFrameMu")
			r.Check(rule+".entry", name, "held on entry", p.FuncPos(fn), ok, name+" is entered only with writeFrameMu held", "entry: {"+la.EntryNames(fn)+"}")
		}
	}
}

var pairExceptions = map[string]string{
	"msgWriter.Close|msgWriter.mu": "ownership of the message lock is handed over by msgWriter.reset (Writer/Write) and released by Close across API calls; covered by C05.msglock",
	"mu.lock|param:m":              "release after the closed re-check of the very acquisition made by the select in the same function",
	"mu.unlock|param:m":            "primitive",
}

func c05pair(p *Program, r *Report, env *lockEnv, rule string) {
	la := env.la
	ops := append([]lockOp{}, la.releases...)
	sort.Slice(ops, func(i, j int) bool { return p.InstrPos(ops[i].Instr) < p.InstrPos(ops[j].Instr) })
	for _, op := range ops {
		fname := p.FuncName(op.Fn)
		held := la.HeldAt(op.Instr)
		ok := held == topLocks || la.Has(held, op.Lock)
		detail := "held: {" + strings.Join(la.Names(held&^topIfTop(held)), ",") + "}"
		if !ok {
			if reason, ex := pairExceptions[fname+"|"+op.Lock]; ex {
				ok = true
				detail = "frozen exception: " + reason
			}
		}
		kind := "unlock"
		if op.Defer {
			kind = "defer unlock"
		}
		r.UseFunc(fname)
		r.Check(rule, fname, kind+" "+op.Lock, p.InstrPos(op.Instr), ok, "a lock is released only where the releasing path holds it (acquired in the same function, held on entry from every caller, or handed over by a returns-holding callee)", detail)
	}
	r.Floor(rule, 10)
	// functions that release a lock they did not acquire must be known release wrappers
	for _, fn := range p.Funcs {
		if la.rel[fn] == 0 {
			continue
		}
		fname := p.FuncName(fn)
		for _, l := range la.Names(la.rel[fn]) {
			if strings.HasPrefix(l, "param:") {
				continue
			}
			// msgWriterHandle.Close only forwards to msgWriter.Close (checked by C05.msglock: the handle closes once)
			allowed := map[string]bool{"Conn.readUnlock|Conn.readMu": true, "msgWriter.Close|msgWriter.mu": true, "msgWriterHandle.Close|msgWriter.mu": true}
			r.Check(rule+".wrapper", fname, "releases "+l+" for its caller", p.FuncPos(fn), allowed[fname+"|"+l],
				"only the designated release wrappers (Conn.readUnlock for readMu, msgWriter.Close for the message lock) release a lock they did not acquire; any other function doing so takes the lock away from a caller that still uses the guarded state",
				fname+" releases "+l+" without acquiring it; its callers lose the lock at the call site")
		}
	}
}

func c05msglock(p *Program, r *Report, rule string) {
	// acquisition sites of msgWriter.mu
	reset := p.Func("msgWriter.reset")
	for _, cs := range p.CallSites() {
		switch cs.Name {
		case "mu.lock", "mu.forceLock", "mu.tryLock":
			if f := p.FieldOpt("msgWriter.mu"); f != nil && derivesFromField(cs.Instr.Common().Args[0], f) {
				r.Check(rule+".acquire", p.FuncName(cs.Fn), cs.Name+"(msgWriter.mu)", p.InstrPos(cs.Instr), reset != nil && p.FuncName(cs.Fn) == "msgWriter.reset" && cs.Name == "mu.lock", "the message lock is acquired only by msgWriter.reset", "acquired in "+p.FuncName(cs.Fn))
			}
		}
	}
	r.Floor(rule+".acquire", 1)
	// reset acquires before touching writer state
	if reset != nil {
		p.forAllPaths(r, rule+".reset", reset, "state written after acquisition", Opts{}, "msgWriter.reset stores message state (ctx, opcode, flate, closed) only after mu.lock succeeded, and returns nil only then", func(pa *Path) (bool, string) {
			ok, known := decidedLike(pa, "call:mu.lock@@ == nil")
			stores := 0
			for _, e := range pa.Events {
				if e.Kind == "store" && strings.HasPrefix(e.AddrK, "msgWriter.") {
					stores++
				}
			}
			if !known {
				return false, "lock result not tested"
			}
			if !ok && (stores > 0 || retErr(pa) != "nonnil") {
				return false, "state touched or nil returned although the lock was not acquired"
			}
			if ok && stores < 3 {
				return false, "message state not reset"
			}
			return true, ""
		})
	}
	// releases are preceded by a fin frame
	for _, name := range []string{"msgWriter.Close", "Conn.write"} {
		fn := p.Func(name)
		if fn == nil {
			continue
		}
		p.forAllPaths(r, rule+".release", fn, "message lock released only after a final frame", Opts{Inline: p.inlineSet("Conn.flate")},
			"every release of msgWriter.mu is preceded on the path by writeFrame(fin=true) with the writer's opcode (in msgWriter.Close: on its nil-error edge); so between a message's first and final frame no other message can emit a data frame", func(pa *Path) (bool, string) {
				for i, e := range pa.Events {
					if isCall(e, "mu.unlock") && argKey(e, 0) == "msgWriter.mu" {
						fi := -1
						for j := 0; j < i; j++ {
							x := pa.Events[j]
							if isCall(x, "Conn.writeFrame") {
								if b, ok := avBool(x.Args[2]); ok && b {
									fi = j
								}
							}
						}
						if fi < 0 {
							return false, "unlock of msgWriter.mu without a preceding writeFrame(fin=true)"
						}
						if name == "msgWriter.Close" {
							if ok, known := decidedLike(pa, "call:Conn.writeFrame@@#1 == nil"); !known || !ok {
								return false, "unlock although the final frame failed"
							}
						}
					}
				}
				return true, ""
			})
	}
	// data-frame writeFrame call sites
	if wf := p.Func("Conn.writeFrame"); wf != nil {
		for _, cs := range p.CallersOf(wf) {
			caller := p.FuncName(cs.Fn)
			ok := map[string]bool{"Conn.write": true, "msgWriter.write": true, "msgWriter.Close": true, "Conn.writeControl": true}[caller]
			r.Exists(rule+".callers", caller, "writeFrame", p.InstrPos(cs.Instr), ok, "writeFrame is called only by Conn.write, msgWriter.write, msgWriter.Close (data) and writeControl (control)", caller)
		}
	}
	// msgWriter.Write / Close serialise on writeMu and check closed under it
	for _, name := range []string{"msgWriter.Write", "msgWriter.Close"} {
		fn := p.Func(name)
		if fn == nil {
			continue
		}
		p.forAllPaths(r, rule+".writeMu", fn, "writeMu held around frame emission", Opts{Inline: p.inlineSet("Conn.flate")},
			"msgWriter.Write/Close emit frames (directly or through the flate writer) only after mw.writeMu.lock succeeded and the writer was found not closed", func(pa *Path) (bool, string) {
				li := eventIndex(pa, 0, func(e *Event) bool { return isCall(e, "mu.lock") && argKey(e, 0) == "msgWriter.writeMu" })
				for i, e := range pa.Events {
					if isCall(e, "Conn.writeFrame", "msgWriter.write", "(*flate.Writer).Write", "(*flate.Writer).Flush") {
						if li < 0 || li > i {
							return false, e.Callee + " before writeMu.lock"
						}
						if ok, known := decidedLike(pa, "call:mu.lock@@ == nil"); !known || !ok {
							return false, e.Callee + " although writeMu was not acquired"
						}
						if c, known := decidedLike(pa, "msgWriter.closed"); !known || c {
							if c2, k2 := pa.Decided("msgWriter.closed"); !k2 || c2 {
								return false, e.Callee + " on a closed writer"
							}
						}
					}
				}
				return true, ""
			})
	}
}

func c05closeorder(p *Program, r *Report, rule string) {
	ct := p.FuncOpt("Conn.closeTransport")
	cl := p.Func("Conn.close")
	if cl == nil {
		return
	}
	target := ct
	mutex := "&Conn.closedMu"
	if ct == nil {
		target = cl
		mutex = "&Conn.closeMu"
	}
	p.forAllPaths(r, rule, target, "closed before rwc.Close, once", Opts{Inline: p.inlineSet("Conn.isClosed")},
		"close(c.closed) happens exactly when the connection was found open, under the mutex, and precedes rwc.Close(); a closed connection is left untouched", func(pa *Path) (bool, string) {
			li := eventIndex(pa, 0, func(e *Event) bool { return isCall(e, "(*sync.Mutex).Lock") && argKey(e, 0) == mutex })
			ci := eventIndex(pa, 0, func(e *Event) bool { return isCall(e, "builtin close") && argKey(e, 0) == "Conn.closed" })
			ri := eventIndex(pa, 0, func(e *Event) bool { return isCall(e, "invoke io.ReadWriteCloser.Close") })
			// the poll of closed
			polledOpen := false
			for _, e := range pa.Events {
				if e.Kind == "select" && !e.Blocking && e.Case == -1 {
					polledOpen = true
				}
			}
			if ci >= 0 {
				if li < 0 || li > ci {
					return false, "close(c.closed) outside " + mutex
				}
				if !polledOpen {
					return false, "close(c.closed) without finding the connection open (double close panics)"
				}
				if ri < 0 || ri < ci {
					return false, "rwc.Close() missing or before close(c.closed)"
				}
				return true, ""
			}
			if ri >= 0 {
				return false, "rwc.Close() without close(c.closed)"
			}
			return true, ""
		})
	// teardown order in close()
	p.forAllPaths(r, rule+".teardown", cl, "teardown after transport close, once", Opts{Inline: p.inlineSet("Conn.isClosed")},
		"close() releases the writer/reader resources only after the transport was closed, at most once (released flag / closed poll under closeMu)", func(pa *Path) (bool, string) {
			li := eventIndex(pa, 0, func(e *Event) bool { return isCall(e, "(*sync.Mutex).Lock") && argKey(e, 0) == "&Conn.closeMu" })
			wi := eventIndex(pa, 0, func(e *Event) bool { return isCall(e, "msgWriter.close") })
			mi := eventIndex(pa, 0, func(e *Event) bool { return isCall(e, "msgReader.close") })
			ti := eventIndex(pa, 0, func(e *Event) bool {
				return isCall(e, "Conn.closeTransport", "invoke io.ReadWriteCloser.Close")
			})
			if wi < 0 && mi < 0 {
				return true, ""
			}
			if wi < 0 || mi < 0 {
				return false, "only one of msgWriter.close / msgReader.close is called"
			}
			if li < 0 || li > wi || li > mi {
				return false, "teardown outside closeMu"
			}
			if ti < 0 || ti > wi || ti > mi {
				return false, "teardown before the transport close"
			}
			// once: a flag/poll decided
			once := false
			for _, d := range pa.Decisions {
				if d.Key == "Conn.released" && !d.Val {
					once = true
				}
			}
			for _, e := range pa.Events {
				if e.Kind == "select" && !e.Blocking && e.Case == -1 {
					once = true
				}
			}
			if !once {
				return false, "teardown not protected against running twice"
			}
			return true, ""
		})
}

// c05noreacquire: a call made while holding channel mutex L must not synchronously reach an acquisition of L.
func c05noreacquire(p *Program, r *Report, env *lockEnv, rule string) {
	la, cg := env.la, env.cg
	// direct acquisitions per function
	direct := map[*ssa.Function]lockset{}
	for _, fn := range p.Funcs {
		for _, b := range fn.Blocks {
			for _, in := range b.Instrs {
				ci, ok := in.(ssa.CallInstruction)
				if !ok {
					continue
				}
				if _, isGo := in.(*ssa.Go); isGo {
					continue
				}
				if f, ok := ci.Common().Value.(*ssa.Function); ok {
					switch la.primitive(f) {
					case opAcquire, opAcquireOnNil:
						if k := la.lockKey(ci.Common().Args[0]); k != "" && !strings.HasPrefix(k, "param:") && !strings.HasPrefix(k, "G:") {
							direct[fn] |= la.bit(k)
							if _, isDefer := in.(*ssa.Defer); !isDefer {
								if h := la.HeldAt(in); h != topLocks && la.Has(h, k) {
									r.Check(rule, p.FuncName(fn), "acquire "+k+" while holding it", p.InstrPos(in), false,
										"no call made while holding a non-reentrant mutex synchronously reaches an acquisition of the same mutex", p.FuncName(fn)+" acquires "+k+" which it already holds")
								}
							}
						}
					}
				}
			}
		}
	}
	// transitive closure over synchronous edges
	reach := map[*ssa.Function]lockset{}
	for fn, d := range direct {
		reach[fn] = d
	}
	for changed := true; changed; {
		changed = false
		for _, fn := range p.Funcs {
			cur := reach[fn]
			for _, e := range cg.Edges[fn] {
				if e.Async {
					continue
				}
				cur |= reach[e.To]
			}
			if cur != reach[fn] {
				reach[fn] = cur
				changed = true
			}
		}
	}
	n := 0
	chan_ := func(name string) bool {
		return name == "Conn.readMu" || name == "Conn.writeFrameMu" || name == "msgWriter.writeMu" || name == "msgWriter.mu" || name == "netConn.readMu" || name == "netConn.writeMu" ||
			name == "Conn.closeMu" || name == "Conn.closedMu" || name == "Conn.activePingsMu" || name == "Conn.closeReadMu"
	}
	for _, fn := range p.Funcs {
		for _, e := range cg.Edges[fn] {
			if e.Async {
				continue
			}
			held := la.HeldAt(e.Site)
			if e.Defer {
				held = la.exitAll[fn]
			}
			if held == topLocks {
				continue
			}
			// a callee that releases l for its caller (a release wrapper, or a helper extracted from one) is entered with l held
			// by design; what it reaches while it still holds l is examined at its own call edges and acquisitions
			bad := held & reach[e.To] &^ la.rel[e.To]
			if bad == 0 {
				n++
				continue
			}
			for _, l := range la.Names(bad) {
				if !chan_(l) {
					continue
				}
				// witness path
				path := cg.Reach(e.To, func(f *ssa.Function) bool { return la.Has(direct[f], l) }, nil)
				w := p.FuncName(e.To)
				if la.Has(direct[e.To], l) {
					w += " (acquires " + l + ")"
				} else if path != nil {
					w = cg.PathString(path) + " (acquires " + l + ")"
				}
				r.Check(rule, p.FuncName(fn), "call "+p.FuncName(e.To)+" holding "+l, p.InstrPos(e.Site), false,
					"no call made while holding a non-reentrant mutex synchronously reaches an acquisition of the same mutex", p.FuncName(fn)+" holds "+l+" and calls "+w)
			}
		}
	}
	r.Check(rule, "library", "all synchronous call edges", "-", true, "no call made while holding a non-reentrant mutex synchronously reaches an acquisition of the same mutex", fmt.Sprintf("%d call edges examined against the transitive acquisition sets", n))
}

// ---- C07.funnel (shared): callback fields are written only with known values -------------------------------------------

func c07funnel(p *Program, r *Report, rule string) {
	type spec struct {
		field string
		ok    func(fa fieldAccess) (bool, string)
	}
	isFieldLoad := func(v ssa.Value, name string) bool {
		f := p.FieldOpt(name)
		return f != nil && derivesFromField(v, f)
	}
	valOf := func(fa fieldAccess) ssa.Value {
		v := fa.Store.Val
		for {
			switch x := v.(type) {
			case *ssa.MakeInterface:
				v = x.X
				continue
			case *ssa.ChangeInterface:
				v = x.X
				continue
			case *ssa.ChangeType:
				v = x.X
				continue
			}
			return v
		}
	}
	specs := []spec{
		{"msgReader.readFunc", func(fa fieldAccess) (bool, string) {
			// bound method value mr.read
			if mc, ok := valOf(fa).(*ssa.MakeClosure); ok {
				if fn, ok := mc.Fn.(*ssa.Function); ok && strings.HasPrefix(fn.Name(), "read$bound") {
					return p.FuncName(fa.Fn) == "newMsgReader", "bound method value " + fn.Name()
				}
			}
			return false, valOf(fa).String()
		}},
		{"limitReader.r", func(fa fieldAccess) (bool, string) {
			v := valOf(fa)
			fname := p.FuncName(fa.Fn)
			switch {
			case fname == "limitReader.reset":
				_, isParam := v.(*ssa.Parameter)
				return isParam, "parameter r of reset (callers checked below)"
			case isFieldLoad(v, "msgReader.readFunc"):
				return true, "mr.readFunc"
			case isFieldLoad(v, "msgReader.flateReader"):
				return fname == "msgReader.resetFlate", "mr.flateReader (source flateBufio ← readFunc)"
			}
			return false, v.String()
		}},
		{"trimLastFourBytesWriter.w", func(fa fieldAccess) (bool, string) {
			v := valOf(fa)
			if mc, ok := v.(*ssa.MakeClosure); ok {
				if fn, ok := mc.Fn.(*ssa.Function); ok && strings.HasPrefix(fn.Name(), "write$bound") {
					return p.FuncName(fa.Fn) == "msgWriter.ensureFlate", "util.WriterFunc(mw.write)"
				}
			}
			return false, v.String()
		}},
	}
	for _, s := range specs {
		f := p.Field(s.field)
		if f == nil {
			continue
		}
		n := 0
		for _, fa := range p.FieldAccesses(f) {
			if fa.Addr {
				r.Check(rule, p.FuncName(fa.Fn), s.field+" address escapes", p.InstrPos(fa.Instr), false, "callback field "+s.field+" is only loaded and stored directly", "address taken")
			}
			if !fa.Write {
				continue
			}
			n++
			ok, d := s.ok(fa)
			r.Check(rule, p.FuncName(fa.Fn), "store "+s.field, p.InstrPos(fa.Instr), ok, "callback field "+s.field+" is assigned only the known library callbacks (so the analysis' callback edges are complete)", d)
		}
		if n == 0 {
			r.Undecide("%s: no store to %s found", rule, s.field)
		}
	}
	// limitReader.reset callers pass readFunc
	if fn := p.Func("limitReader.reset"); fn != nil {
		for _, cs := range p.CallersOf(fn) {
			a := cs.Instr.Common().Args[1]
			v := a
			if mi, ok := v.(*ssa.MakeInterface); ok {
				v = mi.X
			}
			ok := isFieldLoad(v, "msgReader.readFunc")
			if pr, isP := v.(*ssa.Parameter); isP && p.FuncName(cs.Fn) == "newLimitReader" {
				_ = pr
				ok = true
			}
			r.Check(rule, p.FuncName(cs.Fn), "limitReader.reset(r)", p.InstrPos(cs.Instr), ok, "limitReader.reset is called with mr.readFunc", a.String())
		}
	}
	if fn := p.Func("newLimitReader"); fn != nil {
		for _, cs := range p.CallersOf(fn) {
			a := cs.Instr.Common().Args[1]
			if mi, ok := a.(*ssa.MakeInterface); ok {
				a = mi.X
			}
			r.Check(rule, p.FuncName(cs.Fn), "newLimitReader(r)", p.InstrPos(cs.Instr), isFieldLoad(a, "msgReader.readFunc"), "newLimitReader is called with mr.readFunc", a.String())
		}
	}
	// the bufio reader / flate reader sources
	for _, cs := range p.CallSites() {
		fname := p.FuncName(cs.Fn)
		switch cs.Name {
		case "getBufioReader":
			if fname == "msgReader.resetFlate" {
				a := cs.Instr.Common().Args[0]
				if mi, ok := a.(*ssa.MakeInterface); ok {
					a = mi.X
				}
				r.Check(rule, fname, "getBufioReader(src)", p.InstrPos(cs.Instr), isFieldLoad(a, "msgReader.readFunc"), "the flate bufio reader reads from mr.readFunc (the frame reader)", a.String())
			}
		case "getFlateReader":
			a := cs.Instr.Common().Args[0]
			if mi, ok := a.(*ssa.MakeInterface); ok {
				a = mi.X
			}
			r.Check(rule, fname, "getFlateReader(src)", p.InstrPos(cs.Instr), isFieldLoad(a, "msgReader.flateBufio"), "the flate reader reads from mr.flateBufio", a.String())
		case "getFlateWriter":
			a := cs.Instr.Common().Args[0]
			if mi, ok := a.(*ssa.MakeInterface); ok {
				a = mi.X
			}
			r.Check(rule, fname, "getFlateWriter(dst)", p.InstrPos(cs.Instr), isFieldLoad(a, "msgWriter.trimWriter"), "the flate writer writes into mw.trimWriter", a.String())
		}
	}
	_ = types.Typ
}

// c05leaf: leaf mutexes (short critical sections around a map / a flag) are never held across a call
// into the library: such a call may block on the transport or on another lock, and the other users
// of the mutex (e.g. the pong handler in the read loop) would block with it.
var leafMutexes = map[string]bool{"Conn.activePingsMu": true, "Conn.closeReadMu": true, "Conn.closedMu": true, "G:swPoolMu": true}
var leafAllowedCallees = map[string]bool{"Conn.isClosed": true}

func c05leaf(p *Program, r *Report, env *lockEnv, rule string) {
	la, cg := env.la, env.cg
	n := 0
	for _, fn := range p.Funcs {
		for _, e := range cg.Edges[fn] {
			if e.Async || e.Defer {
				continue
			}
			held := la.HeldAt(e.Site)
			if held == topLocks {
				continue
			}
			for _, l := range la.Names(held) {
				if !leafMutexes[l] {
					continue
				}
				n++
				callee := p.FuncName(e.To)
				r.Check(rule, p.FuncName(fn), "call "+callee+" holding "+l, p.InstrPos(e.Site), leafAllowedCallees[callee],
					l+" guards a short critical section; no library function (which may block on the transport, a lock or a channel) is called while it is held", p.FuncName(fn)+" calls "+callee+" while holding "+l)
			}
		}
		// blocking channel operations / selects while holding a leaf mutex
		for _, b := range p.blocksOf(fn) {
			for _, in := range b.Instrs {
				blocking := false
				switch x := in.(type) {
				case *ssa.Select:
					blocking = x.Blocking
				case *ssa.Send:
					blocking = true
				}
				if !blocking {
					continue
				}
				held := la.HeldAt(in)
				if held == topLocks {
					continue
				}
				for _, l := range la.Names(held) {
					if leafMutexes[l] {
						r.Check(rule, p.FuncName(fn), "blocking channel operation holding "+l, p.InstrPos(in), false, "no blocking channel operation while a leaf mutex is held", l)
					}
				}
			}
		}
	}
	r.Check(rule, "library", "leaf mutex critical sections", "-", true, "leaf mutexes are not held across library calls", fmt.Sprintf("%d call(s) made under a leaf mutex examined", n))
}

// c05leak: a function does not return while still holding a lock it acquired itself, except the
// designated hand-over (msgWriter.reset) and the terminal acquisitions of the teardown.
var leakAllowed = map[string]string{
	"msgWriter.reset|msgWriter.mu":     "returns holding the message lock on success: handed over to the Writer's Close / Conn.write",
	"msgReader.close|Conn.readMu":      "terminal acquisition: the reader's resources are released and the lock is never given back",
	"msgWriter.close|Conn.writeFrameMu": "terminal acquisition on teardown",
	"msgWriter.close|msgWriter.writeMu": "terminal acquisition on teardown",
	"mu.lock|param:m":                  "primitive",
	"mu.forceLock|param:m":             "primitive",
	"mu.tryLock|param:m":               "primitive",
}

func c05leak(p *Program, r *Report, env *lockEnv, rule string) {
	la := env.la
	n := 0
	for _, fn := range p.Funcs {
		prim := la.primitiveAcq(fn)
		if prim == 0 {
			continue
		}
		fname := p.FuncName(fn)
		n++
		bad := ""
		pos := p.FuncPos(fn)
		for ret, ls := range la.leaks[fn] {
			for _, l := range la.Names(ls) {
				if _, ok := leakAllowed[fname+"|"+l]; ok {
					continue
				}
				bad += fmt.Sprintf("return at %s still holds %s; ", p.InstrPos(ret), l)
				pos = p.InstrPos(ret)
			}
		}
		r.UseFunc(fname)
		r.Check(rule, fname, "every acquired lock is released before returning", pos, bad == "",
			"a function that acquires a mutex releases it (directly, by defer, or through the designated release wrapper) on every return path; a leaked channel mutex makes the next acquirer — in particular close()'s forceLock — block forever",
			firstNonEmpty(bad, "locks acquired here: {"+strings.Join(la.Names(prim), ",")+"}; all released on every return"))
	}
	r.Floor(rule, 10)
}

// atomicOnlyParam: the parameter of callee that receives addr is used for nothing but calls of sync/atomic functions.
func atomicOnlyParam(p *Program, callee *ssa.Function, args []ssa.Value, addr ssa.Value) bool {
	found := false
	for i, a := range args {
		if a != addr || i >= len(callee.Params) {
			continue
		}
		found = true
		refs := callee.Params[i].Referrers()
		if refs == nil {
			return false
		}
		for _, ref := range *refs {
			if _, isDbg := ref.(*ssa.DebugRef); isDbg {
				continue
			}
			ci, ok := ref.(ssa.CallInstruction)
			if !ok {
				return false
			}
			_, nm := p.calleeOf(ci.Common())
			if !strings.HasPrefix(nm, "atomic.") {
				return false
			}
		}
	}
	return found
}
