package main

// Helpers shared by the rule files: site enumeration over the resolved program (E1),
// decision-table comparison (E4 driver), path-invariant driver (E3), key patterns.

import (
	"fmt"
	"go/constant"
	"go/token"
	"go/types"
	"regexp"
	"sort"
	"strings"

	"golang.org/x/tools/go/ssa"
)

// ---- key patterns ------------------------------------------------------------------------

var patCache = map[string]*regexp.Regexp{}

// pat compiles a key pattern: literal text, "@@" = any call-site id, "__" = anything.
func pat(s string) *regexp.Regexp {
	if r, ok := patCache[s]; ok {
		return r
	}
	q := regexp.QuoteMeta(s)
	q = strings.ReplaceAll(q, "@@", `@[^#, ()]*`)
	q = strings.ReplaceAll(q, "__", `.*?`)
	r := regexp.MustCompile("^" + q + "$")
	patCache[s] = r
	return r
}

func keyIs(a AV, pattern string) bool {
	if a == nil {
		return false
	}
	return pat(pattern).MatchString(a.Key())
}

func keyHas(a AV, sub string) bool {
	if a == nil {
		return false
	}
	return strings.Contains(a.Key(), sub)
}

// ---- E1: site enumeration ------------------------------------------------------------------

type callSite struct {
	Fn     *ssa.Function   // containing function
	Instr  ssa.CallInstruction
	Callee *ssa.Function   // static callee (nil for interface/dynamic)
	Name   string          // callee name (short for lib, qualified otherwise, "invoke T.M")
	Kind   string          // call, go, defer
}

func (p *Program) calleeOf(cc *ssa.CallCommon) (*ssa.Function, string) {
	if cc.IsInvoke() {
		return nil, "invoke " + typeString(cc.Value.Type()) + "." + cc.Method.Name()
	}
	switch v := cc.Value.(type) {
	case *ssa.Function:
		return v, p.anyFuncName(v)
	case *ssa.Builtin:
		return nil, "builtin " + v.Name()
	case *ssa.MakeClosure:
		f := v.Fn.(*ssa.Function)
		return f, p.anyFuncName(f)
	}
	return nil, "dyn"
}

func (p *Program) anyFuncName(fn *ssa.Function) string {
	if p.isLib(fn) {
		if fn.Parent() != nil {
			return p.FuncName(fn) // closures keep the name of the function their code belongs to
		}
		return p.rawName(fn) // callee names are the functions' own names (a call into a helper is not a call of its owner)
	}
	return qualName(fn)
}

// CallSites lists every call/go/defer instruction in the library.
func (p *Program) CallSites() []callSite {
	var out []callSite
	for _, fn := range p.Funcs {
		for _, b := range fn.Blocks {
			for _, in := range b.Instrs {
				ci, ok := in.(ssa.CallInstruction)
				if !ok {
					continue
				}
				callee, name := p.calleeOf(ci.Common())
				kind := "call"
				switch in.(type) {
				case *ssa.Go:
					kind = "go"
				case *ssa.Defer:
					kind = "defer"
				}
				out = append(out, callSite{Fn: fn, Instr: ci, Callee: callee, Name: name, Kind: kind})
			}
		}
	}
	return out
}

// CallersOf lists the call sites whose static callee is fn.
func (p *Program) CallersOf(fn *ssa.Function) []callSite {
	var out []callSite
	for _, cs := range p.CallSites() {
		if cs.Callee == fn {
			out = append(out, cs)
		}
	}
	return out
}

// siteOwners attributes a site found in fn to rule anchors: fn itself when it is a function of the
// reference tree, otherwise (an extracted helper) the known functions that call it, transitively.
func (p *Program) siteOwners(fn *ssa.Function) []string {
	seen := map[*ssa.Function]bool{}
	out := map[string]bool{}
	var rec func(f *ssa.Function)
	rec = func(f *ssa.Function) {
		if seen[f] {
			return
		}
		seen[f] = true
		name := p.rawName(f)
		if knownFuncs[name] || f.Parent() != nil {
			out[name] = true
			return
		}
		callers := p.CallersOf(f)
		if len(callers) == 0 {
			out[name] = true
			return
		}
		for _, cs := range callers {
			rec(cs.Fn)
		}
	}
	rec(fn)
	return sortedKeys(out)
}

// fieldOf resolves the field accessed by a FieldAddr / Field instruction.
func fieldOf(v ssa.Value) *types.Var {
	switch x := v.(type) {
	case *ssa.FieldAddr:
		st := derefType(x.X.Type()).Underlying().(*types.Struct)
		return st.Field(x.Field)
	case *ssa.Field:
		st := x.X.Type().Underlying().(*types.Struct)
		return st.Field(x.Field)
	}
	return nil
}

// fieldAlias: struct fields renamed w.r.t. the reference tree answer to their old name (see resolveFieldRenames).
var fieldAlias = map[*types.Var]string{}

func fieldName(v *types.Var) string {
	if v == nil {
		return ""
	}
	if n, ok := fieldAlias[v]; ok {
		return n
	}
	return v.Name()
}

// varAlias: parameters and captured variables renamed w.r.t. the reference tree answer to their old name
// (matched by function, position and type; see resolveParamRenames).
var varAlias = map[ssa.Value]string{}

func paramName(v ssa.Value) string {
	if n, ok := varAlias[v]; ok {
		return n
	}
	return v.Name()
}

type fieldAccess struct {
	Fn    *ssa.Function
	Instr ssa.Instruction // the FieldAddr / Field instruction
	Field *types.Var
	Write bool // a Store whose address is this FieldAddr
	Read  bool // a load of it
	Addr  bool // address escapes into something else (call arg, slice, …)
	Store *ssa.Store
}

// FieldAccesses lists all accesses to the given field in the library.
func (p *Program) FieldAccesses(f *types.Var) []fieldAccess {
	var out []fieldAccess
	for _, fn := range p.Funcs {
		for _, b := range fn.Blocks {
			for _, in := range b.Instrs {
				switch x := in.(type) {
				case *ssa.FieldAddr:
					if fieldOf(x) != f {
						continue
					}
					if g := sharedGroupField[f]; g != nil {
						// f belongs to a type that T embeds and that is also used on its own: only T's copy counts
						if outer, ok := x.X.(*ssa.FieldAddr); !ok || fieldOf(outer) != g {
							continue
						}
					}
					fa := fieldAccess{Fn: fn, Instr: x, Field: f}
					for _, ref := range *x.Referrers() {
						switch r := ref.(type) {
						case *ssa.Store:
							if r.Addr == x {
								fa.Write = true
								fa.Store = r
							} else {
								fa.Addr = true
							}
						case *ssa.UnOp:
							if r.Op == token.MUL {
								fa.Read = true
							}
						case *ssa.DebugRef:
						default:
							fa.Addr = true
						}
					}
					out = append(out, fa)
				case *ssa.Field:
					if fieldOf(x) == f {
						out = append(out, fieldAccess{Fn: fn, Instr: x, Field: f, Read: true})
					}
				}
			}
		}
	}
	return out
}

// ---- values that are never nil --------------------------------------------------------------------------------------
//
// A nil test on a value that cannot be nil is dead code whichever way it is written; the engines decide it instead of
// forking, so that a defensive `if c.msgWriter != nil` or `if copts == nil { return … }` reads like the code without it.
//   - a library function never returns nil in result i when every return hands out a fresh allocation (&T{…}, make, a
//     closure) or the result of such a function;
//   - a struct field is never nil when every store to it writes such a value into an object that the storing function
//     has just allocated itself (a constructor), and its address is never taken.
// Inside the constructors themselves the field may still be unset: the fact is not used there.

func (p *Program) freshNonNil(v ssa.Value, depth int) bool {
	switch x := v.(type) {
	case *ssa.Alloc:
		return true
	case *ssa.UnOp:
		// the value of a field that is itself never nil, read outside its constructors (second pass of neverNilFields)
		if fa, ok := x.X.(*ssa.FieldAddr); ok && x.Op == token.MUL && p.nnFieldVars != nil {
			if ctors, ok := p.nnFieldVars[fieldOf(fa)]; ok && !ctors[x.Parent()] {
				return true
			}
		}
	case *ssa.MakeMap, *ssa.MakeChan, *ssa.MakeSlice, *ssa.MakeClosure:
		return true
	case *ssa.ChangeType:
		return p.freshNonNil(x.X, depth)
	case *ssa.MakeInterface:
		return p.freshNonNil(x.X, depth)
	case *ssa.Call:
		if f := x.Call.StaticCallee(); f != nil && p.isLib(f) && depth < 4 {
			return p.neverNilResult(f, 0, depth+1)
		}
	case *ssa.Extract:
		if c, ok := x.Tuple.(*ssa.Call); ok {
			if f := c.Call.StaticCallee(); f != nil && p.isLib(f) && depth < 4 {
				return p.neverNilResult(f, x.Index, depth+1)
			}
		}
	}
	return false
}

var neverNilResCache = map[*ssa.Function]map[int]bool{}

func (p *Program) neverNilResult(fn *ssa.Function, idx int, depth int) bool {
	if m, ok := neverNilResCache[fn]; ok {
		if v, ok := m[idx]; ok {
			return v
		}
	} else {
		neverNilResCache[fn] = map[int]bool{}
	}
	neverNilResCache[fn][idx] = false // cycles
	if len(fn.Blocks) == 0 || idx >= fn.Signature.Results().Len() {
		return false
	}
	n := 0
	for _, b := range fn.Blocks {
		ret, ok := b.Instrs[len(b.Instrs)-1].(*ssa.Return)
		if !ok {
			continue
		}
		n++
		if idx >= len(ret.Results) || !p.freshNonNil(ret.Results[idx], depth) {
			return false
		}
	}
	neverNilResCache[fn][idx] = n > 0
	return n > 0
}

// neverNilFields: field key ("Conn.msgWriter") ↦ the constructors that initialise it.
func (p *Program) neverNilFields() map[string]map[*ssa.Function]bool {
	if p.nnFields != nil {
		return p.nnFields
	}
	p.nnFields = map[string]map[*ssa.Function]bool{}
	pass := p.nnPass
	vars := map[*types.Var]map[*ssa.Function]bool{}
	p.structFields(func(key string, typ string, f *types.Var, idx int) {
		switch f.Type().Underlying().(type) {
		case *types.Pointer, *types.Map, *types.Chan, *types.Slice, *types.Signature, *types.Interface:
		default:
			return
		}
		ctors := map[*ssa.Function]bool{}
		ok := false
		for _, fa := range p.FieldAccesses(f) {
			if fa.Addr {
				return
			}
			if !fa.Write {
				continue
			}
			x, isFA := fa.Instr.(*ssa.FieldAddr)
			if !isFA || fa.Store == nil {
				return
			}
			if _, fresh := x.X.(*ssa.Alloc); !fresh || !p.freshNonNil(fa.Store.Val, 0) {
				return
			}
			ctors[fa.Fn] = true
			ok = true
		}
		if ok {
			p.nnFields[key] = ctors
			vars[f] = ctors
		}
	})
	if pass == 0 {
		// second pass: a field initialised from a never-nil field of another object (h.mw = c.msgWriter) is never nil either
		p.nnFieldVars = vars
		first := p.nnFields
		p.nnFields = nil
		p.nnPass = 1
		p.neverNilFields()
		for k, v := range first {
			if _, ok := p.nnFields[k]; !ok {
				p.nnFields[k] = v
			}
		}
	}
	return p.nnFields
}

// mapElemNeverNil: every value stored into the map held by the field is a fresh non-nil object (a found element is not nil).
func (p *Program) mapElemNeverNil(fieldKey string) bool {
	f := p.FieldOpt(fieldKey)
	if f == nil {
		return false
	}
	n := 0
	for _, fn := range p.Funcs {
		for _, b := range fn.Blocks {
			for _, in := range b.Instrs {
				mu, ok := in.(*ssa.MapUpdate)
				if !ok || !derivesFromField(mu.Map, f) {
					continue
				}
				n++
				if !p.freshNonNil(mu.Value, 0) {
					// a conversion of a fresh channel to a directional type is a ChangeType / Convert
					if cv, ok := mu.Value.(*ssa.Convert); !ok || !p.freshNonNil(cv.X, 0) {
						return false
					}
				}
			}
		}
	}
	return n > 0
}

// compositeInits finds composite literals / struct stores initialising field f: in SSA a
// composite literal &T{f: v} is an Alloc followed by FieldAddr+Store, which FieldAccesses
// already reports; nothing else is needed.

// intConstsCompared collects the integer constants that appear as operands of comparisons
// (and switch cases) in the given functions; used to derive region candidates.
func intConstsCompared(fns ...*ssa.Function) []int64 {
	set := map[int64]bool{}
	for _, fn := range fns {
		if fn == nil {
			continue
		}
		for _, b := range curProg.blocksOf(fn) {
			for _, in := range b.Instrs {
				bo, ok := in.(*ssa.BinOp)
				if !ok {
					continue
				}
				switch bo.Op {
				case token.EQL, token.NEQ, token.LSS, token.LEQ, token.GTR, token.GEQ:
					for _, o := range []ssa.Value{bo.X, bo.Y} {
						if c, ok := o.(*ssa.Const); ok && c.Value != nil && c.Value.Kind() == constant.Int {
							if v, ok := constant.Int64Val(c.Value); ok {
								set[v] = true
							}
						}
					}
				}
			}
		}
	}
	var out []int64
	for v := range set {
		out = append(out, v)
	}
	sort.Slice(out, func(i, j int) bool { return out[i] < out[j] })
	return out
}

// candidates builds region representatives: every constant and its two neighbours.
func candidates(consts []int64, extra ...int64) []int64 {
	set := map[int64]bool{}
	add := func(v int64) {
		set[v] = true
		if v > -1<<62 {
			set[v-1] = true
		}
		if v < 1<<62 {
			set[v+1] = true
		}
	}
	for _, c := range consts {
		add(c)
	}
	for _, c := range extra {
		add(c)
	}
	var out []int64
	for v := range set {
		out = append(out, v)
	}
	sort.Slice(out, func(i, j int) bool { return out[i] < out[j] })
	return out
}

// ---- E4 driver: decision tables ---------------------------------------------------------------

type Atom struct {
	Key  string // valuation key (alias)
	Vals []AV
}

func boolAtom(key string) Atom { return Atom{Key: key, Vals: []AV{cBool(false), cBool(true)}} }
func intAtom(key string, vals []int64) Atom {
	a := Atom{Key: key}
	for _, v := range vals {
		a.Vals = append(a.Vals, cInt(v))
	}
	return a
}
func nilAtom(key string) Atom {
	return Atom{Key: key, Vals: []AV{cNil(), &Addr{K: "nonnil:" + key}}}
}
func strAtom(key string, vals ...string) Atom {
	a := Atom{Key: key}
	for _, v := range vals {
		a.Vals = append(a.Vals, cStr(v))
	}
	return a
}

// Valuation is one row of the atom product.
type Valuation map[string]AV

func (v Valuation) Bool(k string) bool { b, _ := avBool(v[k]); return b }
func (v Valuation) Int(k string) int64 { i, _ := avInt(v[k]); return i }
func (v Valuation) Str(k string) string { s, _ := avStr(v[k]); return s }
func (v Valuation) Nil(k string) bool {
	c, ok := v[k].(*Const)
	return ok && c.IsNil
}
func (v Valuation) String(atoms []Atom) string {
	var s []string
	for _, a := range atoms {
		s = append(s, lastDot(a.Key)+"="+strings.TrimPrefix(v[a.Key].Key(), "&nonnil:"))
	}
	return strings.Join(s, " ")
}

func forEachValuation(atoms []Atom, f func(v Valuation)) int {
	n := 0
	var rec func(i int, v Valuation)
	rec = func(i int, v Valuation) {
		if i == len(atoms) {
			c := Valuation{}
			for k, x := range v {
				c[k] = x
			}
			f(c)
			n++
			return
		}
		for _, x := range atoms[i].Vals {
			v[atoms[i].Key] = x
			rec(i+1, v)
		}
	}
	rec(0, Valuation{})
	return n
}

type tableSpec struct {
	Rule     string
	Fn       *ssa.Function
	Atoms    []Atom
	Inline   func(fn *ssa.Function, depth int) bool
	Unroll   int
	Decide   func(v Valuation) func(key string, cond AV) (bool, bool)
	Args     func(v Valuation) []AV
	Classify func(v Valuation, p *Path) string // outcome of one path; "" = ignore path
	Oracle   func(v Valuation) []string        // allowed outcomes for this valuation (any of)
	// Need lists outcomes of which at least one path must exist (when several outcomes are allowed
	// because of opaque forks, e.g. an I/O error).
	Need func(v Valuation) []string
	What string
}

// runTable explores Fn under every valuation, classifies each path and compares with the
// oracle. One obligation per valuation row.
func (p *Program) runTable(r *Report, ts tableSpec) {
	if ts.Fn == nil {
		return
	}
	fname := p.FuncName(ts.Fn)
	r.UseFunc(fname)
	type row struct {
		Val      string   `json:"valuation"`
		Outcomes []string `json:"outcomes"`
		Expected []string `json:"expected"`
		OK       bool     `json:"ok"`
	}
	var rows []row
	collapsed := map[string]int{}
	forEachValuation(ts.Atoms, func(v Valuation) {
		opts := Opts{Val: v, Inline: ts.Inline, Unroll: ts.Unroll}
		if ts.Decide != nil {
			opts.Decide = ts.Decide(v)
		}
		if ts.Args != nil {
			opts.Args = ts.Args(v)
		}
		paths, err := p.Explore(ts.Fn, opts)
		r.Evaluations += len(paths) + 1
		vs := v.String(ts.Atoms)
		if err != nil {
			r.Undecide("%s: %s under %s: %v", ts.Rule, fname, vs, err)
			return
		}
		outs := map[string]bool{}
		for _, pa := range paths {
			o := ts.Classify(v, pa)
			if o != "" {
				outs[o] = true
			}
		}
		exp := ts.Oracle(v)
		if len(outs) == 0 {
			outs["NONE"] = true
		}
		ok := true
		for o := range outs {
			found := false
			for _, e := range exp {
				if e == o {
					found = true
				}
			}
			if !found {
				ok = false
			}
		}
		if ts.Need != nil {
			for _, n := range ts.Need(v) {
				if !outs[n] {
					ok = false
				}
			}
		}
		ol := sortedKeys(outs)
		rows = append(rows, row{Val: vs, Outcomes: ol, Expected: exp, OK: ok})
		collapsed[strings.Join(ol, "|")]++
		r.Check(ts.Rule, fname, vs, p.FuncPos(ts.Fn), ok, ts.What+": expected outcome ∈ {"+strings.Join(exp, ", ")+"}",
			"extracted outcome(s) {"+strings.Join(ol, ", ")+"} under "+vs)
	})
	// compact table for the evidence: full rows only when small
	if len(rows) <= 64 {
		r.Tables[ts.Rule] = rows
	} else {
		bad := []row{}
		for _, x := range rows {
			if !x.OK {
				bad = append(bad, x)
			}
		}
		r.Tables[ts.Rule] = map[string]interface{}{"rows": len(rows), "outcome_histogram": collapsed, "failing_rows": bad, "first_rows": rows[:16]}
	}
}

// ---- E3 driver: path invariants ---------------------------------------------------------------------

// forAllPaths explores fn freely (opaque forks) and applies inv to each path. The obligation is
// one per (rule, function); detail lists the first offending path.
func (p *Program) forAllPaths(r *Report, rule string, fn *ssa.Function, construct string, opts Opts, what string, inv func(pa *Path) (bool, string)) bool {
	if fn == nil {
		return false
	}
	fname := p.FuncName(fn)
	r.UseFunc(fname)
	paths, err := p.Explore(fn, opts)
	r.Evaluations += len(paths)
	if err != nil {
		r.Undecide("%s: %s: %v", rule, fname, err)
		return false
	}
	if len(paths) == 0 {
		r.Undecide("%s: %s has no paths", rule, fname)
		return false
	}
	bad := ""
	nbad := 0
	for _, pa := range paths {
		ok, d := inv(pa)
		if !ok {
			nbad++
			if bad == "" {
				bad = d + " [path: " + pa.CubeString() + " → " + pa.End + "]"
			}
		}
	}
	detail := fmt.Sprintf("%d path(s) examined, all satisfy the rule", len(paths))
	if nbad > 0 {
		detail = fmt.Sprintf("%d of %d path(s) violate: %s", nbad, len(paths), bad)
	}
	return r.Check(rule, fname, construct, p.FuncPos(fn), nbad == 0, what, detail)
}

// inlineSet returns an Inline predicate for named library functions.
func (p *Program) inlineSet(names ...string) func(fn *ssa.Function, depth int) bool {
	set := map[string]bool{}
	for _, n := range names {
		set[n] = true
	}
	return func(fn *ssa.Function, depth int) bool {
		if depth > 6 {
			return false
		}
		return set[p.anyFuncName(fn)]
	}
}

// eventIndex returns the index of the first event satisfying pred at or after from, or -1.
func eventIndex(pa *Path, from int, pred func(e *Event) bool) int {
	for i := from; i < len(pa.Events); i++ {
		if pred(pa.Events[i]) {
			return i
		}
	}
	return -1
}

func isCall(e *Event, names ...string) bool {
	if e.Kind != "call" && e.Kind != "inline-enter" {
		return false
	}
	for _, n := range names {
		if e.Callee == n {
			return true
		}
	}
	return false
}

// retErrNil classifies the error result (last result) of a path: "nil", "nonnil", "unknown".
func retErr(pa *Path) string {
	if pa.End != "return" || len(pa.Ret) == 0 {
		return pa.End
	}
	switch nilness(pa.Ret[len(pa.Ret)-1], pa) {
	case -1:
		return "nil"
	case 1:
		return "nonnil"
	}
	return "unknown"
}

func argKey(e *Event, i int) string {
	if i >= 0 && i < len(e.Args) && e.Args[i] != nil {
		return e.Args[i].Key()
	}
	return ""
}

// ---- normalised facts of a path ------------------------------------------------------------------------

// expandCalls rewrites a key so that call results read "callee(args)" instead of "call:callee@site".
func expandCalls(pa *Path, key string) string {
	for i := len(pa.Events) - 1; i >= 0; i-- {
		e := pa.Events[i]
		if e.Kind != "call" || e.Res == nil {
			continue
		}
		rk := e.Res.Key()
		if !strings.Contains(key, rk) {
			continue
		}
		var as []string
		for _, a := range e.Args {
			if a == nil {
				as = append(as, "_")
			} else {
				as = append(as, a.Key())
			}
		}
		// variadic slices: show the stored elements
		if va := varargsOf(pa, e); va != nil && len(as) > 0 {
			var vs []string
			for _, v := range va {
				vs = append(vs, v.Key())
			}
			as[len(as)-1] = "[" + strings.Join(vs, ",") + "]"
		}
		key = strings.ReplaceAll(key, rk, e.Callee+"("+strings.Join(as, ",")+")")
	}
	return stripSites(key)
}

// factsOf lists the normalised non-constant decisions of a path as "fact=true|false".
func factsOf(pa *Path) []string {
	set := map[string]bool{}
	for _, d := range pa.Decisions {
		if d.Key == "true" || d.Key == "false" || strings.HasPrefix(d.Key, "select@") {
			continue
		}
		set[expandCalls(pa, d.Key)+"="+fmt.Sprint(d.Val)] = true
	}
	return sortedKeys(set)
}

func sameSet(a, b []string) (missing, extra []string) {
	ma, mb := map[string]bool{}, map[string]bool{}
	for _, x := range a {
		ma[x] = true
	}
	for _, x := range b {
		mb[x] = true
	}
	for _, x := range b {
		if !ma[x] {
			missing = append(missing, x)
		}
	}
	for _, x := range a {
		if !mb[x] {
			extra = append(extra, x)
		}
	}
	return
}

// inlineAllExcept inlines every library callee with a body except the named ones.
func (p *Program) inlineAllExcept(stop ...string) func(fn *ssa.Function, depth int) bool {
	st := map[string]bool{}
	for _, s := range stop {
		st[s] = true
	}
	return func(fn *ssa.Function, depth int) bool {
		return depth <= 4 && p.isLib(fn) && !st[p.FuncName(fn)]
	}
}

// isLocalAllocKey: the address names a variable allocated by the explored function itself (a private copy),
// not a parameter's pointee, a heap field or a global.
func isLocalAllocKey(k string) bool {
	return strings.HasPrefix(k, "H:") || strings.HasPrefix(k, "L:")
}

// ownersOf names the reference functions a site in fn belongs to: fn itself when it is part of the reference tree
// (or a closure), otherwise — fn is a helper extracted later — the reference functions that reach it.
func (p *Program) ownersOf(fn *ssa.Function) []string {
	name := p.rawName(fn)
	if fn.Parent() != nil {
		return []string{p.FuncName(fn)} // a closure that moved into a helper with its function keeps its attributed name
	}
	if knownFuncs[name] {
		return []string{name}
	}
	return p.siteOwners(fn)
}

// ownedBy reports whether every owner of a site in fn satisfies ok.
func (p *Program) ownedBy(fn *ssa.Function, ok func(owner string) bool) bool {
	owners := p.ownersOf(fn)
	for _, o := range owners {
		if !ok(o) {
			return false
		}
	}
	return len(owners) > 0
}

// blocksOf returns the basic blocks of fn together with those of the helpers extracted from it: library functions
// that are not part of the reference tree and are (transitively) called from fn.
func (p *Program) blocksOf(fn *ssa.Function) []*ssa.BasicBlock {
	var out []*ssa.BasicBlock
	seen := map[*ssa.Function]bool{}
	var rec func(f *ssa.Function)
	rec = func(f *ssa.Function) {
		if f == nil || seen[f] {
			return
		}
		seen[f] = true
		out = append(out, f.Blocks...)
		for _, b := range f.Blocks {
			for _, in := range b.Instrs {
				if ci, ok := in.(ssa.CallInstruction); ok {
					if c := ci.Common().StaticCallee(); c != nil && c.Parent() == nil && p.isLib(c) && !knownFuncs[p.rawName(c)] {
						rec(c)
					}
				}
			}
		}
	}
	rec(fn)
	return out
}

// ownerFunc returns the reference function a helper is attributed to (see FuncName), or fn itself.
func (p *Program) ownerFunc(fn *ssa.Function) *ssa.Function {
	root := fn
	for root.Parent() != nil {
		root = root.Parent()
	}
	if o, ok := p.owner[root]; ok && root == fn {
		if f := p.FuncOpt(o); f != nil {
			return f
		}
	}
	return fn
}

// wrapsKey reports whether v is, or wraps through fmt.Errorf("…%w…", …) on this path, a value whose key satisfies ok.
func wrapsKey(pa *Path, v AV, ok func(key string) bool) bool {
	seen := map[string]bool{}
	var rec func(k string) bool
	rec = func(k string) bool {
		if seen[k] {
			return false
		}
		seen[k] = true
		if ok(k) {
			return true
		}
		for _, e := range pa.Calls("fmt.Errorf") {
			if e.Res.Key() != k {
				continue
			}
			f, _ := avStr(e.Args[0])
			if !strings.Contains(f, "%w") {
				continue
			}
			for _, a := range varargsOf(pa, e) {
				if rec(stripConvAll(a).Key()) {
					return true
				}
			}
		}
		return false
	}
	return rec(stripConvAll(v).Key())
}

// closeWriter is the function that marshals and writes a close frame: writeCloseCtx, or writeClose on trees without it.
func (p *Program) closeWriter() *ssa.Function {
	if fn := p.FuncOpt("Conn.writeCloseCtx"); fn != nil {
		return fn
	}
	return p.Func("Conn.writeClose")
}
