// wrapgen rewrites one function of a Go package into a forwarding wrapper around a new helper that holds the
// old body ("extract the whole body"): a behaviour-preserving refactoring used to test that the checker
// attributes sites inside helpers to the reference functions they were extracted from.
//
//	wrapgen -dir <pkgdir> -list            prints "file.go:Recv.Name" for every function declaration with a body
//	wrapgen -dir <pkgdir> -fn file.go:Recv.Name   rewrites that function in place
package main

import (
	"bytes"
	"flag"
	"fmt"
	"go/ast"
	"go/format"
	"go/parser"
	"go/token"
	"os"
	"path/filepath"
	"sort"
	"strings"
)

func recvName(fd *ast.FuncDecl) string {
	if fd.Recv == nil || len(fd.Recv.List) == 0 {
		return ""
	}
	t := fd.Recv.List[0].Type
	if st, ok := t.(*ast.StarExpr); ok {
		t = st.X
	}
	if id, ok := t.(*ast.Ident); ok {
		return id.Name
	}
	return "?"
}

func key(file string, fd *ast.FuncDecl) string {
	if r := recvName(fd); r != "" {
		return file + ":" + r + "." + fd.Name.Name
	}
	return file + ":" + fd.Name.Name
}

func main() {
	dir := flag.String("dir", ".", "package directory")
	list := flag.Bool("list", false, "list functions")
	fn := flag.String("fn", "", "file.go:Recv.Name")
	flag.Parse()
	fset := token.NewFileSet()
	files, _ := filepath.Glob(filepath.Join(*dir, "*.go"))
	sort.Strings(files)
	for _, path := range files {
		base := filepath.Base(path)
		if strings.HasSuffix(base, "_test.go") || strings.HasSuffix(base, "_js.go") {
			continue
		}
		src, err := os.ReadFile(path)
		if err != nil {
			panic(err)
		}
		if bytes.Contains(src, []byte("//go:build js")) {
			continue
		}
		f, err := parser.ParseFile(fset, path, src, parser.ParseComments)
		if err != nil {
			panic(err)
		}
		for _, d := range f.Decls {
			fd, ok := d.(*ast.FuncDecl)
			if !ok || fd.Body == nil || fd.Name.Name == "init" || fd.Name.Name == "main" || fd.Type.TypeParams != nil {
				continue
			}
			k := key(base, fd)
			if *list {
				fmt.Println(k)
				continue
			}
			if k != *fn {
				continue
			}
			rewrite(fset, f, fd)
			var buf bytes.Buffer
			if err := format.Node(&buf, fset, f); err != nil {
				panic(err)
			}
			if err := os.WriteFile(path, buf.Bytes(), 0o644); err != nil {
				panic(err)
			}
			fmt.Println("rewrote", k)
			return
		}
	}
	if !*list {
		fmt.Println("not found:", *fn)
		os.Exit(1)
	}
}

// rewrite turns fd into `func N(args) results { return nImpl(args) }` and appends the helper with the old body.
func rewrite(fset *token.FileSet, f *ast.File, fd *ast.FuncDecl) {
	helperName := fd.Name.Name + "Impl0"
	// name every parameter (and the receiver) of the wrapper
	n := 0
	fresh := func() *ast.Ident { n++; return ast.NewIdent(fmt.Sprintf("wp%d", n)) }
	copyFields := func(fl *ast.FieldList) (*ast.FieldList, []ast.Expr, bool) {
		if fl == nil {
			return nil, nil, false
		}
		out := &ast.FieldList{}
		var args []ast.Expr
		variadic := false
		for _, fld := range fl.List {
			nf := &ast.Field{Type: fld.Type}
			names := fld.Names
			if len(names) == 0 {
				names = []*ast.Ident{ast.NewIdent("_")}
			}
			for range names {
				id := fresh()
				nf.Names = append(nf.Names, id)
				args = append(args, ast.NewIdent(id.Name))
			}
			if _, ok := fld.Type.(*ast.Ellipsis); ok {
				variadic = true
			}
			out.List = append(out.List, nf)
		}
		return out, args, variadic
	}
	wparams, args, variadic := copyFields(fd.Type.Params)
	if wparams == nil {
		wparams = &ast.FieldList{}
	}
	var wresults *ast.FieldList
	if fd.Type.Results != nil {
		wresults = &ast.FieldList{}
		for _, fld := range fd.Type.Results.List {
			cnt := len(fld.Names)
			if cnt == 0 {
				cnt = 1
			}
			for i := 0; i < cnt; i++ {
				wresults.List = append(wresults.List, &ast.Field{Type: fld.Type})
			}
		}
	}
	var fun ast.Expr = ast.NewIdent(helperName)
	var wrecv *ast.FieldList
	if fd.Recv != nil {
		rid := ast.NewIdent("wr")
		wrecv = &ast.FieldList{List: []*ast.Field{{Names: []*ast.Ident{rid}, Type: fd.Recv.List[0].Type}}}
		fun = &ast.SelectorExpr{X: ast.NewIdent("wr"), Sel: ast.NewIdent(helperName)}
	}
	call := &ast.CallExpr{Fun: fun, Args: args}
	if variadic {
		call.Ellipsis = 1
	}
	var stmt ast.Stmt = &ast.ExprStmt{X: call}
	if wresults != nil {
		stmt = &ast.ReturnStmt{Results: []ast.Expr{call}}
	}
	wrapper := &ast.FuncDecl{
		Doc:  fd.Doc,
		Recv: wrecv,
		Name: ast.NewIdent(fd.Name.Name),
		Type: &ast.FuncType{Params: wparams, Results: wresults},
		Body: &ast.BlockStmt{List: []ast.Stmt{stmt}},
	}
	fd.Doc = nil
	fd.Name = ast.NewIdent(helperName)
	f.Decls = append(f.Decls, wrapper)
}
