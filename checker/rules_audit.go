package main

// Rules added after the dynamic audit (DESIGN.md 9.7): each states a structural necessary condition of a property
// clause that the unchanged tree does not meet. Every site they report on the reference tree is listed in
// KNOWN_FINDINGS.txt (the defects are recorded, not repaired); a new site of the same kind is a violation.

import (
	"strings"

	"golang.org/x/tools/go/ssa"
)

// cSingleValued: a handshake header that must occur exactly once is judged over all its lines, not over the first one
// (http.Header.Get): a second line with a different value would otherwise be ignored although the one-line form
// "a, b" of the same header is refused.
func cSingleValued(p *Program, r *Report, rule string, label string, fns []string, keys []string) {
	seen := map[*ssa.Function]bool{}
	for _, fname := range fns {
		fn := p.FuncOpt(fname)
		if fn == nil || seen[fn] {
			continue // inlined into a function of the list (or analysed already under its absorbed name)
		}
		seen[fn] = true
		for _, b := range p.blocksOf(fn) {
			for _, in := range b.Instrs {
				call, ok := in.(*ssa.Call)
				if !ok {
					continue
				}
				f := call.Call.StaticCallee()
				if f == nil || qualName(f) != "(http.Header).Get" || len(call.Call.Args) != 2 {
					continue
				}
				k, ok := call.Call.Args[1].(*ssa.Const)
				if !ok || k.Value == nil {
					continue
				}
				key := strings.Trim(k.Value.ExactString(), `"`)
				for _, want := range keys {
					if key != want {
						continue
					}
					// uses that only render the value into an error text do not decide anything
					decides := false
					for _, ref := range *call.Referrers() {
						switch ref.(type) {
						case *ssa.BinOp, *ssa.Store, *ssa.Call, *ssa.Phi:
							if c, isCall := ref.(*ssa.Call); isCall {
								if cf := c.Call.StaticCallee(); cf != nil && (qualName(cf) == "fmt.Errorf" || strings.HasPrefix(qualName(cf), "fmt.")) {
									continue
								}
							}
							decides = true
						case *ssa.MakeInterface:
						}
					}
					if !decides {
						continue
					}
					r.Check(rule, label, "first line of "+key, p.InstrPos(call), false,
						"a handshake header that must be single-valued ("+strings.Join(keys, ", ")+") is validated over all its lines (Header.Values / headerTokens), not with Header.Get, which reads the first line only",
						fname+" decides on Header.Get(\""+key+"\")")
				}
			}
		}
	}
}

// cAsciiTokens: handshake tokens are compared and trimmed with ASCII rules (RFC 7230 tokens, OWS = SP / HTAB); the
// Unicode-aware strings.EqualFold / strings.TrimSpace accept look-alikes (KELVIN SIGN, LONG S) and strip NBSP etc.
func cAsciiTokens(p *Program, r *Report, rule string, fns []string) {
	for _, fname := range fns {
		fn := p.Func(fname)
		if fn == nil {
			continue
		}
		for _, b := range p.blocksOf(fn) {
			for _, in := range b.Instrs {
				call, ok := in.(*ssa.Call)
				if !ok {
					continue
				}
				f := call.Call.StaticCallee()
				if f == nil {
					continue
				}
				switch qualName(f) {
				case "strings.EqualFold", "strings.TrimSpace":
					r.Check(rule, fname, qualName(f), p.InstrPos(call), false,
						"header tokens, the key and subprotocol names are trimmed of SP/HTAB only and compared with ASCII case folding; strings.TrimSpace / strings.EqualFold apply Unicode rules",
						fname+" uses "+qualName(f))
				}
			}
		}
	}
}

// cWindowBits: a *_max_window_bits parameter is accepted only with a value 8..15 (RFC 7692 §7.1.2); a prefix test
// alone accepts "=abc", "=16", "=" and duplicates.
func cWindowBits(p *Program, r *Report, rule string, fns []string) {
	for _, fname := range fns {
		fn := p.Func(fname)
		if fn == nil {
			continue
		}
		prefix, parsed := false, false
		var at ssa.Instruction
		for _, b := range p.blocksOf(fn) {
			for _, in := range b.Instrs {
				call, ok := in.(*ssa.Call)
				if !ok {
					continue
				}
				f := call.Call.StaticCallee()
				if f == nil {
					continue
				}
				switch {
				case qualName(f) == "strings.HasPrefix" && len(call.Call.Args) == 2:
					if k, ok := call.Call.Args[1].(*ssa.Const); ok && k.Value != nil && strings.Contains(k.Value.ExactString(), "_max_window_bits=") {
						prefix, at = true, call
					}
				case strings.HasPrefix(qualName(f), "strconv."):
					parsed = true
				}
			}
		}
		if prefix {
			r.Check(rule, fname, "value of *_max_window_bits", p.InstrPos(at), parsed,
				"a window-bits parameter is accepted only after its value was parsed and found in 8..15", fname+" accepts any text after the '='")
		}
	}
}

// cWriterHandle: every Writer call hands out its own handle with its own closed state. Returning the connection's one
// msgWriter lets the handle of a finished message write to and close the message of the next writer.
func cWriterHandle(p *Program, r *Report, rule string) {
	fn := p.Func("Conn.writer")
	if fn == nil {
		return
	}
	p.forAllPaths(r, rule, fn, "a handle per call", Opts{}, "Conn.writer returns a value created by this call (carrying its own closed flag), not the connection's shared msgWriter: a second Close on a finished handle must not end the message of a later writer", func(pa *Path) (bool, string) {
		if pa.End != "return" || retErr(pa) != "nil" {
			return true, ""
		}
		if k := stripConvAll(pa.Ret[0]).Key(); k == "Conn.msgWriter" {
			return false, "returns the shared Conn.msgWriter"
		}
		return true, ""
	})
	// the handle: closed once, nothing forwarded afterwards, Write and Close exclude each other
	for _, m := range []struct{ fn, fwd string }{{"msgWriterHandle.Close", "msgWriter.Close"}, {"msgWriterHandle.Write", "msgWriter.Write"}} {
		hf := p.FuncOpt(m.fn)
		if hf == nil {
			continue
		}
		m := m
		p.runTable(r, tableSpec{
			Rule: rule + ".once", Fn: hf, Atoms: []Atom{boolAtom("msgWriterHandle.closed")},
			Classify: func(v Valuation, pa *Path) string {
				fw := pa.Calls(m.fwd)
				lock := eventIndex(pa, 0, func(e *Event) bool { return isCall(e, "(*sync.Mutex).Lock") && argKey(e, 0) == "&msgWriterHandle.mu" })
				unl := false
				for _, e := range pa.Events {
					if e.Kind == "defer" && e.Callee == "(*sync.Mutex).Unlock" && argKey(e, 0) == "&msgWriterHandle.mu" {
						unl = true
					}
				}
				if lock != 0 && !(lock > 0 && eventIndex(pa, 0, func(e *Event) bool { return e.Kind == "call" }) == lock) || !unl {
					return "NOT-UNDER-THE-HANDLE-MUTEX"
				}
				set := false
				for _, e := range pa.Events {
					if e.Kind == "store" && e.AddrK == "msgWriterHandle.closed" {
						if b, ok := avBool(e.Val); ok && b {
							set = true
						} else {
							return "RESETS-CLOSED"
						}
					}
				}
				switch {
				case len(fw) == 0 && retErr(pa) == "nonnil":
					return "REFUSED"
				case len(fw) == 1 && argKey(fw[0], 0) == "msgWriterHandle.mw":
					if m.fn == "msgWriterHandle.Close" && !set {
						return "FORWARDED-WITHOUT-MARKING-CLOSED"
					}
					return "FORWARDED"
				}
				return "OTHER"
			},
			Oracle: func(v Valuation) []string {
				if v.Bool("msgWriterHandle.closed") {
					return []string{"REFUSED"}
				}
				return []string{"FORWARDED"}
			},
			What: "a closed handle forwards nothing and returns an error; an open one forwards exactly once to its msgWriter under the handle's mutex (deferred unlock); Close marks the handle closed before forwarding and nothing ever clears the mark",
		})
	}
	if f := p.FieldOpt("msgWriterHandle.closed"); f != nil {
		for _, fa := range p.FieldAccesses(f) {
			if fa.Write || fa.Addr {
				fname := p.FuncName(fa.Fn)
				r.Check(rule+".once", fname, "store msgWriterHandle.closed", p.InstrPos(fa.Instr), fname == "msgWriterHandle.Close", "the closed mark of a writer handle is written only by its Close", fname)
			}
		}
	}
}
