package main

// Rules added after the dynamic audit (DESIGN.md 9.7): each states a structural necessary condition of a property
// clause that the unchanged tree does not meet. Every site they report on the reference tree is listed in
// KNOWN_FINDINGS.txt (the defects are recorded, not repaired); a new site of the same kind is a violation.

import (
	"fmt"
	"strings"

	"golang.org/x/tools/go/ssa"
)

// cSingleValued: a handshake header that must occur exactly once is judged over all its lines, not over the first one
// (http.Header.Get): a second line with a different value would otherwise be ignored although the one-line form
// "a, b" of the same header is refused.
func cSingleValued(p *Program, r *Report, rule string, label string, fns []string, keys []string) {
	seen := map[*ssa.Function]bool{}
	for _, fname := range fns {
		fn := p.FuncOpt(fname)
		if fn == nil || seen[fn] {
			continue // inlined into a function of the list (or analysed already under its absorbed name)
		}
		seen[fn] = true
		for _, b := range p.blocksOf(fn) {
			for _, in := range b.Instrs {
				call, ok := in.(*ssa.Call)
				if !ok {
					continue
				}
				f := call.Call.StaticCallee()
				if f == nil || qualName(f) != "(http.Header).Get" || len(call.Call.Args) != 2 {
					continue
				}
				k, ok := call.Call.Args[1].(*ssa.Const)
				if !ok || k.Value == nil {
					continue
				}
				key := strings.Trim(k.Value.ExactString(), `"`)
				for _, want := range keys {
					if key != want {
						continue
					}
					// uses that only render the value into an error text do not decide anything
					decides := false
					for _, ref := range *call.Referrers() {
						switch ref.(type) {
						case *ssa.BinOp, *ssa.Store, *ssa.Call, *ssa.Phi:
							if c, isCall := ref.(*ssa.Call); isCall {
								if cf := c.Call.StaticCallee(); cf != nil && (qualName(cf) == "fmt.Errorf" || strings.HasPrefix(qualName(cf), "fmt.")) {
									continue
								}
							}
							decides = true
						case *ssa.MakeInterface:
						}
					}
					if !decides {
						continue
					}
					r.Check(rule, label, "first line of "+key, p.InstrPos(call), false,
						"a handshake header that must be single-valued ("+strings.Join(keys, ", ")+") is validated over all its lines (Header.Values / headerTokens), not with Header.Get, which reads the first line only",
						fname+" decides on Header.Get(\""+key+"\")")
				}
			}
		}
	}
}

// cAsciiTokens: handshake tokens are compared and trimmed with ASCII rules (RFC 7230 tokens, OWS = SP / HTAB); the
// Unicode-aware strings.EqualFold / strings.TrimSpace accept look-alikes (KELVIN SIGN, LONG S) and strip NBSP etc.
// the library's certified ASCII helpers (C11.ascii.fold / C11.ascii.trim decide their bodies)
const (
	foldFn = "asciiEqualFold"
	trimFn = "trimOWS"
)

func cAsciiTokens(p *Program, r *Report, rule string, fns []string) {
	cAsciiHelpers(p, r, rule)
	for _, fname := range fns {
		fn := p.Func(fname)
		if fn == nil {
			continue
		}
		for _, b := range p.blocksOf(fn) {
			for _, in := range b.Instrs {
				call, ok := in.(*ssa.Call)
				if !ok {
					continue
				}
				f := call.Call.StaticCallee()
				if f == nil {
					continue
				}
				switch qualName(f) {
				case "strings.EqualFold", "strings.TrimSpace":
					r.Check(rule, fname, qualName(f), p.InstrPos(call), false,
						"header tokens, the key and subprotocol names are trimmed of SP/HTAB only and compared with ASCII case folding; strings.TrimSpace / strings.EqualFold apply Unicode rules",
						fname+" uses "+qualName(f))
				}
			}
		}
	}
}

// cAsciiHelpers decides the bodies of the two helpers the token rules rely on.
func cAsciiHelpers(p *Program, r *Report, rule string) {
	// asciiLower: 'A'..'Z' ↦ +32, every other byte unchanged
	if fn := p.FuncOpt("asciiLower"); fn != nil {
		p.runTable(r, tableSpec{
			Rule: rule + ".fold", Fn: fn, Atoms: []Atom{intAtom("param:b", []int64{0, 9, 32, 47, 48, 57, 64, 65, 66, 89, 90, 91, 96, 97, 122, 123, 127, 128, 0xc5, 0xe2, 255})},
			Classify: func(v Valuation, pa *Path) string {
				if pa.End != "return" {
					return pa.End
				}
				if c, ok := avInt(pa.Ret[0]); ok {
					return fmt.Sprint(c)
				}
				return pa.Ret[0].Key()
			},
			Oracle: func(v Valuation) []string {
				b := v.Int("param:b")
				if b >= 'A' && b <= 'Z' {
					b += 'a' - 'A'
				}
				return []string{fmt.Sprint(b)}
			},
			What: "asciiLower maps the ASCII capital letters to their small forms and leaves every other byte (digits, punctuation, the bytes of multi-byte UTF-8 sequences) unchanged",
		})
	}
	if fn := p.Func(foldFn); fn != nil {
		p.forAllPaths(r, rule+".fold", fn, "byte-wise comparison under ASCII folding", Opts{Unroll: 2},
			foldFn+" returns false when the lengths differ or some byte pair differs after asciiLower, and true only after every index was compared; no Unicode-aware function is involved",
			func(pa *Path) (bool, string) {
				for _, e := range pa.Events {
					if e.Kind == "call" && !strings.HasPrefix(e.Callee, "builtin ") && e.Callee != "asciiLower" {
						return false, "calls " + e.Callee
					}
				}
				if pa.End != "return" {
					return true, ""
				}
				b, ok := avBool(pa.Ret[0])
				if !ok {
					return false, "returns " + pa.Ret[0].Key()
				}
				lenEq, lenKnown := decidedLike(pa, "len(param:s) == len(param:t)")
				mism := 0
				for _, d := range pa.Decisions {
					k := stripSites(d.Key)
					if strings.Contains(k, "call:asciiLower") && strings.Contains(k, "==") && !d.Val {
						mism++
					}
				}
				for _, al := range pa.Calls("asciiLower") {
					a := argKey(al, 0)
					if !strings.HasPrefix(a, "index(param:s,") && !strings.HasPrefix(a, "index(param:t,") {
						return false, "asciiLower of " + a
					}
				}
				if b {
					if !lenKnown || !lenEq {
						return false, "true without equal lengths"
					}
					if mism > 0 {
						return false, "true although a byte pair differed"
					}
					// exhausted: the loop condition i < len(s) was found false
					if more, known := decidedLike(pa, "len(param:s) > "+fmt.Sprint(len(pa.Calls("asciiLower"))/2)); !known || more {
						return false, "true before every index was compared"
					}
				} else if lenKnown && lenEq && mism == 0 {
					return false, "false without a difference"
				}
				return true, ""
			})
	}
	if fn := p.Func(trimFn); fn != nil {
		p.forAllPaths(r, rule+".trim", fn, "SP / HTAB only", Opts{},
			trimFn+" returns strings.Trim(s, cutset) with the cutset made of exactly the space and the horizontal tab (RFC 7230 OWS)",
			func(pa *Path) (bool, string) {
				if pa.End != "return" {
					return true, ""
				}
				tr := pa.Calls("strings.Trim")
				if len(tr) != 1 || argKey(tr[0], 0) != "param:s" || pa.Ret[0].Key() != tr[0].Res.Key() {
					return false, "returns " + expandCalls(pa, pa.Ret[0].Key())
				}
				cut, ok := avStr(tr[0].Args[1])
				if !ok || !(cut == " \t" || cut == "\t ") {
					return false, "cutset " + argKey(tr[0], 1)
				}
				return true, ""
			})
	}
}

// cWindowBits: a *_max_window_bits parameter is accepted only with a value 8..15 without leading zeros (RFC 7692
// §7.1.2). Decided as the window-bits rows of the two per-parameter decision tables: every well-formed value and
// malformed neighbours of each kind (out of range, leading zero, sign, text, empty, white space) on both sides.
func cWindowBits(p *Program, r *Report, rule string) {
	bits := func(s string) bool { return strings.Contains(s, "_max_window_bits") }
	c14serverTable(p, r, rule, bits)
	c14clientTable(p, r, rule, bits)
}

// c14dup: an offer or response that repeats a parameter name is malformed (RFC 7692 §7): acceptDeflate declines it and
// verifyServerExtensions fails before looking at any parameter; duplicateParam compares the names (the text before
// '=') of every pair.
func c14dup(p *Program, r *Report, rule string) {
	for _, fname := range []string{"acceptDeflate", "verifyServerExtensions"} {
		fn := p.Func(fname)
		if fn == nil {
			continue
		}
		fname := fname
		p.forAllPaths(r, rule, fn, "duplicated parameter names refused", Opts{Unroll: 1},
			fname+" asks duplicateParam about the parameter list of the extension it is deciding and refuses when it says yes; no parameter is accepted on a path that did not ask",
			func(pa *Path) (bool, string) {
				dp := pa.Calls("duplicateParam")
				accepted := pa.End == "loop" || (pa.End == "return" && (fname == "acceptDeflate" && func() bool { b, ok := avBool(pa.Ret[1]); return !ok || b }() ||
					fname == "verifyServerExtensions" && retErr(pa) != "nonnil" && pa.Ret[0].Key() != "nil"))
				if !accepted {
					return true, ""
				}
				if len(dp) != 1 {
					return false, fmt.Sprintf("%d duplicateParam calls on an accepting path", len(dp))
				}
				a := argKey(dp[0], 0)
				if !(strings.HasSuffix(a, ".params") || strings.HasPrefix(a, "param:")) {
					return false, "duplicateParam asked about " + a
				}
				if v, k := pa.Decided(dp[0].Res.Key()); !k || v {
					return false, "accepted although duplicateParam was not found false"
				}
				return true, ""
			})
	}
	// the helper: true only after two names compared equal, false only after every comparison failed
	if fn := p.Func("duplicateParam"); fn != nil {
		p.forAllPaths(r, rule, fn, "pairwise comparison of parameter names", Opts{Unroll: 3},
			"duplicateParam returns true exactly when paramName of two different elements of its argument compared equal, and false only after the pairs were exhausted",
			func(pa *Path) (bool, string) {
				if pa.End != "return" {
					return true, ""
				}
				b, ok := avBool(pa.Ret[0])
				if !ok {
					return false, "returns " + pa.Ret[0].Key()
				}
				eq := 0
				for _, d := range pa.Decisions {
					k := stripSites(d.Key)
					if strings.Contains(k, "call:paramName") && strings.Contains(k, "==") {
						if d.Val {
							eq++
						}
					}
				}
				if b && eq == 0 {
					return false, "true without two equal names"
				}
				if !b && eq > 0 {
					return false, "false although two names were equal"
				}
				if !b {
					// with two or more parameters "no duplicate" is only known after comparing
					if two, known := decidedLike(pa, "len(param:params) > 1"); known && two && len(pa.Calls("paramName")) < 2 {
						return false, "false for two or more parameters without comparing any pair"
					}
				}
				for _, pn := range pa.Calls("paramName") {
					if !strings.HasPrefix(argKey(pn, 0), "elem(param:params") && !strings.HasPrefix(argKey(pn, 0), "elem(slice(param:params") {
						return false, "paramName of " + argKey(pn, 0)
					}
				}
				return true, ""
			})
	}
	// paramName: the text before the first '='
	if fn := p.Func("paramName"); fn != nil {
		p.forAllPaths(r, rule, fn, "name = text before the first '='", Opts{},
			"paramName returns p[:i] for i = strings.IndexByte(p, '=') when there is one (i >= 0) and p itself otherwise",
			func(pa *Path) (bool, string) {
				if pa.End != "return" {
					return true, ""
				}
				ib := pa.Calls("strings.IndexByte")
				if len(ib) != 1 || argKey(ib[0], 0) != "param:p" || argKey(ib[0], 1) != "61" {
					return false, "no strings.IndexByte(p, '=')"
				}
				found, known := pa.Decided("(" + ib[0].Res.Key() + " < 0)")
				ret := pa.Ret[0].Key()
				if known && found {
					if ret != "param:p" {
						return false, "without '=' returns " + ret
					}
					return true, ""
				}
				if !strings.HasPrefix(ret, "slice(param:p") {
					return false, "with '=' returns " + ret
				}
				return true, ""
			})
	}
}

// cWriterHandle: every Writer call hands out its own handle with its own closed state. Returning the connection's one
// msgWriter lets the handle of a finished message write to and close the message of the next writer.
func cWriterHandle(p *Program, r *Report, rule string) {
	fn := p.Func("Conn.writer")
	if fn == nil {
		return
	}
	p.forAllPaths(r, rule, fn, "a handle per call", Opts{}, "Conn.writer returns a value created by this call (carrying its own closed flag), not the connection's shared msgWriter: a second Close on a finished handle must not end the message of a later writer", func(pa *Path) (bool, string) {
		if pa.End != "return" || retErr(pa) != "nil" {
			return true, ""
		}
		if k := stripConvAll(pa.Ret[0]).Key(); k == "Conn.msgWriter" {
			return false, "returns the shared Conn.msgWriter"
		}
		return true, ""
	})
	// the handle: closed once, nothing forwarded afterwards, Write and Close exclude each other
	for _, m := range []struct{ fn, fwd string }{{"msgWriterHandle.Close", "msgWriter.Close"}, {"msgWriterHandle.Write", "msgWriter.Write"}} {
		hf := p.FuncOpt(m.fn)
		if hf == nil {
			continue
		}
		m := m
		p.runTable(r, tableSpec{
			Rule: rule + ".once", Fn: hf, Atoms: []Atom{boolAtom("msgWriterHandle.closed")},
			Classify: func(v Valuation, pa *Path) string {
				fw := pa.Calls(m.fwd)
				lock := eventIndex(pa, 0, func(e *Event) bool { return isCall(e, "(*sync.Mutex).Lock") && argKey(e, 0) == "&msgWriterHandle.mu" })
				unl := false
				for _, e := range pa.Events {
					if e.Kind == "defer" && e.Callee == "(*sync.Mutex).Unlock" && argKey(e, 0) == "&msgWriterHandle.mu" {
						unl = true
					}
				}
				if lock != 0 && !(lock > 0 && eventIndex(pa, 0, func(e *Event) bool { return e.Kind == "call" }) == lock) || !unl {
					return "NOT-UNDER-THE-HANDLE-MUTEX"
				}
				set := false
				for _, e := range pa.Events {
					if e.Kind == "store" && e.AddrK == "msgWriterHandle.closed" {
						if b, ok := avBool(e.Val); ok && b {
							set = true
						} else {
							return "RESETS-CLOSED"
						}
					}
				}
				switch {
				case len(fw) == 0 && retErr(pa) == "nonnil":
					return "REFUSED"
				case len(fw) == 1 && argKey(fw[0], 0) == "msgWriterHandle.mw":
					if m.fn == "msgWriterHandle.Close" && !set {
						return "FORWARDED-WITHOUT-MARKING-CLOSED"
					}
					return "FORWARDED"
				}
				return "OTHER"
			},
			Oracle: func(v Valuation) []string {
				if v.Bool("msgWriterHandle.closed") {
					return []string{"REFUSED"}
				}
				return []string{"FORWARDED"}
			},
			What: "a closed handle forwards nothing and returns an error; an open one forwards exactly once to its msgWriter under the handle's mutex (deferred unlock); Close marks the handle closed before forwarding and nothing ever clears the mark",
		})
	}
	if f := p.FieldOpt("msgWriterHandle.closed"); f != nil {
		for _, fa := range p.FieldAccesses(f) {
			if fa.Write || fa.Addr {
				fname := p.FuncName(fa.Fn)
				r.Check(rule+".once", fname, "store msgWriterHandle.closed", p.InstrPos(fa.Instr), fname == "msgWriterHandle.Close", "the closed mark of a writer handle is written only by its Close", fname)
			}
		}
	}
}
