package main

import (
	"strconv"
	"regexp"
	"fmt"
	"go/types"
	"sort"
	"strings"

	"golang.org/x/tools/go/ssa"
)

func init() {
	register("C02", propInfo{
		Explanation: "Static decision of the structural clauses of C02 (the emitted byte stream is a conformant frame stream): there is a single emitter of transport bytes; the header byte layout, length classes, masking decision, RSV bits, fragment opcodes, control-frame shape and Close payload validation are extracted from the SSA as decision tables over the whole input domain and compared with RFC 6455 §5.2/§5.5/§7.4 and RFC 7692 §6. No library code is executed.",
		Decides: []string{
			"C02.emit: only writeFrame / writeFramePayload / writeFrameHeader touch Conn.bw for output; the latter two are called from writeFrame only",
			"C02.mask: client ⇒ masked=true and a key freshly read from crypto/rand in this very call; server never sets masked; key byte order agrees in writeFrame/writeFrameHeader/readFrameHeader",
			"C02.bits: header bit layout fin/rsv1/rsv2/rsv3 = 0x80/0x40/0x20/0x10, opcode unshifted, mask bit 0x80",
			"C02.len: minimal length encoding: [0,125] inline, [126,65535] 126+BigEndian u16, >65535 127+BigEndian u64",
			"C02.ctl: control frames are emitted only by writeControl with fin=true, flate=false; payloads are bounded by 125",
			"C02.frag: first frame carries the message type, later frames opContinuation; fin only from msgWriter.Close / the single-frame path",
			"C02.rsv23 / C02.rsv1: RSV2/RSV3 never set; RSV1 iff flate ∧ opcode∈{text,binary}; compression decided only on a first frame of a negotiated connection",
			"C02.close: sendable codes = [1000,1003]∪[1007,1014]∪[3000,4999]; reason ≤ 123 bytes; nothing sent when validation fails; 1005 ↦ empty payload",
		},
		NotDecided: []string{"that compressed payloads inflate / that a foreign decoder reconstructs the messages (content)", "mask-key unpredictability beyond a fresh crypto/rand read per frame"},
		Trusted:    []string{"go/types, go/ssa (x/tools v0.29.0)", "bufio.Writer, encoding/binary, crypto/rand contracts", "RFC 6455 §5.2, §5.5, §7.4; RFC 7692 §6"},
	}, runC02)
}

func runC02(p *Program, r *Report) {
	c02emit(p, r, "C02.emit")
	c02mask(p, r, "C02.mask")
	c02type(p, r, "C02.type")
	c02bits(p, r, "C02.bits")
	c02ctl(p, r, "C02.ctl")
	c02frag(p, r, "C02.frag")
	c02rsv(p, r, "C02.rsv")
	c02close(p, r, "C02.close")
	c14side(p, r, "C02.side")
	c14sideUse(p, r, "C02.side.use")
	env := getLockEnv(p)
	c05pair(p, r, env, "C02.msglock.pair")
	c05msglock(p, r, "C02.msglock")
	c02flush(p, r, "C02.flush")
	cFramePayload(p, r, "C02.payload")
	cCloseFrameSites(p, r, "C02.close.sites")
}

var bytesLenRe = regexp.MustCompile(`^\(len\(call:CloseError\.bytes@[^ ]*\) > (\d+)\)$`)

// emitterSites: call sites that operate on the connection's bufio.Writer or write to rwc.
func emitterSites(p *Program) []callSite {
	bw := p.Field("Conn.bw")
	rwc := p.Field("Conn.rwc")
	wfh := p.FuncOpt("writeFrameHeader")
	var out []callSite
	// the connection's writer/transport: the fields themselves, writeFrameHeader's parameter, and a parameter of a helper
	// outside the reference tree that receives one of these at a call site
	var isSink func(o ssa.Value, depth int) bool
	isSink = func(o ssa.Value, depth int) bool {
		if bw != nil && derivesFromField(o, bw) || rwc != nil && derivesFromField(o, rwc) || isParamOf(o, wfh, "w") {
			return true
		}
		if prm, ok := o.(*ssa.Parameter); ok && depth < 4 && prm.Parent() != nil && !knownFuncs[p.rawName(prm.Parent())] {
			idx := -1
			for i, x := range prm.Parent().Params {
				if x == prm {
					idx = i
				}
			}
			for _, cs := range p.CallersOf(prm.Parent()) {
				if idx >= 0 && idx < len(cs.Instr.Common().Args) && isSink(cs.Instr.Common().Args[idx], depth+1) {
					return true
				}
			}
		}
		return false
	}
	for _, cs := range p.CallSites() {
		cc := cs.Instr.Common()
		if cs.Callee != nil && p.isLib(cs.Callee) && cs.Callee.Parent() == nil && !knownFuncs[p.rawName(cs.Callee)] {
			continue // handing the writer to a helper outside the reference tree: the helper's own sites are examined
		}
		var ops []ssa.Value
		if cc.IsInvoke() {
			ops = append(ops, cc.Value)
		}
		ops = append(ops, cc.Args...)
		for _, o := range ops {
			if isSink(o, 0) {
				out = append(out, cs)
				break
			}
		}
	}
	return out
}

func c02emit(p *Program, r *Report, rule string) {
	allowed := map[string]map[string]bool{
		"Conn.writeFrame":        {"writeFrameHeader": true, "(*bufio.Writer).Flush": true},
		"Conn.writeFramePayload": {"(*bufio.Writer).Write": true, "(*bufio.Writer).Flush": true, "(*bufio.Writer).Available": true, "(*bufio.Writer).Buffered": true},
		"writeFrameHeader":       {"(*bufio.Writer).WriteByte": true, "(*bufio.Writer).Write": true},
		"newConn":                {"extractBufioWriterBuf": true}, // runs on a dummy sink before the Conn is published
		"msgWriter.close":        {"putBufioWriter": true},        // teardown under forceLock(writeFrameMu)
		"Conn.closeTransport":    {"invoke io.ReadWriteCloser.Close": true},
		"Conn.close":             {"invoke io.ReadWriteCloser.Close": true},
		"netConn.RemoteAddr":     {}, "netConn.LocalAddr": {},
	}
	n := 0
	for _, cs := range emitterSites(p) {
		fname := p.FuncName(cs.Fn)
		if fname == "netConn.RemoteAddr" || fname == "netConn.LocalAddr" {
			continue // type assertions on rwc to report addresses; no I/O
		}
		r.UseFunc(fname)
		ok := true
		for _, owner := range p.siteOwners(cs.Fn) {
			if !(allowed[owner] != nil && allowed[owner][cs.Name]) {
				ok = false
			}
		}
		n++
		r.Exists(rule, fname, cs.Name, p.InstrPos(cs.Instr), ok,
			"transport output goes through writeFrame → writeFrameHeader/writeFramePayload only (single emitter); teardown and the constructor are the only other users of Conn.bw/Conn.rwc",
			"call "+cs.Name+" in "+fname)
	}
	r.Floor(rule, 8)
	for _, callee := range []string{"writeFrameHeader", "Conn.writeFramePayload"} {
		fn := p.FuncCallee(callee)
		if fn == nil {
			continue
		}
		for _, cs := range p.CallersOf(fn) {
			caller := p.FuncName(cs.Fn)
			r.Exists(rule+".callers", caller, callee, p.InstrPos(cs.Instr), caller == "Conn.writeFrame", callee+" is called from Conn.writeFrame only", "caller "+caller)
		}
	}
	r.Floor(rule+".callers", 2)
	// no address-taking of these functions (method values would escape the single-emitter argument)
	for _, name := range []string{"Conn.writeFrame", "writeFrameHeader", "Conn.writeFramePayload"} {
		fn := p.FuncOpt(name)
		if fn == nil {
			continue
		}
		if refs := fn.Referrers(); refs != nil {
			for _, ref := range *refs {
				if ci, ok := ref.(ssa.CallInstruction); ok && ci.Common().Value == fn {
					continue
				}
				r.Exists(rule+".escape", name, "function value escapes", p.InstrPos(ref), false, "emitter functions are only called directly", ref.String())
			}
		}
	}
}

// writeFrameDecide: successful acquisition and all I/O succeeding, connection open.
func writeFrameOKDecide(key string, cond AV) (bool, bool) {
	switch {
	case strings.HasPrefix(key, "(call:mu.lock@"),
		strings.HasPrefix(key, "(call:io.ReadFull@"),
		strings.HasPrefix(key, "(call:writeFrameHeader@"),
		strings.HasPrefix(key, "(call:Conn.writeFramePayload@"),
		strings.HasPrefix(key, "(call:(*bufio.Writer).Flush@"):
		return true, true // == nil
	}
	return false, false
}

func structField(a AV, name string) AV {
	sv, ok := a.(*StructV)
	if !ok {
		return nil
	}
	st, ok := sv.T.Underlying().(*types.Struct)
	if !ok {
		return nil
	}
	for i := 0; i < st.NumFields(); i++ {
		if fieldName(st.Field(i)) == name {
			return sv.Fields[i]
		}
	}
	return nil
}

func c02mask(p *Program, r *Report, rule string) {
	fn := p.Func("Conn.writeFrame")
	if fn == nil {
		return
	}
	p.runTable(r, tableSpec{
		Rule: rule, Fn: fn,
		Atoms:  []Atom{boolAtom("Conn.client"), boolAtom("Conn.closeSent"), intAtom("param:opcode", []int64{0, 1, 2, 8, 9, 10})},
		Decide: func(v Valuation) func(string, AV) (bool, bool) { return writeFrameOKDecide },
		Classify: func(v Valuation, pa *Path) string {
			hs := pa.Calls("writeFrameHeader")
			if len(hs) == 0 {
				return "" // not an emitting path
			}
			if len(hs) > 1 {
				return "TWO-HEADERS"
			}
			h := hs[0].Args[0]
			masked, key := structField(h, "masked"), structField(h, "maskKey")
			if masked == nil {
				return "HEADER-NOT-ASSEMBLED"
			}
			if b, ok := avBool(masked); ok && b {
				// key must be LittleEndian.Uint32 over writeHeaderBuf, filled by io.ReadFull(rand.Reader, writeHeaderBuf[:4]) earlier on this path
				idx := -1
				for i, e := range pa.Events {
					if e == hs[0] {
						idx = i
					}
				}
				fresh := false
				for _, e := range pa.Events[:idx] {
					if isCall(e, "io.ReadFull") && argKey(e, 0) == "G:rand.Reader" && keyIs(e.Args[1], "slice(&Conn.writeHeaderBuf,_,4,_)") {
						fresh = true
					}
				}
				if fresh && keyIs(key, "call:(binary.littleEndian).Uint32@@") {
					if ke, ok := key.(*Expr); ok && len(ke.Args) == 2 && keyIs(ke.Args[1], "slice(&Conn.writeHeaderBuf,_,__,_)") {
						return "MASKED-FRESH-KEY"
					}
				}
				return "MASKED-STALE-KEY(" + key.Key() + ")"
			}
			if masked.Key() == "Conn.writeHeader.masked" {
				return "UNMASKED-FIELD-UNTOUCHED"
			}
			return "MASKED=" + masked.Key()
		},
		Oracle: func(v Valuation) []string {
			if op := v.Int("param:opcode"); v.Bool("Conn.closeSent") && op != 9 && op != 10 {
				return []string{"NONE"} // nothing is emitted after a Close frame (C16)
			}
			if v.Bool("Conn.client") {
				return []string{"MASKED-FRESH-KEY"}
			}
			return []string{"UNMASKED-FIELD-UNTOUCHED"}
		},
		What: "RFC 6455 §5.3: every client frame is masked with a key freshly drawn from crypto/rand for this frame; a server never masks",
	})
	// who writes header.masked: only writeFrame (const true) and readFrameHeader
	if f := p.Field("header.masked"); f != nil {
		for _, fa := range p.FieldAccesses(f) {
			if !fa.Write && !fa.Addr {
				continue
			}
			fname := p.FuncName(fa.Fn)
			ok := fname == "readFrameHeader"
			if p.ownedBy(fa.Fn, func(o string) bool { return o == "Conn.writeFrame" }) && fa.Store != nil {
				if c, isC := fa.Store.Val.(*ssa.Const); isC && c.Value != nil && c.Value.ExactString() == "true" {
					ok = true
				}
			}
			r.Exists(rule+".writers", fname, "store header.masked", p.InstrPos(fa.Instr), ok, "header.masked is stored only by readFrameHeader and (constant true, client role) by writeFrame; the zero value false is what a server sends", "store in "+fname)
		}
		r.Floor(rule+".writers", 2)
	}
	// whole-struct stores to Conn.writeHeader would bypass the field rules
	if f := p.Field("Conn.writeHeader"); f != nil {
		for _, fa := range p.FieldAccesses(f) {
			if fa.Write {
				r.Exists(rule+".writers", p.FuncName(fa.Fn), "store Conn.writeHeader", p.InstrPos(fa.Instr), false, "Conn.writeHeader is only updated field by field in writeFrame", "whole-struct store")
			}
		}
	}
	// byte order agreement of the key
	orders := map[string]string{}
	for _, cs := range p.CallSites() {
		if !(strings.HasSuffix(cs.Name, ".Uint32") || strings.HasSuffix(cs.Name, ".PutUint32")) {
			continue
		}
		for _, fname := range p.ownersOf(cs.Fn) {
			if fname == "Conn.writeFrame" || fname == "writeFrameHeader" || fname == "readFrameHeader" {
				orders[fname] = cs.Name[:strings.LastIndex(cs.Name, ".")]
			}
		}
	}
	same := len(orders) == 3
	for _, o := range orders {
		if o != "(binary.littleEndian)" {
			same = false
		}
	}
	r.Check(rule+".order", "writeFrame/writeFrameHeader/readFrameHeader", "mask key byte order", "-", same, "the mask key is converted with the same byte order (LittleEndian, matching maskGo) at all three sites", fmt.Sprint(orders))
}

// c02flush: a final frame (and every control frame, which is final) is flushed to the transport
// before writeFrame reports success; otherwise a pong or close frame would sit in the buffer.
func c02flush(p *Program, r *Report, rule string) {
	fn := p.Func("Conn.writeFrame")
	if fn == nil {
		return
	}
	p.runTable(r, tableSpec{
		Rule: rule, Fn: fn,
		Atoms:  []Atom{boolAtom("param:fin"), boolAtom("Conn.client"), boolAtom("Conn.closeSent"), intAtom("param:opcode", []int64{0, 1, 2, 8, 9, 10})},
		Decide: func(v Valuation) func(string, AV) (bool, bool) { return writeFrameOKDecide },
		Classify: func(v Valuation, pa *Path) string {
			if len(pa.Calls("writeFrameHeader")) == 0 {
				return ""
			}
			hi := eventIndex(pa, 0, func(e *Event) bool { return isCall(e, "writeFrameHeader") })
			pi := eventIndex(pa, 0, func(e *Event) bool { return isCall(e, "Conn.writeFramePayload") })
			fi := eventIndex(pa, 0, func(e *Event) bool { return isCall(e, "(*bufio.Writer).Flush") && argKey(e, 0) == "Conn.bw" })
			if pi < hi {
				return "PAYLOAD-BEFORE-HEADER"
			}
			if pi >= 0 {
				// the payload is the last argument (parameters handed down in front of it do not matter)
				pe := pa.Events[pi]
				if last := len(pe.Args) - 1; last < 1 || argKey(pe, last) != "param:p" {
					return "PAYLOAD=" + argKey(pe, last)
				}
			}
			if fi >= 0 && fi < pi {
				return "FLUSH-BEFORE-PAYLOAD"
			}
			if fi >= 0 {
				return "HEADER,PAYLOAD,FLUSH"
			}
			return "HEADER,PAYLOAD"
		},
		Oracle: func(v Valuation) []string {
			if op := v.Int("param:opcode"); v.Bool("Conn.closeSent") && op != 9 && op != 10 {
				return []string{"NONE"}
			}
			if v.Bool("param:fin") {
				return []string{"HEADER,PAYLOAD,FLUSH"}
			}
			return []string{"HEADER,PAYLOAD", "HEADER,PAYLOAD,FLUSH"}
		},
		What: "a frame is emitted as header, then the payload p, and — when it is final — flushed to the transport before success is reported",
	})
}

// c02type: the MessageType argument of Write / Writer becomes the opcode of the first frame. Conn.writer, which every
// write entry point goes through, refuses everything but text (1) and binary (2) before the message writer is reset:
// 0 would be a continuation frame with no message in progress, 3-7 and 11-15 reserved opcodes, 8-10 control frames of any
// length, larger values reserved bits (F39).
func c02type(p *Program, r *Report, rule string) {
	fn := p.Func("Conn.writer")
	if fn == nil {
		return
	}
	p.runTable(r, tableSpec{
		Rule: rule, Fn: fn,
		Atoms: []Atom{intAtom("param:typ", []int64{-1, 0, 1, 2, 3, 7, 8, 9, 10, 11, 15, 16, 0x31, 0x42, 0x81, 0x82, 255, 256, 1 << 20})},
		Classify: func(v Valuation, pa *Path) string {
			if pa.End != "return" {
				return pa.End
			}
			rs := pa.Calls("msgWriter.reset")
			switch {
			case len(rs) == 0 && retErr(pa) == "nonnil":
				if c, ok := pa.Ret[0].(*Const); ok && c.IsNil {
					return "REFUSED"
				}
				return "REFUSED-WITH-A-WRITER"
			case len(rs) == 1 && (argKey(rs[0], 2) == "param:typ" || v.Int("param:typ") >= 0 && argKey(rs[0], 2) == fmt.Sprint(v.Int("param:typ"))):
				return "STARTED"
			}
			if len(rs) == 1 {
				return "STARTED-WITH " + argKey(rs[0], 2)
			}
			return "OTHER"
		},
		Oracle: func(v Valuation) []string {
			if t := v.Int("param:typ"); t == 1 || t == 2 {
				return []string{"STARTED"}
			}
			return []string{"REFUSED"}
		},
		What: "Conn.writer starts a message (msgWriter.reset(ctx, typ)) only for MessageText and MessageBinary; every other value of the type is refused with an error and no writer before anything is reset or written",
	})
	// every write entry point goes through it
	for _, name := range []string{"Conn.Writer", "Conn.write"} {
		if f := p.FuncOpt(name); f != nil {
			name := name
			p.forAllPaths(r, rule, f, "through Conn.writer", Opts{}, name+" obtains its writer from Conn.writer with the caller's type", func(pa *Path) (bool, string) {
				if len(pa.Calls("msgWriter.reset")) > 0 {
					return false, "resets the message writer directly"
				}
				for _, w := range pa.Calls("Conn.writer") {
					if argKey(w, 2) != "param:typ" {
						return false, "type handed on: " + argKey(w, 2)
					}
				}
				return true, ""
			})
		}
	}
}

func c02bits(p *Program, r *Report, rule string) {
	fn := p.Func("writeFrameHeader")
	if fn == nil {
		return
	}
	lens := candidates(intConstsCompared(fn), 0, 125, 126, 65535, 65536, 1<<31, 1<<62)
	var pos []int64
	for _, l := range lens {
		if l >= 0 {
			pos = append(pos, l)
		}
	}
	okDecide := func(v Valuation) func(string, AV) (bool, bool) {
		return func(key string, cond AV) (bool, bool) {
			if strings.HasPrefix(key, "(call:(*bufio.Writer).") {
				return true, true
			}
			return false, false
		}
	}
	// first byte
	p.runTable(r, tableSpec{
		Rule: rule + ".byte0", Fn: fn,
		Atoms:  []Atom{boolAtom("header.fin"), boolAtom("header.rsv1"), boolAtom("header.rsv2"), boolAtom("header.rsv3"), intAtom("header.payloadLength", []int64{0}), boolAtom("header.masked")},
		Decide: okDecide,
		Classify: func(v Valuation, pa *Path) string {
			wb := pa.Calls("(*bufio.Writer).WriteByte")
			if len(wb) < 1 {
				return "NO-BYTE"
			}
			if keyIs(wb[0].Args[1], "convert:byte(param:h.opcode)") {
				return "0x00|opcode"
			}
			e, ok := wb[0].Args[1].(*Expr)
			if !ok || e.Op != "binop" || e.Name != "|" {
				return "BYTE0=" + wb[0].Args[1].Key()
			}
			c, ok := avInt(e.Args[0])
			if !ok || !keyIs(e.Args[1], "convert:byte(param:h.opcode)") {
				return "BYTE0=" + e.Key()
			}
			return fmt.Sprintf("0x%02x|opcode", c)
		},
		Oracle: func(v Valuation) []string {
			b := 0
			if v.Bool("header.fin") {
				b |= 0x80
			}
			if v.Bool("header.rsv1") {
				b |= 0x40
			}
			if v.Bool("header.rsv2") {
				b |= 0x20
			}
			if v.Bool("header.rsv3") {
				b |= 0x10
			}
			return []string{fmt.Sprintf("0x%02x|opcode", b)}
		},
		What: "RFC 6455 §5.2 first header byte: FIN 0x80, RSV1 0x40, RSV2 0x20, RSV3 0x10, opcode in the low nibble unshifted",
	})
	// second byte + extended length + mask key
	lenSpec := tableSpec{Rule: rule + ".len", Fn: fn, Decide: okDecide}
	func(ts *tableSpec) {
		ts.Atoms = []Atom{boolAtom("header.masked"), intAtom("header.payloadLength", pos)}
		ts.Classify = func(v Valuation, pa *Path) string {
			wb := pa.Calls("(*bufio.Writer).WriteByte")
			if len(wb) != 2 {
				return fmt.Sprintf("%d-WriteByte", len(wb))
			}
			b1, ok := avInt(wb[1].Args[1])
			if !ok {
				return "BYTE1=" + wb[1].Args[1].Key()
			}
			var parts []string
			parts = append(parts, fmt.Sprintf("0x%02x", b1))
			n := v.Int("header.payloadLength")
			for _, e := range pa.Events {
				switch {
				case isCall(e, "(binary.bigEndian).PutUint16"):
					if x, ok := avInt(e.Args[2]); ok && argKey(e, 1) == "param:buf" {
						parts = append(parts, fmt.Sprintf("BE16(%d)", x))
					} else {
						parts = append(parts, "BE16(?)")
					}
				case isCall(e, "(binary.bigEndian).PutUint64"):
					if x, ok := avInt(e.Args[2]); ok && argKey(e, 1) == "param:buf" && x == n {
						parts = append(parts, "BE64(n)")
					} else {
						parts = append(parts, "BE64(?)")
					}
				case isCall(e, "(binary.littleEndian).PutUint32"):
					if argKey(e, 1) == "param:buf" && keyIs(e.Args[2], "param:h.maskKey") {
						parts = append(parts, "LE32(key)")
					} else {
						parts = append(parts, "LE32(?)")
					}
				case isCall(e, "(*bufio.Writer).Write"):
					parts = append(parts, "W:"+strings.ReplaceAll(argKey(e, 1), "param:", ""))
				case e.Kind == "call" && strings.Contains(e.Callee, "Endian"):
					parts = append(parts, e.Callee)
				}
			}
			if retErr(pa) != "nil" {
				parts = append(parts, "ERR")
			}
			return strings.Join(parts, " ")
		}
		ts.Oracle = func(v Valuation) []string {
			n := v.Int("header.payloadLength")
			m := 0
			if v.Bool("header.masked") {
				m = 0x80
			}
			var parts []string
			switch {
			case n <= 125:
				parts = append(parts, fmt.Sprintf("0x%02x", m|int(n)))
			case n <= 65535:
				parts = append(parts, fmt.Sprintf("0x%02x", m|126), fmt.Sprintf("BE16(%d)", n), "W:slice(buf,_,2,_)")
			default:
				parts = append(parts, fmt.Sprintf("0x%02x", m|127), "BE64(n)", "W:buf")
			}
			if m != 0 {
				parts = append(parts, "LE32(key)", "W:slice(buf,_,4,_)")
			}
			return []string{strings.Join(parts, " ")}
		}
		ts.What = "RFC 6455 §5.2 second header byte and minimal extended length: ≤125 inline; ≤65535 marker 126 + 2 bytes big-endian; else marker 127 + 8 bytes big-endian; then the 4 key bytes iff masked"
	}(&lenSpec)
	p.runTable(r, lenSpec)
}

func c02ctl(p *Program, r *Report, rule string) {
	wf := p.Func("Conn.writeFrame")
	wc := p.Func("Conn.writeControl")
	if wf == nil || wc == nil {
		return
	}
	isControl := func(v ssa.Value) (int64, bool) {
		if c, ok := v.(*ssa.Const); ok && c.Value != nil {
			x, _ := constInt64(c.Value)
			return x, true
		}
		return 0, false
	}
	// every writeFrame caller: classify opcode argument
	for _, cs := range p.CallersOf(wf) {
		caller := p.FuncName(cs.Fn)
		r.UseFunc(caller)
		args := cs.Instr.Common().Args // c, ctx, fin, flate, opcode, p
		if len(args) != 6 {
			r.Undecide("%s: unexpected writeFrame signature", rule)
			return
		}
		op := args[4]
		switch caller {
		case "Conn.writeControl":
			finC, ok1 := args[2].(*ssa.Const)
			flC, ok2 := args[3].(*ssa.Const)
			_, isParam := op.(*ssa.Parameter)
			ok := ok1 && ok2 && finC.Value != nil && finC.Value.ExactString() == "true" && flC.Value != nil && flC.Value.ExactString() == "false" && isParam
			r.Check(rule, caller, "writeFrame(fin,flate)", p.InstrPos(cs.Instr), ok, "writeControl emits its frame with fin=true, flate=false (control frames are never fragmented nor compressed)", fmt.Sprintf("fin=%v flate=%v opcode=%v", args[2], args[3], op))
		default:
			// data-frame callers: opcode must be the msgWriter.opcode field (never a control constant)
			f := p.Field("msgWriter.opcode")
			ok := f != nil && derivesFromField(op, f)
			if c, isC := isControl(op); isC {
				ok = c < 8 && false
			}
			r.Check(rule, caller, "writeFrame(opcode)", p.InstrPos(cs.Instr), ok, "outside writeControl, writeFrame is called with the message writer's opcode field only (data frames)", fmt.Sprintf("opcode=%v", op))
		}
	}
	r.Floor(rule, 4)
	// writeControl call sites: opcode constants and payload bounds
	for _, cs := range p.CallersOf(wc) {
		caller := p.FuncName(cs.Fn)
		r.UseFunc(caller)
		args := cs.Instr.Common().Args // c, ctx, opcode, p
		opc, isC := isControl(args[2])
		okOp := isC && (opc == 8 || opc == 9 || opc == 10)
		r.Check(rule+".op", caller, fmt.Sprintf("writeControl(opcode=%v)", args[2]), p.InstrPos(cs.Instr), okOp, "writeControl is called with a constant control opcode (8, 9, 10)", fmt.Sprintf("opcode %v", args[2]))
		ok, why := controlPayloadBounded(p, cs.Fn, args[3])
		r.Check(rule+".bound", caller, fmt.Sprintf("writeControl(opcode=%v) payload", args[2]), p.InstrPos(cs.Instr), ok, "control payload ≤ 125 bytes: slice of the [125]byte control buffer, decimal of an int32, or CloseError.bytes() (reason ≤ 123 checked by C02.close)", why)
	}
	r.Floor(rule+".op", 3)
}

// controlPayloadBounded recognises the three idioms that bound a control payload by 125.
func controlPayloadBounded(p *Program, fn *ssa.Function, v ssa.Value) (bool, string) {
	seen := map[ssa.Value]bool{}
	var rec func(v ssa.Value) (bool, string)
	rec = func(v ssa.Value) (bool, string) {
		if seen[v] {
			return true, "cycle"
		}
		seen[v] = true
		switch x := v.(type) {
		case *ssa.Const:
			if x.Value == nil {
				return true, "nil payload"
			}
		case *ssa.Slice:
			if fa, ok := x.X.(*ssa.FieldAddr); ok && fieldName(fieldOf(fa)) == "readControlBuf" {
				if arr, ok := derefType(fa.Type()).Underlying().(*types.Array); ok && arr.Len() <= 125 {
					return true, "slice of Conn.readControlBuf ([" + fmt.Sprint(arr.Len()) + "]byte)"
				}
			}
			return rec(x.X)
		case *ssa.Convert:
			// []byte(string): bound the string
			return rec(x.X)
		case *ssa.Parameter:
			// all callers of fn must pass a bounded value
			idx := -1
			for i, prm := range fn.Params {
				if prm == x {
					idx = i
				}
			}
			callers := p.CallersOf(fn)
			if idx < 0 || len(callers) == 0 {
				return false, "parameter " + x.Name() + " of " + p.FuncName(fn) + " has no resolvable callers"
			}
			var whys []string
			for _, cs := range callers {
				ok, why := controlPayloadBounded(p, cs.Fn, cs.Instr.Common().Args[idx])
				if !ok {
					return false, "caller " + p.FuncName(cs.Fn) + ": " + why
				}
				whys = append(whys, p.FuncName(cs.Fn)+": "+why)
			}
			return true, strings.Join(whys, "; ")
		case *ssa.Call:
			callee, name := p.calleeOf(&x.Call)
			_ = callee
			switch name {
			case "strconv.Itoa":
				// Itoa(int(int32)) ≤ 11 bytes
				if valueDerives(x.Call.Args[0], func(y ssa.Value) bool {
					if b, ok := y.Type().Underlying().(*types.Basic); ok {
						return b.Kind() == types.Int32 || b.Kind() == types.Int16 || b.Kind() == types.Int8 || b.Kind() == types.Uint8 || b.Kind() == types.Uint16
					}
					return false
				}, 3) {
					return true, "strconv.Itoa of a ≤32-bit integer (≤ 11 bytes)"
				}
				return false, "strconv.Itoa of an unbounded integer"
			case "CloseError.bytes", "CloseError.bytesErr":
				return true, "CloseError.bytes() (reason ≤ maxCloseReason enforced by bytesErr, see C02.close)"
			}
			// a helper outside the reference tree that hands on the result of the marshalling functions: every []byte it
			// returns is bounded the same way
			if callee != nil && p.isLib(callee) && !knownFuncs[p.rawName(callee)] && len(callee.Blocks) > 0 {
				all, n := true, 0
				for _, b := range callee.Blocks {
					for _, in := range b.Instrs {
						ret, ok := in.(*ssa.Return)
						if !ok || len(ret.Results) == 0 {
							continue
						}
						n++
						if c, isC := ret.Results[0].(*ssa.Const); isC && c.Value == nil {
							continue
						}
						if ok2, _ := controlPayloadBounded(p, callee, ret.Results[0]); !ok2 {
							all = false
						}
					}
				}
				if all && n > 0 {
					return true, "helper " + name + " returns bounded payloads only"
				}
			}
			return false, "result of " + name
		case *ssa.Extract:
			return rec(x.Tuple)
		case *ssa.Phi:
			var whys []string
			for _, e := range x.Edges {
				ok, why := rec(e)
				if !ok {
					return false, why
				}
				whys = append(whys, why)
			}
			return true, strings.Join(whys, " | ")
		case *ssa.UnOp:
			// load of a local: look at stores
			if al, ok := x.X.(*ssa.Alloc); ok {
				var whys []string
				for _, ref := range *al.Referrers() {
					if st, ok := ref.(*ssa.Store); ok && st.Addr == al {
						ok2, why := rec(st.Val)
						if !ok2 {
							return false, why
						}
						whys = append(whys, why)
					}
				}
				if len(whys) > 0 {
					return true, strings.Join(whys, " | ")
				}
			}
		}
		return false, "unbounded payload expression " + v.String()
	}
	return rec(v)
}

func c02frag(p *Program, r *Report, rule string) {
	f := p.Field("msgWriter.opcode")
	if f == nil {
		return
	}
	n := 0
	for _, fa := range p.FieldAccesses(f) {
		if !fa.Write {
			if fa.Addr {
				r.Exists(rule, p.FuncName(fa.Fn), "address of msgWriter.opcode escapes", p.InstrPos(fa.Instr), false, "msgWriter.opcode is only loaded and stored directly", "address taken")
			}
			continue
		}
		n++
		fname := p.FuncName(fa.Fn)
		r.UseFunc(fname)
		ok := false
		detail := fa.Store.Val.String()
		switch fname {
		case "msgWriter.reset":
			// from the typ parameter
			ok = valueDerives(fa.Store.Val, func(v ssa.Value) bool {
				pr, isP := v.(*ssa.Parameter)
				if !isP {
					return false
				}
				if paramName(pr) == "typ" {
					return true
				}
				// the conversion opcode(typ) done by the caller: an opcode parameter whose every call site converts a MessageType
				if strings.HasSuffix(typeString(pr.Type()), "opcode") {
					idx := -1
					for k, q := range pr.Parent().Params {
						if q == pr {
							idx = k
						}
					}
					sites := p.CallersOf(pr.Parent())
					good := idx >= 0 && len(sites) > 0
					for _, cs := range sites {
						cv, isConv := cs.Instr.Common().Args[idx].(*ssa.Convert)
						if !isConv || !strings.HasSuffix(typeString(cv.X.Type()), "MessageType") {
							if ct, isCT := cs.Instr.Common().Args[idx].(*ssa.ChangeType); !isCT || !strings.HasSuffix(typeString(ct.X.Type()), "MessageType") {
								good = false
							}
						}
					}
					return good
				}
				return false
			}, 3)
		case "msgWriter.write":
			c, isC := fa.Store.Val.(*ssa.Const)
			ok = isC && c.Value != nil && c.Value.ExactString() == "0"
		}
		r.Check(rule, fname, "store msgWriter.opcode", p.InstrPos(fa.Instr), ok, "msgWriter.opcode is set from the message type in reset and to opContinuation (0) in write, nowhere else", detail)
	}
	r.Floor(rule, 2)
	// in msgWriter.write the continuation store happens only after a successful writeFrame
	if fn := p.Func("msgWriter.write"); fn != nil {
		p.forAllPaths(r, rule+".after", fn, "opcode=continuation only after the frame was written", Opts{},
			"the store opcode = opContinuation lies on the nil-error edge of writeFrame (a failed first frame does not turn the next one into a continuation)", func(pa *Path) (bool, string) {
				for i, e := range pa.Events {
					if e.Kind == "store" && e.AddrK == "msgWriter.opcode" {
						wi := eventIndex(pa, 0, func(x *Event) bool { return isCall(x, "Conn.writeFrame") })
						if wi < 0 || wi > i {
							return false, "store before writeFrame"
						}
						if v, ok := decidedLike(pa, "call:Conn.writeFrame@@#1 == nil"); !ok || !v {
							return false, "store not on the nil-error edge"
						}
					}
				}
				return true, ""
			})
	}
	// fin argument: constant true only in msgWriter.Close and Conn.write; false in msgWriter.write
	if wf := p.Func("Conn.writeFrame"); wf != nil {
		for _, cs := range p.CallersOf(wf) {
			caller := p.FuncName(cs.Fn)
			fin := cs.Instr.Common().Args[2]
			c, isC := fin.(*ssa.Const)
			val := ""
			if isC && c.Value != nil {
				val = c.Value.ExactString()
			}
			want := map[string]string{"msgWriter.write": "false", "msgWriter.Close": "true", "Conn.write": "true", "Conn.writeControl": "true"}
			w, known := want[caller]
			r.Check(rule+".fin", caller, "writeFrame(fin)", p.InstrPos(cs.Instr), known && val == w, "fin is constant: false for streamed fragments (msgWriter.write), true in msgWriter.Close, the single-frame Conn.write path and writeControl", fmt.Sprintf("fin=%v", fin))
		}
	}
}

func c02rsv(p *Program, r *Report, rule string) {
	// rsv2 / rsv3 never written outside readFrameHeader
	for _, name := range []string{"header.rsv2", "header.rsv3"} {
		f := p.Field(name)
		if f == nil {
			continue
		}
		cnt := 0
		for _, fa := range p.FieldAccesses(f) {
			if fa.Write || fa.Addr {
				cnt++
				fname := p.FuncName(fa.Fn)
				r.Exists(rule+"23", fname, "store "+name, p.InstrPos(fa.Instr), fname == "readFrameHeader", name+" is stored only when decoding a received header; no emitted header ever sets it", "store in "+fname)
			}
		}
		if cnt == 0 {
			r.Note("%s: no store to %s found at all", rule, name)
		}
	}
	r.Floor(rule+"23", 2)
	fn := p.Func("Conn.writeFrame")
	if fn == nil {
		return
	}
	ops := []int64{}
	for _, o := range opcodeCandidates(fn) {
		if o >= 0 && o <= 16 {
			ops = append(ops, o)
		}
	}
	p.runTable(r, tableSpec{
		Rule: rule + "1", Fn: fn,
		Atoms:  []Atom{boolAtom("param:flate"), intAtom("param:opcode", ops), boolAtom("Conn.client"), boolAtom("Conn.closeSent")},
		Decide: func(v Valuation) func(string, AV) (bool, bool) { return writeFrameOKDecide },
		Classify: func(v Valuation, pa *Path) string {
			hs := pa.Calls("writeFrameHeader")
			if len(hs) == 0 {
				return ""
			}
			h := hs[0].Args[0]
			out := "rsv1=" + keyOf(structField(h, "rsv1"))
			for _, f := range []string{"rsv2", "rsv3"} {
				x := structField(h, f)
				if x == nil || x.Key() != "Conn.writeHeader."+f {
					out += " " + f + "=" + keyOf(x)
				}
			}
			if k := keyOf(structField(h, "opcode")); k != fmt.Sprint(v.Int("param:opcode")) {
				out += " opcode=" + k
			}
			if k := keyOf(structField(h, "fin")); k != "param:fin" {
				out += " fin=" + k
			}
			if k := keyOf(structField(h, "payloadLength")); k != "convert:int64(len(param:p))" {
				out += " payloadLength=" + k
			}
			return out
		},
		Oracle: func(v Valuation) []string {
			op := v.Int("param:opcode")
			if v.Bool("Conn.closeSent") && op != 9 && op != 10 {
				return []string{"NONE"}
			}
			if v.Bool("param:flate") && (op == 1 || op == 2) {
				return []string{"rsv1=true"}
			}
			return []string{"rsv1=false"}
		},
		What: "RFC 7692 §6: RSV1 is set iff the message is compressed and this is its first frame (text/binary); the emitted header carries the call's fin, opcode and len(p) and leaves rsv2/rsv3 untouched (zero)",
	})
	// the flate argument: constant false or the msgWriter.flate field
	mf := p.Field("msgWriter.flate")
	for _, cs := range p.CallersOf(fn) {
		caller := p.FuncName(cs.Fn)
		fl := cs.Instr.Common().Args[3]
		c, isC := fl.(*ssa.Const)
		ok := isC && c.Value != nil && c.Value.ExactString() == "false" || mf != nil && derivesFromField(fl, mf)
		r.Check(rule+"1.arg", caller, "writeFrame(flate)", p.InstrPos(cs.Instr), ok, "the flate argument is the constant false or msgWriter.flate", fmt.Sprintf("flate=%v", fl))
	}
	// msgWriter.flate is set true only in ensureFlate; ensureFlate is reached only under c.flate() ∧ opcode ≠ continuation
	if mf != nil {
		for _, fa := range p.FieldAccesses(mf) {
			if !fa.Write {
				continue
			}
			fname := p.FuncName(fa.Fn)
			c, isC := fa.Store.Val.(*ssa.Const)
			val := ""
			if isC && c.Value != nil {
				val = c.Value.ExactString()
			}
			ok := fname == "msgWriter.ensureFlate" && val == "true" || fname == "msgWriter.reset" && val == "false"
			r.Check(rule+"1.flag", fname, "store msgWriter.flate="+val, p.InstrPos(fa.Instr), ok, "msgWriter.flate is set true only by ensureFlate and reset to false by reset", "store "+val+" in "+fname)
		}
	}
	if mw := p.Func("msgWriter.Write"); mw != nil {
		p.forAllPaths(r, rule+"1.decide", mw, "ensureFlate guarded", Opts{Inline: p.inlineSet("Conn.flate")},
			"ensureFlate is called only when compression was negotiated (copts != nil), on the first frame of the message (opcode ≠ continuation) and len(p) ≥ flateThreshold", func(pa *Path) (bool, string) {
				if len(pa.Calls("msgWriter.ensureFlate")) == 0 {
					return true, ""
				}
				neg, ok1 := decidedLike(pa, "Conn.copts == nil")
				cont, ok2 := decidedLike(pa, "msgWriter.opcode == 0")
				thr, ok3 := decidedRel(pa, "len(param:p)", ">=", "Conn.flateThreshold")
				if ok1 && !neg && ok2 && !cont && ok3 && thr {
					return true, ""
				}
				return false, fmt.Sprintf("ensureFlate reached with copts==nil:%v/%v opcode==0:%v/%v len<thr:%v/%v", neg, ok1, cont, ok2, thr, ok3)
			})
	}
	for _, cs := range p.CallersOf(p.FuncOpt("msgWriter.ensureFlate")) {
		caller := p.FuncName(cs.Fn)
		r.Exists(rule+"1.decide", caller, "call ensureFlate", p.InstrPos(cs.Instr), caller == "msgWriter.Write", "ensureFlate is called from msgWriter.Write only", caller)
	}
}

func keyOf(a AV) string {
	if a == nil {
		return "<nil>"
	}
	return a.Key()
}

func c02close(p *Program, r *Report, rule string) {
	c02closeCodes(p, r, rule+".codes")
	maxReason := int64(123)
	if fn := p.Func("CloseError.bytesErr"); fn != nil {
		p.runTable(r, tableSpec{
			Rule: rule + ".bytesErr", Fn: fn,
			Atoms: []Atom{intAtom("len(param:ce.Reason)", candidates(intConstsCompared(fn), 0, 123, 124, 125)), boolAtom("call:validWireCloseCode")},
			Classify: func(v Valuation, pa *Path) string {
				switch retErr(pa) {
				case "nonnil":
					if c, ok := pa.Ret[0].(*Const); ok && c.IsNil {
						return "REJECT"
					}
					return "REJECT-WITH-PAYLOAD"
				case "nil":
					// payload = 2+len bytes, code big-endian at 0, reason copied at 2
					buf := pa.Ret[0]
					e, ok := buf.(*Expr)
					if ok && e.Op == "call" && strings.HasPrefix(e.Name, "builtin append@") && len(e.Args) == 2 && keyIs(stripConvAll(e.Args[1]), "param:ce.Reason") {
						// the append spelling: append(BigEndian.AppendUint16(<empty>, uint16(code)), reason...)
						vc := pa.Calls("validWireCloseCode")
						if in, ok := e.Args[0].(*Expr); ok && in.Op == "call" && strings.HasPrefix(in.Name, "(binary.bigEndian).AppendUint16@") && len(in.Args) == 3 &&
							keyIs(in.Args[2], "convert:uint16(param:ce.Code)") && len(vc) == 1 && keyIs(vc[0].Args[0], "param:ce.Code") {
							empty := false
							if c, isC := in.Args[1].(*Const); isC && c.IsNil {
								empty = true
							}
							if ms, isE := in.Args[1].(*Expr); isE && ms.Op == "makeslice" {
								if n, ok := avInt(ms.Args[0]); ok && n == 0 {
									empty = true
								}
							}
							if empty {
								return "MARSHAL"
							}
						}
						return "OK-MALFORMED"
					}
					if !ok || e.Op != "makeslice" {
						return "OK-" + buf.Key()
					}
					if n, ok := avInt(e.Args[0]); !ok || n != 2+v.Int("len(param:ce.Reason)") {
						return "OK-LEN-" + e.Args[0].Key()
					}
					put := pa.Calls("(binary.bigEndian).PutUint16")
					cp := pa.Calls("builtin copy")
					vc := pa.Calls("validWireCloseCode")
					if len(put) == 1 && put[0].Args[1].Key() == buf.Key() && keyIs(put[0].Args[2], "convert:uint16(param:ce.Code)") &&
						len(cp) == 1 && keyIs(cp[0].Args[0], "slice("+buf.Key()+",2,_,_)") && keyIs(cp[0].Args[1], "param:ce.Reason") &&
						len(vc) == 1 && keyIs(vc[0].Args[0], "param:ce.Code") {
						return "MARSHAL"
					}
					return "OK-MALFORMED"
				}
				return retErr(pa)
			},
			Oracle: func(v Valuation) []string {
				n := v.Int("len(param:ce.Reason)")
				if n < 0 {
					return []string{"REJECT", "MARSHAL"}
				}
				if n > maxReason || !v.Bool("call:validWireCloseCode") {
					return []string{"REJECT"}
				}
				return []string{"MARSHAL"}
			},
			What: "Close payload: reason ≤ 123 bytes and a wire-valid code, else an error and no payload; payload = big-endian code followed by the reason",
		})
	}
	// writeClose: never reaches writeControl after a failed bytes(); payload nil exactly for 1005
	if fn := p.closeWriter(); fn != nil {
		p.runTable(r, tableSpec{
			Rule: rule + ".writeClose", Fn: fn,
			Atoms: []Atom{intAtom("param:code", []int64{1000, 1005, 1006, 3000}), boolAtom("bytes-ok")},
			Decide: func(v Valuation) func(string, AV) (bool, bool) {
				return func(key string, cond AV) (bool, bool) {
					if strings.HasPrefix(key, "(call:CloseError.bytes@") || strings.HasPrefix(key, "(call:CloseError.bytesErr@") {
						return v.Bool("bytes-ok"), true
					}
					// the payload bytes() returns is at most 2+123 bytes (C02.close.bytesErr): a re-check of that bound never fires
					if m := bytesLenRe.FindStringSubmatch(key); m != nil {
						if n, err := strconv.Atoi(m[1]); err == nil && n >= 125 {
							return false, true
						}
					}
					return false, false
				}
			},
			Classify: func(v Valuation, pa *Path) string {
				wc := pa.Calls("Conn.writeControl")
				by := pa.Calls("CloseError.bytes")
				if len(wc) == 0 {
					if retErr(pa) == "nonnil" {
						return "NOT-SENT-ERROR"
					}
					return "NOT-SENT-" + retErr(pa)
				}
				if op, ok := avInt(wc[0].Args[2]); !ok || op != 8 {
					return "SENT-OPCODE-" + argKey(wc[0], 2)
				}
				pl := wc[0].Args[3]
				if c, ok := pl.(*Const); ok && c.IsNil {
					return "SENT-EMPTY"
				}
				if len(by) == 0 {
					by = pa.Calls("CloseError.bytesErr") // bytes() inlined, or replaced by a helper that calls bytesErr itself
				}
				if len(by) == 1 && (keyIs(pl, "call:CloseError.bytes@@#0") || keyIs(pl, "call:CloseError.bytesErr@@#0")) {
					// the CloseError marshalled carries the call's code and reason
					if sv, ok := by[0].Args[0].(*StructV); ok {
						if c, ok := avInt(sv.Fields[0]); ok && c == v.Int("param:code") && keyIs(sv.Fields[1], "param:reason") {
							return "SENT-BYTES"
						}
					}
					return "SENT-BYTES-OF-" + by[0].Args[0].Key()
				}
				return "SENT-" + pl.Key()
			},
			Oracle: func(v Valuation) []string {
				if v.Int("param:code") == 1005 {
					return []string{"SENT-EMPTY"}
				}
				if !v.Bool("bytes-ok") {
					return []string{"NOT-SENT-ERROR"}
				}
				return []string{"SENT-BYTES"}
			},
			What: "writeClose sends opClose with exactly bytes() of {code, reason}; nothing is sent when marshalling failed; code 1005 sends an empty payload",
		})
	}
	// CloseError.bytes returns the error of bytesErr (does not swallow it)
	if fn := p.Func("CloseError.bytes"); fn != nil {
		p.forAllPaths(r, rule+".bytes", fn, "error propagated", Opts{}, "bytes() returns a non-nil error whenever bytesErr failed", func(pa *Path) (bool, string) {
			if v, ok := decidedLike(pa, "call:CloseError.bytesErr@@#1 == nil"); ok && !v {
				// an assertion on the fallback: a panic only after marshalling the constant {StatusInternalError, ""} failed as
				// well (it cannot) swallows nothing
				failed := 0
				re := pat("(call:CloseError.bytesErr@@#1 == nil)")
				for _, d := range pa.Decisions {
					if re.MatchString(d.Key) && !d.Val {
						failed++
					}
				}
				if pa.End == "panic" && failed >= 2 {
					return true, ""
				}
				if retErr(pa) != "nonnil" {
					return false, "bytesErr failed but bytes() returns " + retErr(pa)
				}
			}
			return true, ""
		})
	}
	if c, ok := p.ConstInt("maxCloseReason"); ok {
		r.Exists(rule+".const", "close.go", "maxCloseReason", "-", c == 123, "maxCloseReason = maxControlPayload - 2 = 123", fmt.Sprint(c))
	}
	if c, ok := p.ConstInt("maxControlPayload"); ok {
		r.Exists(rule+".const", "frame.go", "maxControlPayload", "-", c == 125, "maxControlPayload = 125", fmt.Sprint(c))
	}
}

var _ = sort.Strings
