package main

import (
	"regexp"
	"fmt"
	"go/token"
	"go/types"
	"strings"

	"golang.org/x/tools/go/ssa"
)

func init() {
	register("C09", propInfo{
		Explanation: "Durations are not decided. Decided are the structural conditions without which no bound exists: every blocking transport operation executes inside an armed timeout window (so timeoutLoop closes the transport when the armed context ends); the contexts on the close path are bounded by constants (5 s + 5 s, 15 s join); every blocking select / channel operation has an escape on closed, a timer or a context; CloseRead's context is cancelled by the goroutine that closes; that goroutine never waits for itself.",
		Decides: []string{
			"C09.mu: the channel lock itself (C06.recheck = C05.recheck = C07.mu = C09.mu): mu.lock returns nil only holding the lock and after re-polling closed, returns an error only without it, and never releases a lock this call did not acquire; forceLock is one blocking send, unlock at most one receive, tryLock true exactly when its non-blocking send was taken, and nothing else",
			"C09.armed: every read of frame bytes and every write/flush to the transport lies in Conn.readFrameHeader / readFramePayload / writeFrame after a taken send of the call's context on readTimeout / writeTimeout and before the re-arm",
			"C09.sites: no transport read or write site exists outside those functions (and the package-level readFrameHeader / writeFrameHeader / writeFramePayload they call inside the window)",
			"C09.ctx: writeClose and waitCloseHandshake use context.WithTimeout(context.Background(), 5s); handleControl / writeControl derive ≤5 s children; waitGoroutines uses a 15 s timer; waitCloseHandshake passes its bounded context to every read it performs",
			"C09.escape: every blocking select has a case on Conn.closed, a timer or a context's Done; bare channel operations are the frozen list (mu.forceLock, two dead timer drains in NetConn, the buffered error channel of xsync.Go)",
			"C09.cancel: the CloseRead goroutine defers the cancel of the context it returned and c.close()",
			"C09.selfjoin (=C20.selfjoin): a goroutine whose exit closes a done channel never synchronously reaches a receive on that channel",
		},
		NotDecided:  []string{"wall-clock bounds and promptness", "behaviour of the transport's Close (assumed to unblock pending I/O)"},
		Trusted:     []string{"go/types, go/ssa", "context / time contracts", "transport Close unblocks pending Read/Write"},
		Assumptions: []string{"rwc.Close() unblocks pending Read/Write on the transport"},
	}, runC09)
	register("C10", propInfo{
		Explanation: "Decided: the bracket discipline of the timeout channels. Each arming function sends the call's own context before its blocking section and context.Background() on every path that returns success (or has observed closed); nobody else sends on the channels; timeoutLoop waits on exactly the last received contexts and closes the connection when one ends; functions that derive a child context do not arm themselves.",
		Decides: []string{
			"C10.disarm: in readFrameHeader / readFramePayload / writeFrame every path returning a nil error ends with a taken send of context.Background() on the channel (or observed closed)",
			"C10.arm: the armed value is the function's ctx parameter; the arming send precedes the blocking operation",
			"C10.senders: sends on readTimeout / writeTimeout occur only in those three functions, on the matching channel",
			"C10.loop: timeoutLoop: a received context replaces the one waited on; either Done ↦ c.close() and return; closed ↦ return",
			"C10.child: handleControl, writeControl, writeClose, waitCloseHandshake derive a cancellable child and do not arm a channel themselves; callers pass their own ctx down (reader→readLoop→readFrameHeader; msgReader.read uses msgReader.ctx stored by reset; msgWriter uses msgWriter.ctx)",
		},
		NotDecided: []string{"promptness", "whether a call blocked on a lock or on the pong wait closes the connection when its context ends"},
		Trusted:    []string{"go/types, go/ssa", "context contracts"},
	}, runC10)
	register("C20", propInfo{
		Explanation: "Decided: the inventory of goroutines and timers the library starts is the frozen list; each spawned body closes its done channel in its first-registered defer; each body's loop/blocking operations escape on closed; Close and CloseNow pass waitGoroutines on every return path, which receives from both done channels; no goroutine waits for its own done channel.",
		Decides: []string{
			"C20.noreacquire (= C05.noreacquire): no goroutine of the library waits for a lock its own call stack holds",
			"C20.inventory: go statements and time.AfterFunc calls are exactly: newConn→timeoutLoop, CloseRead→closure, NetConn→2 timers (stopped in netConn.Close), dial→3 s timer (Stop deferred); xsync.Go has no library caller",
			"C20.done: timeoutLoop and the CloseRead closure register close(doneChannel) as their first defer",
			"C20.exit: timeoutLoop returns on closed and after either Done; the CloseRead body calls Reader (escapes on closed) and has c.close() deferred",
			"C20.join: every return path of Close / CloseNow calls waitGoroutines; waitGoroutines receives from timeoutLoopDone and, when CloseRead was started (closeReadCtx != nil under closeReadMu), from closeReadDone",
			"C20.selfjoin: CloseRead's goroutine and timeoutLoop never synchronously reach waitGoroutines",
		},
		NotDecided: []string{"real goroutine counts", "waitGoroutines' 15 s escape means 'joined, or an error is returned'"},
		Trusted:    []string{"go/types, go/ssa", "call graph with frozen dynamic-dispatch table"},
	}, runC20)
}

type armSpec struct {
	fn     string
	ch     string   // Conn.readTimeout / Conn.writeTimeout
	ops    []string // blocking transport operations inside the window
	errIdx int      // index of the error result
}

var armSpecs = []armSpec{
	{"Conn.readFrameHeader", "Conn.readTimeout", []string{"readFrameHeader"}, 1},
	{"Conn.readFramePayload", "Conn.readTimeout", []string{"io.ReadFull"}, 1},
	{"Conn.writeFrame", "Conn.writeTimeout", []string{"writeFrameHeader", "Conn.writeFramePayload", "(*bufio.Writer).Flush"}, 1},
}

func isBackground(a AV) bool { return a != nil && keyIs(a, "call:context.Background@@") }

// c09armed / c10 bracket rules on the three arming functions.
func armingRules(p *Program, r *Report, c09 bool, c10 bool) {
	for _, as := range armSpecs {
		fn := p.Func(as.fn)
		if fn == nil {
			continue
		}
		as := as
		if c09 {
			p.forAllPaths(r, "C09.armed", fn, "blocking I/O inside the armed window", Opts{},
				"every blocking transport operation is preceded on the path by a taken select-send of a non-background context on "+as.ch+" with no intervening send of context.Background() (timeoutLoop then closes the transport when that context ends)",
				func(pa *Path) (bool, string) {
					armed := false
					for _, e := range pa.Events {
						if e.Kind == "select" && e.Case >= 0 && e.Dir == types.SendOnly && e.Chan != nil && e.Chan.Key() == as.ch {
							armed = !isBackground(e.Val)
						}
						if e.Kind == "send" && e.Chan != nil && e.Chan.Key() == as.ch {
							armed = !isBackground(e.Val)
						}
						if isCall(e, as.ops...) && !e.Deferred && !armed {
							return false, e.Callee + " outside the armed window"
						}
					}
					return true, ""
				})
		}
		if c10 {
			p.forAllPaths(r, "C10.disarm", fn, "re-arm with Background on success", Opts{},
				"on every path that returns a nil error the last taken send on "+as.ch+" is context.Background() (or the path observed closed); otherwise a later cancellation of this call's context would close the connection",
				func(pa *Path) (bool, string) {
					if pa.End != "return" {
						return true, ""
					}
					if nilness(pa.Ret[as.errIdx], pa) == 1 || keyIs(pa.Ret[as.errIdx], "call:invoke context.Context.Err@@") {
						return true, "" // error return (ctx.Err() after Done was observed)
					}
					// error may be nil: look at the last send and at closed observations
					lastBg, sent, sawClosed := false, false, false
					for _, e := range pa.Events {
						if e.Kind == "select" && e.Case >= 0 {
							if e.Dir == types.SendOnly && e.Chan.Key() == as.ch {
								sent = true
								lastBg = isBackground(e.Val)
							}
							if e.Dir == types.RecvOnly && e.Chan.Key() == "Conn.closed" {
								sawClosed = true
							}
						}
					}
					if !sent || lastBg || sawClosed {
						return true, ""
					}
					return false, "returns " + pa.Ret[as.errIdx].Key() + " with its own context still armed"
				})
			p.forAllPaths(r, "C10.arm", fn, "arms its own ctx before blocking", Opts{},
				"the value armed is the function's ctx parameter and the arming send precedes the first blocking operation", func(pa *Path) (bool, string) {
					for _, e := range pa.Events {
						if (e.Kind == "select" && e.Case >= 0 && e.Dir == types.SendOnly || e.Kind == "send") && e.Chan != nil && e.Chan.Key() == as.ch {
							if !isBackground(e.Val) && e.Val.Key() != "param:ctx" {
								return false, "arms " + e.Val.Key()
							}
						}
					}
					return true, ""
				})
		}
	}
}

// sendersOnTimeoutChannels: who sends on readTimeout / writeTimeout.
func c10senders(p *Program, r *Report, rule string) {
	allowed := map[string]string{"Conn.readFrameHeader": "readTimeout", "Conn.readFramePayload": "readTimeout", "Conn.writeFrame": "writeTimeout"}
	n := 0
	type sendSite struct {
		fn *ssa.Function
		in ssa.Instruction
		ch ssa.Value
	}
	var sites []sendSite
	// a send on a parameter of a helper that is not part of the reference tree is a send at each of its call sites
	var lift func(fn *ssa.Function, in ssa.Instruction, ch ssa.Value, depth int)
	lift = func(fn *ssa.Function, in ssa.Instruction, ch ssa.Value, depth int) {
		if prm, ok := ch.(*ssa.Parameter); ok && !knownFuncs[p.rawName(fn)] && depth < 4 {
			idx := -1
			for i, x := range fn.Params {
				if x == prm {
					idx = i
				}
			}
			for _, cs := range p.CallersOf(fn) {
				if idx >= 0 && idx < len(cs.Instr.Common().Args) {
					lift(cs.Fn, cs.Instr, cs.Instr.Common().Args[idx], depth+1)
				}
			}
			return
		}
		sites = append(sites, sendSite{fn, in, ch})
	}
	for _, fn := range p.Funcs {
		for _, b := range fn.Blocks {
			for _, in := range b.Instrs {
				switch x := in.(type) {
				case *ssa.Send:
					lift(fn, in, x.Chan, 0)
				case *ssa.Select:
					for _, st := range x.States {
						if st.Dir == types.SendOnly {
							lift(fn, in, st.Chan, 0)
						}
					}
				}
			}
		}
	}
	for _, s := range sites {
		fn, in := s.fn, s.in
		fname := p.FuncName(fn)
		{
			{
				for _, ch := range []ssa.Value{s.ch} {
					for _, name := range []string{"readTimeout", "writeTimeout"} {
						if f := p.FieldOpt("Conn." + name); f != nil && derivesFromField(ch, f) {
							n++
							r.Check(rule, fname, "send on "+name, p.InstrPos(in), allowed[fname] == name, "only readFrameHeader/readFramePayload send on readTimeout and only writeFrame on writeTimeout", "send in "+fname)
							lock := map[string]string{"readTimeout": "Conn.readMu", "writeTimeout": "Conn.writeFrameMu"}[name]
							la := getLockEnv(p).la
							held := la.HeldAt(in)
							r.Check(rule+".lock", fname, "send on "+name+" under "+lock, p.InstrPos(in), held == topLocks || la.Has(held, lock),
								"timeoutLoop keeps a single context per direction, so arming and re-arming happen only while holding the lock that serialises that direction's transport operations ("+lock+"); otherwise a queued call overwrites the context of the call in flight",
								"held: {"+strings.Join(la.Names(held&^topIfTop(held)), ",")+"}")
						}
					}
				}
			}
		}
	}
	r.Floor(rule, 6)
	// receivers: only timeoutLoop
	for _, fn := range p.Funcs {
		fname := p.FuncName(fn)
		for _, b := range fn.Blocks {
			for _, in := range b.Instrs {
				if sel, ok := in.(*ssa.Select); ok {
					for _, st := range sel.States {
						if st.Dir == types.RecvOnly {
							for _, name := range []string{"readTimeout", "writeTimeout"} {
								if f := p.FieldOpt("Conn." + name); f != nil && derivesFromField(st.Chan, f) {
									r.Check(rule+".recv", fname, "receive from "+name, p.InstrPos(in), fname == "Conn.timeoutLoop", "only timeoutLoop receives from the timeout channels", fname)
								}
							}
						}
					}
				}
			}
		}
	}
}

func c09sites(p *Program, r *Report, rule string) {
	br := p.Field("Conn.br")
	rfh := p.FuncOpt("readFrameHeader")
	okFns := map[string]bool{"Conn.readFrameHeader": true, "Conn.readFramePayload": true, "readFrameHeader": true}
	n := 0
	for _, cs := range p.CallSites() {
		cc := cs.Instr.Common()
		var ops []ssa.Value
		if cc.IsInvoke() {
			ops = append(ops, cc.Value)
		}
		ops = append(ops, cc.Args...)
		uses := false
		for _, o := range ops {
			if br != nil && derivesFromField(o, br) || isParamOf(o, rfh, "r") {
				uses = true
			}
		}
		if !uses {
			continue
		}
		fname := p.FuncName(cs.Fn)
		switch cs.Name {
		case "putBufioReader", "(*bufio.Reader).Reset", "readFrameHeader":
			if cs.Name != "readFrameHeader" || fname == "Conn.readFrameHeader" {
				continue
			}
		}
		n++
		okOwner := true
		for _, owner := range p.siteOwners(cs.Fn) {
			if !okFns[owner] {
				okOwner = false
			}
		}
		r.Check(rule, fname, cs.Name, p.InstrPos(cs.Instr), okOwner, "transport reads happen only in Conn.readFrameHeader / Conn.readFramePayload (and readFrameHeader called inside the former's window): nothing reads from the connection outside an armed timeout window", "read "+cs.Name+" in "+fname)
	}
	r.Floor(rule, 4)
	for _, cs := range emitterSites(p) {
		fname := p.FuncName(cs.Fn)
		switch cs.Name {
		case "putBufioWriter", "extractBufioWriterBuf", "invoke io.ReadWriteCloser.Close", "invoke net.Conn.RemoteAddr", "invoke net.Conn.LocalAddr":
			continue
		}
		if fname == "netConn.RemoteAddr" || fname == "netConn.LocalAddr" {
			continue
		}
		ok := true
		for _, owner := range p.siteOwners(cs.Fn) {
			if !(owner == "Conn.writeFrame" || owner == "Conn.writeFramePayload" || owner == "writeFrameHeader") {
				ok = false
			}
		}
		r.Check(rule, fname, cs.Name, p.InstrPos(cs.Instr), ok, "transport writes happen only in writeFrame and the two helpers it calls inside its armed window", "write "+cs.Name+" in "+fname)
	}
	// the helpers are called only from the arming function (inside the window: C09.armed)
	for callee, caller := range map[string]string{"readFrameHeader": "Conn.readFrameHeader", "writeFrameHeader": "Conn.writeFrame", "Conn.writeFramePayload": "Conn.writeFrame"} {
		if fn := p.FuncOpt(callee); fn != nil && p.absorbed[callee] != fn {
			for _, cs := range p.CallersOf(fn) {
				r.Check(rule+".helpers", p.FuncName(cs.Fn), callee, p.InstrPos(cs.Instr), p.FuncName(cs.Fn) == caller, callee+" is called only from "+caller, p.FuncName(cs.Fn))
			}
		}
	}
}

// cRwc: the transport object is used only to build the buffered reader/writer, to be closed, and for
// the address accessors. Any other use (deadlines, direct reads or writes, SetReadDeadline …) bypasses
// the timeout channels and the single emitter.
func cRwc(p *Program, r *Report, rule string) {
	f := p.Field("Conn.rwc")
	if f == nil {
		return
	}
	allowed := map[string]string{
		"newConn":             "stored from the config; passed to extractBufioWriterBuf (dummy write before publication)",
		"Conn.closeTransport": "Close()",
		"Conn.close":          "Close() (pre-repair layout)",
		"netConn.RemoteAddr":  "type assertion to net.Conn for the address",
		"netConn.LocalAddr":   "type assertion to net.Conn for the address",
	}
	n := 0
	for _, fa := range p.FieldAccesses(f) {
		fname := p.FuncName(fa.Fn)
		okAll := true
		for _, owner := range p.siteOwners(fa.Fn) {
			if _, ok := allowed[owner]; !ok {
				okAll = false
			}
		}
		n++
		r.Check(rule, fname, "use of Conn.rwc", p.InstrPos(fa.Instr), okAll, "Conn.rwc is used only by newConn, closeTransport (Close) and the address accessors; all I/O goes through Conn.br / Conn.bw inside the armed windows, and no transport deadline is ever set", firstNonEmpty(allowed[fname], "unexpected use in "+fname))
	}
	r.Floor(rule, 3)
	// in closeTransport the only method invoked on it is Close
	if fn := p.FuncOpt("Conn.closeTransport"); fn != nil {
		for _, b := range p.blocksOf(fn) {
			for _, in := range b.Instrs {
				if ci, ok := in.(ssa.CallInstruction); ok && ci.Common().IsInvoke() && derivesFromField(ci.Common().Value, f) {
					r.Check(rule, "Conn.closeTransport", "rwc."+ci.Common().Method.Name(), p.InstrPos(in), ci.Common().Method.Name() == "Close", "closeTransport only calls rwc.Close()", ci.Common().Method.Name())
				}
			}
		}
	}
}

func c09ctx(p *Program, r *Report, rule string) {
	const fiveS = "5000000000"
	for _, s := range []struct {
		fn     string
		parent string // "bg" or "param"
	}{{"Conn.writeClose", "bg"}, {"Conn.waitCloseHandshake", "bg"}, {"Conn.handleControl", "param"}, {"Conn.writeControl", "param"}} {
		fn := p.Func(s.fn)
		if s.fn == "Conn.writeClose" {
			if ctxFn := p.FuncOpt("Conn.writeCloseCtx"); ctxFn != nil {
				// the close frame writer is bounded by its caller's context and 5 s; writeClose passes Background (checked below)
				fn, s.parent = ctxFn, "param"
			}
		}
		if fn == nil {
			continue
		}
		s := s
		p.forAllPaths(r, rule, fn, "bounded context", Opts{Unroll: 1},
			"the function bounds its blocking work by context.WithTimeout(…, 5 s) (from Background on the close path, from its own ctx for control frames), defers the cancel, and passes the derived context to the blocking callees", func(pa *Path) (bool, string) {
				wt := pa.Calls("context.WithTimeout")
				blocking := []string{"Conn.writeControl", "Conn.writeFrame", "Conn.readFramePayload", "Conn.readLoop", "mu.lock", "Conn.discardFramePayload", "Conn.writeCloseCtx"}
				hasBlocking := false
				for _, e := range pa.Events {
					// a failure close written in place (writeError inlined) is bounded by the read's context inside writeCloseCtx
					if isCall(e, blocking...) && !inlinedWriteError(e) {
						hasBlocking = true
					}
				}
				if !hasBlocking {
					return true, ""
				}
				if len(wt) != 1 || argKey(wt[0], 1) != fiveS {
					return false, "no context.WithTimeout(…, 5s) before blocking"
				}
				par := wt[0].Args[0]
				if s.parent == "bg" && !isBackground(par) || s.parent == "param" && par.Key() != "param:ctx" {
					return false, "parent context is " + par.Key()
				}
				ctxKey := wt[0].Res.Key() + "#0"
				for _, e := range pa.Events {
					if isCall(e, blocking...) && !inlinedWriteError(e) {
						found := false
						for _, a := range e.Args {
							if a != nil && a.Key() == ctxKey {
								found = true
							}
						}
						if !found {
							return false, e.Callee + " called without the bounded context"
						}
					}
				}
				// cancel deferred
				okDefer := false
				for _, e := range pa.Events {
					if e.Kind == "defer" && strings.Contains(e.Callee, wt[0].Res.Key()+"#1") {
						okDefer = true
					}
				}
				if !okDefer {
					return false, "cancel not deferred"
				}
				return true, ""
			})
	}
	if p.FuncOpt("Conn.writeCloseCtx") != nil {
		if fn := p.Func("Conn.writeClose"); fn != nil {
			p.forAllPaths(r, rule, fn, "close frames without a caller context", Opts{}, "writeClose(code, reason) is writeCloseCtx(context.Background(), code, reason): bounded by the 5 s of writeCloseCtx alone", func(pa *Path) (bool, string) {
				wc := pa.Calls("Conn.writeCloseCtx")
				// writeClose folded into its only caller: the call is what remains of it (the caller goes on after it)
				inCaller := p.absorbed["Conn.writeClose"] == fn
				if len(wc) != 1 || !isBackground(wc[0].Args[1]) || argKey(wc[0], 2) != "param:code" || argKey(wc[0], 3) != "param:reason" || (!inCaller && pa.Ret[0].Key() != wc[0].Res.Key()) {
					return false, "writeClose does not forward to writeCloseCtx(context.Background(), code, reason)"
				}
				return true, ""
			})
		}
	}
	if fn := p.Func("Conn.waitGoroutines"); fn != nil {
		p.forAllPaths(r, rule, fn, "15 s join timer", Opts{}, "waitGoroutines bounds its waits with time.NewTimer(15 s) and every blocking select has the timer case", func(pa *Path) (bool, string) {
			nt := pa.Calls("time.NewTimer")
			if len(nt) != 1 || argKey(nt[0], 0) != "15000000000" {
				return false, "timer is " + fmt.Sprint(len(nt))
			}
			for _, e := range pa.Events {
				if e.Kind == "select" && e.Blocking {
					has := false
					for _, a := range e.Args {
						if a != nil && a.Key() == "Timer.C" {
							has = true
						}
					}
					if !has {
						return false, "blocking select without the timer case"
					}
				}
			}
			return true, ""
		})
	}
	if fn := p.FuncOpt("Conn.discardFramePayload"); fn != nil {
		p.forAllPaths(r, rule, fn, "discard uses the bounded reader", Opts{Unroll: 2}, "discardFramePayload consumes payload only through readFramePayload(ctx, …) with its ctx parameter, n decreasing by the bytes requested", func(pa *Path) (bool, string) {
			for _, e := range pa.Calls("Conn.readFramePayload") {
				if argKey(e, 1) != "param:ctx" {
					return false, "reads with " + argKey(e, 1)
				}
			}
			return true, ""
		})
	}
}

// escape cases of blocking selects and bare channel operations.
func c09escape(p *Program, r *Report, rule string) {
	frozen := map[string]string{
		"mu.forceLock|send":   "its holder is inside an armed window or a bounded section; used only on teardown after the transport was closed",
		"NetConn|recv":        "drain of a timer channel, reachable only if Stop reports a fired timer (never for AfterFunc timers)",
		"Conn.CloseRead$1|recv": "waits for the Close/CloseNow that already took over the closing (casClosing lost): that closer closes c.closed within its own bounds (CloseNow at once, Close after at most its two 5 s phases)",
		"xsync.Go$1|send":     "buffered channel of capacity 1, single send",
		"xsync.Go$1$1|select": "non-blocking",
	}
	n := 0
	for _, fn := range p.Funcs {
		fname := p.FuncName(fn)
		for _, b := range fn.Blocks {
			for _, in := range b.Instrs {
				switch x := in.(type) {
				case *ssa.Select:
					if !x.Blocking {
						continue
					}
					n++
					ok := false
					why := ""
					for _, st := range x.States {
						if st.Dir != types.RecvOnly {
							continue
						}
						switch {
						case derivesFromField(st.Chan, p.FieldOpt("Conn.closed")):
							ok, why = true, "case <-c.closed"
						case isTimerC(st.Chan):
							ok, why = true, "timer case"
						case isDoneCall(st.Chan):
							if why == "" {
								why = "only a ctx.Done() case: the caller's context may never end, so closing the connection does not release this wait"
							}
						}
					}
					// mu.lock: m.c.closed via two field hops
					if !ok && fname == "mu.lock" {
						for _, st := range x.States {
							if u, isU := st.Chan.(*ssa.UnOp); isU {
								if fa, isFA := u.X.(*ssa.FieldAddr); isFA && fieldName(fieldOf(fa)) == "closed" {
									ok, why = true, "case <-m.c.closed"
								}
							}
						}
					}
					r.Check(rule, fname, "blocking select", p.InstrPos(x), ok, "every blocking select has an escape case that fires when the connection is closed or after a bounded time: a case on Conn.closed or on a timer (a ctx.Done() case alone is not enough: every call blocked on the connection must return once it is closed)", why)
				case *ssa.Send:
					n++
					_, fr := frozen[fname+"|send"]
					r.Check(rule, fname, "bare send", p.InstrPos(x), fr, "bare channel sends are the frozen list (mu.forceLock; xsync.Go's buffered result)", frozen[fname+"|send"])
				case *ssa.UnOp:
					if x.Op == token.ARROW {
						n++
						_, fr := frozen[fname+"|recv"]
						r.Check(rule, fname, "bare receive", p.InstrPos(x), fr, "bare channel receives are the frozen list (dead timer drains in NetConn)", frozen[fname+"|recv"])
					}
				}
			}
		}
	}
	r.Floor(rule, 8)
}

func isTimerC(v ssa.Value) bool {
	// a receive-only channel of time.Time is a timer's (Timer.C, Ticker.C, time.After): nothing else produces one here
	if ch, ok := v.Type().Underlying().(*types.Chan); ok && ch.Elem().String() == "time.Time" {
		if _, isParam := v.(*ssa.Parameter); isParam {
			return true
		}
	}
	if u, ok := v.(*ssa.UnOp); ok && u.Op == token.MUL {
		if fa, ok := u.X.(*ssa.FieldAddr); ok {
			return typeShort(fa.X.Type()) == "Timer" && fieldName(fieldOf(fa)) == "C"
		}
	}
	return false
}

func isDoneCall(v ssa.Value) bool {
	if c, ok := v.(*ssa.Call); ok && c.Call.IsInvoke() && c.Call.Method.Name() == "Done" {
		return true
	}
	return false
}

func c09cancel(p *Program, r *Report, rule string) {
	body := p.Func("Conn.CloseRead$1")
	outer := p.Func("Conn.CloseRead")
	if body == nil || outer == nil {
		return
	}
	p.forAllPaths(r, rule, body, "cancel and close deferred", Opts{}, "the CloseRead goroutine defers close(closeReadDone) first, then the CancelFunc, then c.close(); so the returned context is cancelled whenever the goroutine ends, after the connection was closed", func(pa *Path) (bool, string) {
		var defs []string
		for _, e := range pa.Events {
			if e.Kind == "defer" {
				defs = append(defs, e.Callee+"("+argKey(e, 0)+")")
			}
		}
		// the CancelFunc and the connection are captured variables of the closure, or parameters when the body is a method
		got := regexp.MustCompile(`(FV|param):\w+`).ReplaceAllString(strings.Join(defs, ";"), "·")
		want := []string{"builtin close(Conn.closeReadDone)", "dyn ·()", "Conn.close(·)"}
		if got != strings.Join(want, ";") {
			return false, "defers: " + strings.Join(defs, ";")
		}
		return true, ""
	})
	p.forAllPaths(r, rule, outer, "returned context is the cancellable one", Opts{}, "CloseRead returns the context created by context.WithCancel, stores it in closeReadCtx under closeReadMu together with a fresh closeReadDone, and binds that WithCancel's CancelFunc into the goroutine; a second call returns the stored context without starting another goroutine", func(pa *Path) (bool, string) {
		existing, known := decidedLike(pa, "Conn.closeReadCtx == nil")
		if !known {
			return false, "closeReadCtx not tested"
		}
		var gos []*Event
		for _, e := range pa.Events {
			if e.Kind == "go" {
				gos = append(gos, e)
			}
		}
		if !existing {
			if len(gos) != 0 || pa.Ret[0].Key() != "Conn.closeReadCtx" {
				return false, "idempotent path starts a goroutine or returns another context"
			}
			return true, ""
		}
		wc := pa.Calls("context.WithCancel")
		if len(wc) != 1 || len(gos) != 1 {
			return false, "WithCancel / go statement missing"
		}
		ctxK, cancelK := wc[0].Res.Key()+"#0", wc[0].Res.Key()+"#1"
		if pa.Ret[0].Key() != ctxK {
			return false, "returns " + pa.Ret[0].Key()
		}
		st := false
		for _, e := range pa.Events {
			if e.Kind == "store" && e.AddrK == "Conn.closeReadCtx" && e.Val.Key() == ctxK {
				st = true
			}
		}
		if !st {
			return false, "closeReadCtx not stored"
		}
		okCancel := false
		if cl, _ := gos[0].Val.(*Closure); cl != nil {
			// bindings are addresses of captured variables; the cancel variable must have been stored the WithCancel cancel
			for _, e := range pa.Events {
				if e.Kind == "store" && e.Val.Key() == cancelK {
					for _, b := range cl.Bind {
						if ad, isAd := b.(*Addr); isAd && ad.K == e.AddrK {
							okCancel = true
						}
					}
				}
			}
		} else {
			// the body is a method: the CancelFunc is passed as an argument
			for _, a := range gos[0].Args {
				if a != nil && a.Key() == cancelK {
					okCancel = true
				}
			}
		}
		if !okCancel {
			return false, "the goroutine's cancel is not the WithCancel's CancelFunc"
		}
		return true, ""
	})
}

// selfjoin: goroutine bodies must not synchronously reach a receive on their own done channel.
func c20selfjoin(p *Program, r *Report, rule string) {
	cg := getLockEnv(p).cg
	receives := func(field string) map[*ssa.Function]bool {
		out := map[*ssa.Function]bool{}
		f := p.FieldOpt(field)
		for _, fn := range p.Funcs {
			for _, b := range fn.Blocks {
				for _, in := range b.Instrs {
					switch x := in.(type) {
					case *ssa.Select:
						for _, st := range x.States {
							if st.Dir == types.RecvOnly && f != nil && derivesFromField(st.Chan, f) {
								out[fn] = true
							}
						}
					case *ssa.UnOp:
						if x.Op == token.ARROW && f != nil && derivesFromField(x.X, f) {
							out[fn] = true
						}
					}
				}
			}
		}
		return out
	}
	for _, s := range []struct{ body, done string }{{"Conn.CloseRead$1", "Conn.closeReadDone"}, {"Conn.timeoutLoop", "Conn.timeoutLoopDone"}} {
		body := p.Func(s.body)
		if body == nil {
			continue
		}
		rc := receives(s.done)
		if len(rc) == 0 {
			r.Undecide("%s: nobody receives from %s", rule, s.done)
			continue
		}
		path := cg.Reach(body, func(f *ssa.Function) bool { return rc[f] }, nil)
		if rc[body] {
			path = []*ssa.Function{body}
		}
		detail := "no synchronous path from " + s.body + " to a receive on " + s.done
		if path != nil {
			detail = cg.PathString(path) + " → <-" + s.done
		}
		r.Check(rule, s.body, "no self-join on "+s.done, p.FuncPos(body), path == nil,
			"a goroutine whose exit closes "+s.done+" never synchronously reaches a receive on it (it would wait for itself until waitGoroutines' 15 s timer)", detail)
	}
}

func runC09(p *Program, r *Report) {
	armingRules(p, r, true, false)
	// a lock kept by a call that returned an error is never released: Close / CloseNow block in forceLock (seed C09-M)
	shareAs(r, "C06.recheck", "C09.mu", func(sub *Report) { c06closed(p, sub, "C09.closedpoll") })
	c09sites(p, r, "C09.sites")
	cRwc(p, r, "C09.rwc")
	c09ctx(p, r, "C09.ctx")
	c09escape(p, r, "C09.escape")
	c09cancel(p, r, "C09.cancel")
	c09closenow(p, r, "C09.closenow")
	c06echo(p, r, "C09.echo")
	c10loop(p, r, "C09.watcher")
	c20selfjoin(p, r, "C09.selfjoin")
	c05leak(p, r, getLockEnv(p), "C09.release")
	c05noreacquire(p, r, getLockEnv(p), "C09.noreacquire")
	if us := unresolvedDynamic(p); len(us) > 0 {
		r.Undecide("C09.selfjoin: dynamic call sites not in the dispatch table (call graph incomplete): %v", us)
	}
}

// c10closes: a call blocked in a wait (not in transport I/O, which timeoutLoop covers) whose own
// context ends must close the connection before returning, as documented on Conn.
func c10closes(p *Program, r *Report, rule string) {
	n := 0
	for _, fn := range p.Funcs {
		has := false
		for _, b := range fn.Blocks {
			for _, in := range b.Instrs {
				if sel, ok := in.(*ssa.Select); ok && sel.Blocking {
					for _, st := range sel.States {
						if st.Dir == types.RecvOnly && isDoneCall(st.Chan) {
							has = true
						}
					}
				}
			}
		}
		fname := p.FuncName(fn)
		if !has || fname == "Conn.timeoutLoop" {
			continue
		}
		n++
		p.forAllPaths(r, rule, fn, "context expiry while blocked closes the connection", Opts{},
			"when a blocking wait is left through its ctx.Done() case, the connection is closed (closeTransport/close) before the error is returned: 'on any error from any method, the connection is closed … this applies to context expirations as well'",
			func(pa *Path) (bool, string) {
				for i, e := range pa.Events {
					if e.Kind == "select" && e.Blocking && e.Case >= 0 && e.Chan != nil && strings.HasPrefix(e.Chan.Key(), "call:invoke context.Context.Done@") {
						closed := false
						for _, x := range pa.Events[i:] {
							if isCall(x, "Conn.closeTransport", "Conn.close") {
								closed = true
							}
						}
						if !closed {
							return false, fname + " returns after its context ended without closing the connection"
						}
						if pa.End == "return" && retErr(pa) == "nil" {
							return false, "nil returned although the context ended"
						}
					}
				}
				return true, ""
			})
	}
	r.Floor(rule, 2)
}

func runC10(p *Program, r *Report) {
	c10closes(p, r, "C10.closes")
	// after a message was read to its end, its handle no longer waits on anything under that message's context (F37)
	cReaderHandle(p, r, "C10.rhandle")
	// … and the handle of a finished writer refuses before it waits on anything under the finished write's context (seed C10-R)
	cWriterHandle(p, r, "C10.handle")
	if fn := p.Func("Conn.reader"); fn != nil {
		p.forAllPaths(r, "C10.rhandle", fn, "a handle per call", Opts{}, "Conn.reader returns a value created by this call (carrying its own end-of-message mark), not the connection's shared msgReader", func(pa *Path) (bool, string) {
			if pa.End != "return" || retErr(pa) != "nil" {
				return true, ""
			}
			if k := stripConvAll(pa.Ret[1]).Key(); k == "Conn.msgReader" {
				return false, "returns the shared Conn.msgReader"
			}
			return true, ""
		})
	}
	armingRules(p, r, false, true)
	armingRules(p, r, true, false)
	c10senders(p, r, "C10.senders")
	c10loop(p, r, "C10.loop")
	c10child(p, r, "C10.child")
	c09ctx(p, r, "C10.child.ctx")
	c06echo(p, r, "C10.echo")
	c10readside(p, r, "C10.readside.ctx")
	cRwc(p, r, "C10.rwc")
	c05msglock(p, r, "C10.msglock")
	c05noreacquire(p, r, getLockEnv(p), "C10.noreacquire")
}

func c10loop(p *Program, r *Report, rule string) {
	fn := p.Func("Conn.timeoutLoop")
	if fn == nil {
		return
	}
	p.forAllPaths(r, rule, fn, "watcher loop", Opts{Unroll: 3},
		"each iteration is one select over closed, the two timeout channels and the Done channels of the two contexts currently held; closed ↦ return; a Done ↦ c.close() and return; a received context is waited on (its Done is a case) in the next iteration and replaces exactly one of the two",
		func(pa *Path) (bool, string) {
			var sels []*Event
			for _, e := range pa.Events {
				if e.Kind == "select" {
					sels = append(sels, e)
				}
			}
			for i, e := range sels {
				if !e.Blocking || len(e.Args) != 5 {
					return false, "select shape changed"
				}
				hasClosed := false
				for _, a := range e.Args {
					if a.Key() == "Conn.closed" {
						hasClosed = true
					}
				}
				if !hasClosed {
					return false, "iteration without a case on closed"
				}
				ch := e.Chan.Key()
				last := i == len(sels)-1
				switch {
				case ch == "Conn.closed":
					if !last || pa.End != "return" || len(pa.Calls("Conn.close")) != 0 {
						return false, "closed case does not simply return"
					}
				case strings.HasPrefix(ch, "call:invoke context.Context.Done@"):
					if !last || pa.End != "return" || len(pa.Calls("Conn.close")) != 1 {
						return false, "Done case does not close and return"
					}
				case ch == "Conn.readTimeout" || ch == "Conn.writeTimeout":
					if last {
						if pa.End != "loop" {
							return false, "receive does not continue the loop"
						}
						continue
					}
					// next iteration waits on the received value
					next := sels[i+1]
					recvd := false
					for _, ev := range pa.Events {
						if isCall(ev, "invoke context.Context.Done") && strings.HasPrefix(argKey(ev, 0), "recv:") {
							for _, a := range next.Args {
								if a.Key() == ev.Res.Key() {
									recvd = true
								}
							}
						}
					}
					if !recvd {
						return false, "the received context is not waited on in the next iteration"
					}
					// one context per direction: after a context arrived on each of the two channels, both are waited on (a
					// watcher that keeps both in one variable forgets the first: seed C05-N)
					if i+2 < len(sels) {
						if ch2 := next.Chan.Key(); (ch2 == "Conn.readTimeout" || ch2 == "Conn.writeTimeout") && ch2 != ch {
							// the Done() calls of the third iteration: the events between the second and the third select
							dones := map[string]bool{}
							in := false
							for _, ev := range pa.Events {
								if ev == next {
									in = true
									continue
								}
								if ev == sels[i+2] {
									break
								}
								if in && isCall(ev, "invoke context.Context.Done") && strings.HasPrefix(argKey(ev, 0), "recv:") {
									for _, a := range sels[i+2].Args {
										if a.Key() == ev.Res.Key() {
											dones[argKey(ev, 0)] = true
										}
									}
								}
							}
							if len(dones) < 2 {
								return false, "after a context arrived on each channel only one of them is still waited on: the other direction's context was overwritten"
							}
						}
					}
				default:
					return false, "unexpected case on " + ch
				}
			}
			return true, ""
		})
}

func c10child(p *Program, r *Report, rule string) {
	// context flow: which context reaches the arming functions
	for _, s := range []struct {
		fn, callee, want string
		idx              int
	}{
		{"Conn.readLoop", "Conn.readFrameHeader", "param:ctx", 1},
		{"Conn.readLoop", "Conn.handleControl", "param:ctx", 1},
		{"Conn.reader", "Conn.readLoop", "param:ctx", 1},
		{"msgReader.read", "Conn.readLoop", "msgReader.ctx", 1},
		{"msgReader.read", "Conn.readFramePayload", "msgReader.ctx", 1},
		{"msgWriter.write", "Conn.writeFrame", "msgWriter.ctx", 1},
		{"msgWriter.Close", "Conn.writeFrame", "msgWriter.ctx", 1},
		{"Conn.write", "Conn.writeFrame", "param:ctx", 1},
		{"Conn.ping", "Conn.writeControl", "param:ctx", 1},
	} {
		fn := p.Func(s.fn)
		if fn == nil {
			continue
		}
		s := s
		p.forAllPaths(r, rule, fn, s.callee+" gets "+s.want, Opts{Unroll: 1, Inline: p.inlineSet("Conn.flate")}, s.fn+" passes "+s.want+" (the API caller's context of this very call) to "+s.callee, func(pa *Path) (bool, string) {
			for _, e := range pa.Calls(s.callee) {
				if argKey(e, s.idx) != s.want {
					return false, s.callee + " called with " + argKey(e, s.idx)
				}
			}
			return true, ""
		})
	}
	// msgReader.ctx / msgWriter.ctx are stored from the API ctx in reset only
	for _, s := range []struct{ field, fn string }{{"msgReader.ctx", "msgReader.reset"}, {"msgWriter.ctx", "msgWriter.reset"}} {
		f := p.Field(s.field)
		if f == nil {
			continue
		}
		for _, fa := range p.FieldAccesses(f) {
			if fa.Write {
				_, isParam := fa.Store.Val.(*ssa.Parameter)
				r.Check(rule+".store", p.FuncName(fa.Fn), "store "+s.field, p.InstrPos(fa.Instr), p.FuncName(fa.Fn) == s.fn && isParam, s.field+" is set only by "+s.fn+" from its ctx parameter", fa.Store.Val.String())
			}
		}
	}
	for _, s := range []struct{ fn, field string }{{"msgReader.reset", "msgReader.ctx"}, {"msgWriter.reset", "msgWriter.ctx"}} {
		fn := p.Func(s.fn)
		if fn == nil {
			continue
		}
		s := s
		p.forAllPaths(r, rule+".reset", fn, "every message installs its own ctx", Opts{}, s.fn+" stores "+s.field+" = ctx unconditionally whenever it succeeds (a later message must never run under an earlier call's context)", func(pa *Path) (bool, string) {
			if s.fn == "msgWriter.reset" {
				if ok, known := decidedLike(pa, "call:mu.lock@@ == nil"); known && !ok {
					return true, ""
				}
			}
			for _, e := range pa.Events {
				if e.Kind == "store" && e.AddrK == s.field && e.Val.Key() == "param:ctx" {
					return true, ""
				}
			}
			return false, s.field + " not set to the call's ctx on this path"
		})
	}
	// deriving functions do not arm
	closeWriterName := "Conn.writeClose"
	if p.FuncOpt("Conn.writeCloseCtx") != nil {
		closeWriterName = "Conn.writeCloseCtx"
	}
	for _, name := range []string{"Conn.handleControl", "Conn.writeControl", closeWriterName, "Conn.waitCloseHandshake"} {
		fn := p.Func(name)
		if fn == nil {
			continue
		}
		arms := false
		isTO := func(ch ssa.Value) bool {
			return derivesFromField(ch, p.FieldOpt("Conn.readTimeout")) || derivesFromField(ch, p.FieldOpt("Conn.writeTimeout"))
		}
		for _, b := range p.blocksOf(fn) {
			for _, in := range b.Instrs {
				if sel, ok := in.(*ssa.Select); ok {
					for _, st := range sel.States {
						if st.Dir == types.SendOnly && isTO(st.Chan) {
							arms = true
						}
					}
				}
				if sd, ok := in.(*ssa.Send); ok && isTO(sd.Chan) {
					arms = true
				}
			}
		}
		r.Check(rule+".noarm", name, "does not arm", p.FuncPos(fn), !arms, "a function that derives a cancellable child context does not arm a timeout channel itself; its deferred cancel therefore runs after every callee's bracket was closed", fmt.Sprintf("arms=%v", arms))
	}
}

// ---- C20 ----------------------------------------------------------------------------------------------------------

// paramAlwaysField: every call / go / defer site of the parameter's function passes a value that derives from field f.
func (p *Program) paramAlwaysField(x *ssa.Parameter, f *types.Var) bool {
	fn := x.Parent()
	if fn == nil || f == nil {
		return false
	}
	idx := -1
	for k, prm := range fn.Params {
		if prm == x {
			idx = k
		}
	}
	sites := p.CallersOf(fn)
	if idx < 0 || len(sites) == 0 {
		return false
	}
	for _, cs := range sites {
		args := cs.Instr.Common().Args
		if idx >= len(args) || !derivesFromField(args[idx], f) {
			return false
		}
	}
	return true
}

// cSpawns: the inventory of goroutines and timers the library starts. C20 needs it for the join obligations; C05 needs it
// because the lock-discipline rules are decided for the known concurrent entry points (API calls plus these spawned bodies):
// a new goroutine is a new concurrent actor whose accesses were not checked against the guarded-by table.
func cSpawns(p *Program, r *Report, rule string) {
	// inventory
	frozen := map[string]string{
		"newConn|go Conn.timeoutLoop":        "joined through timeoutLoopDone",
		"Conn.CloseRead|go Conn.CloseRead$1": "joined through closeReadDone",
		"NetConn|time.AfterFunc":             "timer, stopped in netConn.Close; callback is non-blocking",
		"dial$1|time.AfterFunc":              "3 s timer on the error path, Stop deferred",
		"xsync.Go|go xsync.Go$1":             "xsync.Go has no library caller",
	}
	n := 0
	wantCount := map[string]int{"newConn|go Conn.timeoutLoop": 1, "Conn.CloseRead|go Conn.CloseRead$1": 1, "NetConn|time.AfterFunc": 2, "dial$1|time.AfterFunc": 1, "xsync.Go|go xsync.Go$1": 1}
	gotCount := map[string]int{}
	defer func() {
		for k, w := range wantCount {
			r.Check(rule, strings.SplitN(k, "|", 2)[0], "count of "+strings.SplitN(k, "|", 2)[1], "-", gotCount[k] == w, "each frozen spawn site occurs exactly the expected number of times (a second `go c.timeoutLoop()` would close the done channel twice and leave a watcher behind)", fmt.Sprintf("found %d, expected %d", gotCount[k], w))
		}
	}()
	for _, cs := range p.CallSites() {
		what := ""
		if cs.Kind == "go" {
			what = "go " + cs.Name
			if cs.Callee != nil && cs.Callee.Parent() != nil {
				what = "go " + p.FuncName(cs.Callee)
			}
		} else if cs.Name == "time.AfterFunc" {
			what = "time.AfterFunc"
		} else {
			continue
		}
		// a spawn inside a helper that is not part of the reference tree counts for the reference functions that reach it
		for _, fname := range p.ownersOf(cs.Fn) {
			key := fname + "|" + what
			n++
			gotCount[key]++
			reason, ok := frozen[key]
			r.Check(rule, fname, what, p.InstrPos(cs.Instr), ok, "every goroutine or timer the library starts is on the frozen list with a join obligation", firstNonEmpty(reason, "unknown spawn without a join obligation"))
		}
	}
	r.Floor(rule, 5)
	if fn := p.FuncOpt("xsync.Go"); fn != nil {
		r.Check(rule, "xsync.Go", "no library caller", p.FuncPos(fn), len(p.CallersOf(fn)) == 0, "xsync.Go is not called by the library", fmt.Sprintf("%d callers", len(p.CallersOf(fn))))
	}
}

func runC20(p *Program, r *Report) {
	cSpawns(p, r, "C20.inventory")
	// a goroutine that dead-locks on a lock its own call stack holds never exits, and Close/CloseNow queue behind it (seed C20-M)
	c05noreacquire(p, r, getLockEnv(p), "C20.noreacquire")
	// timers stopped
	if fn := p.Func("netConn.Close"); fn != nil {
		p.forAllPaths(r, "C20.timers", fn, "timers stopped", Opts{}, "netConn.Close stops both deadline timers and closes the connection", func(pa *Path) (bool, string) {
			stops := map[string]bool{}
			for _, e := range pa.Calls("(*time.Timer).Stop") {
				stops[argKey(e, 0)] = true
			}
			if !stops["netConn.writeTimer"] || !stops["netConn.readTimer"] || len(pa.Calls("Conn.Close")) != 1 {
				return false, fmt.Sprintf("stops=%v", stops)
			}
			return true, ""
		})
	}
	// done
	for _, s := range []struct{ body, done string }{{"Conn.timeoutLoop", "Conn.timeoutLoopDone"}, {"Conn.CloseRead$1", "Conn.closeReadDone"}} {
		fn := p.Func(s.body)
		if fn == nil {
			continue
		}
		s := s
		p.forAllPaths(r, "C20.done", fn, "done channel closed last", Opts{Unroll: 1}, s.body+"'s first-registered defer (executed last) is close("+s.done+"), registered before anything can block or return", func(pa *Path) (bool, string) {
			for _, e := range pa.Events {
				switch e.Kind {
				case "defer":
					if e.Callee == "builtin close" && argKey(e, 0) == s.done {
						return true, ""
					}
					// the done channel handed to the goroutine as an argument: every start of the body passes the field
					if e.Callee == "builtin close" && e.Instr != nil {
						if ci, ok := e.Instr.(ssa.CallInstruction); ok && len(ci.Common().Args) == 1 {
							if prm, ok := ci.Common().Args[0].(*ssa.Parameter); ok && p.paramAlwaysField(prm, p.Field(s.done)) {
								return true, ""
							}
						}
					}
					return false, "first defer is " + e.Callee
				case "call", "select", "send", "recv", "return", "go":
					return false, e.Kind + " " + e.Callee + " before the done-channel defer"
				}
			}
			return false, "no defer"
		})
	}
	// done channels are closed nowhere else and created once
	for _, name := range []string{"Conn.timeoutLoopDone", "Conn.closeReadDone"} {
		f := p.Field(name)
		if f == nil {
			continue
		}
		for _, cs := range p.CallSites() {
			if cs.Name == "builtin close" && derivesFromField(cs.Instr.Common().Args[0], f) {
				fname := p.FuncName(cs.Fn)
				ok := cs.Kind == "defer" && (fname == "Conn.timeoutLoop" || fname == "Conn.CloseRead$1")
				r.Check("C20.done", fname, "close("+name+")", p.InstrPos(cs.Instr), ok, name+" is closed only by the deferred close of its goroutine", fname)
			}
		}
	}
	c10loop(p, r, "C20.exit")
	c09cancel(p, r, "C20.exit.closeread")
	// join
	for _, name := range []string{"Conn.Close", "Conn.CloseNow"} {
		fn := p.Func(name)
		if fn == nil {
			continue
		}
		p.forAllPaths(r, "C20.join", fn, "every return passes waitGoroutines", Opts{}, name+" calls waitGoroutines on every path before returning", func(pa *Path) (bool, string) {
			if pa.End == "return" && len(pa.Calls("Conn.waitGoroutines")) == 0 {
				return false, "returns without waitGoroutines"
			}
			return true, ""
		})
	}
	if fn := p.Func("Conn.waitGoroutines"); fn != nil {
		p.forAllPaths(r, "C20.join", fn, "joins both goroutines", Opts{}, "waitGoroutines returns nil only after receiving from timeoutLoopDone and, when closeReadCtx != nil (read under closeReadMu), from closeReadDone", func(pa *Path) (bool, string) {
			if pa.End != "return" || nilness(pa.Ret[0], pa) != -1 {
				return true, ""
			}
			got := map[string]bool{}
			for _, e := range pa.Events {
				if e.Kind == "select" && e.Case >= 0 && e.Dir == types.RecvOnly {
					got[e.Chan.Key()] = true
				}
			}
			if !got["Conn.timeoutLoopDone"] {
				return false, "nil without joining timeoutLoop"
			}
			started, known := decidedLike(pa, "Conn.closeReadCtx == nil")
			if !known {
				return false, "closeReadCtx not consulted"
			}
			if !started && !got["Conn.closeReadDone"] {
				return false, "nil without joining the CloseRead goroutine"
			}
			// the read of closeReadCtx is under closeReadMu
			li := eventIndex(pa, 0, func(e *Event) bool { return isCall(e, "(*sync.Mutex).Lock") && argKey(e, 0) == "&Conn.closeReadMu" })
			if li < 0 {
				return false, "closeReadCtx read without closeReadMu"
			}
			return true, ""
		})
	}
	c20selfjoin(p, r, "C20.selfjoin")
	c09ctx(p, r, "C20.bounded")
	// whoever wins casClosing closes the connection: otherwise every later Close/CloseNow only waits (15 s) and the goroutines stay
	if cas := p.Func("Conn.casClosing"); cas != nil {
		for _, cs := range p.CallersOf(cas) {
			fn := cs.Fn
			p.forAllPaths(r, "C20.cas", fn, "the winner of casClosing closes the connection", Opts{},
				"a function that takes the closing flag (casClosing() == true) calls c.close() (directly or deferred) on every path; the flag is never taken by code that leaves the transport open", func(pa *Path) (bool, string) {
					// the flag may have been taken on every path that calls casClosing and does not decide its result false
					called, lost := false, false
					for _, e := range pa.Events {
						if e.Kind == "call" && e.Callee == "Conn.casClosing" {
							called = true
						}
					}
					for _, d := range pa.Decisions {
						if strings.HasPrefix(d.Key, "call:Conn.casClosing@") && !d.Val {
							lost = true
						}
					}
					if !called || lost {
						return true, ""
					}
					for _, e := range pa.Events {
						if (e.Kind == "call" || e.Kind == "defer") && e.Callee == "Conn.close" {
							return true, ""
						}
					}
					return false, p.FuncName(fn) + " takes the closing flag without closing the connection"
				})
		}
	}
	if us := unresolvedDynamic(p); len(us) > 0 {
		r.Undecide("C20: dynamic call sites not in the dispatch table (call graph incomplete): %v", us)
	}
}

// c09closenow: CloseNow closes the transport itself even when another closer already took the closing flag
// (a Close or the CloseRead goroutine in the middle of a handshake with a silent peer): it does not wait for their timeouts.
func c09closenow(p *Program, r *Report, rule string) {
	fn := p.Func("Conn.CloseNow")
	if fn == nil {
		return
	}
	p.forAllPaths(r, rule, fn, "the transport is closed before anything is waited for", Opts{},
		"on every path CloseNow closes the transport (close or closeTransport) before it waits for the goroutines, also when casClosing() was lost to a handshake in progress", func(pa *Path) (bool, string) {
			wi := eventIndex(pa, 0, func(e *Event) bool { return isCall(e, "Conn.waitGoroutines") })
			ci := eventIndex(pa, 0, func(e *Event) bool { return isCall(e, "Conn.close", "Conn.closeTransport") && !e.Deferred })
			if wi >= 0 && (ci < 0 || ci > wi) {
				return false, "waits for the goroutines with the transport still open"
			}
			return true, ""
		})
}

// c06closereadYield: when a data message arrives on a CloseRead connection while Close/CloseNow already owns the
// closing, the CloseRead goroutine must not tear the transport down under it (the close frame would be lost).
func c06closereadYield(p *Program, r *Report, rule string) {
	fn := p.Func("Conn.CloseRead$1")
	if fn == nil {
		return
	}
	p.forAllPaths(r, rule, fn, "yields to a closer in progress", Opts{},
		"after a data message (Reader returned nil) the goroutine either wins casClosing and runs the 1008 handshake, or — the flag is taken — waits for Conn.closed before its deferred close runs", func(pa *Path) (bool, string) {
			ok, known := decidedLike(pa, "call:Conn.Reader@@#2 == nil")
			if !known || !ok {
				return true, ""
			}
			won := false
			for _, d := range pa.Decisions {
				if strings.HasPrefix(d.Key, "call:Conn.casClosing@") {
					won = d.Val
				}
			}
			if won {
				if len(pa.Calls("Conn.closeHandshake")) != 1 {
					return false, "data message without the policy-violation handshake"
				}
				return true, ""
			}
			for _, e := range pa.Events {
				if (e.Kind == "recv" || e.Kind == "select") && e.Chan != nil && e.Chan.Key() == "Conn.closed" {
					return true, ""
				}
			}
			return false, "falls through to the deferred close while another closer is in the middle of its handshake"
		})
}

// c10readside: a frame the library writes on behalf of a read call is bounded by that call's context. The echo of a
// received close frame is (C10.echo); the close frame of a failure close (writeError: protocol error, message too big)
// is written by writeClose under context.Background() + 5 s — the read's context is not consulted for up to 5 s.
func c10readside(p *Program, r *Report, rule string) {
	fn := p.FuncOpt("Conn.writeError")
	if fn == nil {
		r.Note("%s: Conn.writeError is not a function of this tree (inlined); the recorded finding is about that function", rule)
		return
	}
	p.forAllPaths(r, rule, fn, "close frame bounded by the read's context", Opts{},
		"writeError receives the context of the read it fails and writes its close frame under it (writeCloseCtx(ctx, …)): a Read whose context ends while that frame cannot be written returns promptly", func(pa *Path) (bool, string) {
			for _, e := range pa.Calls("Conn.writeClose") {
				if e.Val == nil || !strings.HasPrefix(e.Val.Key(), "param:") {
					return false, "the close frame of a failure close is written under context.Background() + 5 s (writeClose), not under the context of the read that failed"
				}
			}
			return true, ""
		})
	// every caller hands in the context of the read it is failing: its own context parameter, the context stored for the
	// message being read, or a child of one of them - never a fresh root
	n := 0
	for _, cs := range p.CallSites() {
		if cs.Name != "Conn.writeError" {
			continue
		}
		args := cs.Instr.Common().Args
		if len(args) != 4 {
			continue
		}
		n++
		ok, why := readContext(args[1], 0)
		r.Check(rule+".sites", p.FuncName(cs.Fn), "context handed to writeError", p.InstrPos(cs.Instr), ok,
			"the context passed to writeError is the caller's context parameter, the context field of the message reader, or a child of one of them", why)
	}
	if n < 8 {
		r.Undecide("%s: only %d writeError call sites with a context found (expected at least 8)", rule, n)
	}
}

// readContext: v is a context that belongs to the read in progress (not context.Background()/TODO()).
func readContext(v ssa.Value, depth int) (bool, string) {
	if depth > 6 {
		return false, "context provenance too deep"
	}
	switch x := v.(type) {
	case *ssa.Parameter:
		return true, "parameter " + x.Name()
	case *ssa.FreeVar:
		return true, "captured " + x.Name()
	case *ssa.UnOp:
		if fa, ok := x.X.(*ssa.FieldAddr); ok {
			if f := fieldOf(fa); f != nil && strings.HasSuffix(f.Type().String(), "context.Context") {
				return true, "field " + f.Name()
			}
		}
		return false, "context loaded from " + x.X.String()
	case *ssa.Extract:
		if c, ok := x.Tuple.(*ssa.Call); ok {
			if f := c.Call.StaticCallee(); f != nil && f.Pkg != nil && f.Pkg.Pkg.Path() == "context" && strings.HasPrefix(f.Name(), "With") && len(c.Call.Args) > 0 {
				return readContext(c.Call.Args[0], depth+1)
			}
		}
	case *ssa.Phi:
		for _, e := range x.Edges {
			if ok, why := readContext(e, depth+1); !ok {
				return false, why
			}
		}
		return true, "phi"
	case *ssa.Call:
		if f := x.Call.StaticCallee(); f != nil && f.Pkg != nil && f.Pkg.Pkg.Path() == "context" {
			return false, "a fresh root context (context." + f.Name() + ")"
		}
	case *ssa.ChangeInterface:
		return readContext(x.X, depth+1)
	case *ssa.MakeInterface:
		return readContext(x.X, depth+1)
	}
	return false, "context of unknown provenance: " + v.String()
}
