package main

// wscheck — repository-specific static checker for the 20 given properties of
// nhooyr/websocket. See /verif/DESIGN.md.
//
//   wscheck -repo /repo -verif /verif -prop C03 -tier quick
//   wscheck -repo /repo -paths Conn.readLoop         (debug: dump abstract paths)

import (
	"flag"
	"fmt"
	"go/types"
	"os"
	"path/filepath"
	"runtime/debug"
	"sort"
	"strconv"
	"strings"
	"time"

	"golang.org/x/tools/go/ssa"
)

type propRunner struct {
	Info propInfo
	Run  func(p *Program, r *Report)
}

var registry = map[string]*propRunner{}

func register(id string, info propInfo, run func(p *Program, r *Report)) {
	registry[id] = &propRunner{Info: info, Run: run}
}

func main() {
	repo := flag.String("repo", "/repo", "repository working tree")
	verif := flag.String("verif", "/verif", "verif directory (KNOWN_FINDINGS.txt, evidence/)")
	prop := flag.String("prop", "", "property id (C01..C20) or 'all'")
	tier := flag.String("tier", "quick", "quick|thorough")
	evidence := flag.String("evidence", "", "evidence file (default <verif>/evidence/<prop>.json)")
	dumpPaths := flag.String("paths", "", "debug: dump abstract paths of a function")
	dumpInline := flag.String("inline", "", "debug: comma separated callee names to inline")
	dumpSSA := flag.String("ssa", "", "debug: dump SSA of a function")
	list := flag.Bool("list", false, "list functions")
	dumpLocks := flag.String("locks", "", "debug: dump lock states of a function")
	arch := flag.String("arch", "", "override configs (comma separated GOARCH)")
	flag.Parse()

	abs, _ := filepath.Abs(*repo)
	*repo = abs

	if *list || *dumpPaths != "" || *dumpSSA != "" || *dumpLocks != "" {
		p, err := loadProgram(*repo, "amd64")
		if err != nil {
			fmt.Println(err)
			os.Exit(2)
		}
		if *list {
			debugFieldLocks(p)
			debugInvokes(p)
			for _, f := range p.Funcs {
				fmt.Println(p.rawName(f), p.FuncPos(f))
				if os.Getenv("WSCHECK_GENSIGS") != "" {
					fmt.Printf("FUN\t%q: true,\n", p.rawName(f))
				}
			}
			if os.Getenv("WSCHECK_GENSIGS") != "" {
				callers := map[string]map[string]bool{}
				for _, cs := range p.CallSites() {
					if cs.Callee != nil && p.isLib(cs.Callee) && cs.Callee.Parent() == nil {
						n := p.rawName(cs.Callee)
						if callers[n] == nil {
							callers[n] = map[string]bool{}
						}
						root := cs.Fn
						for root.Parent() != nil {
							root = root.Parent()
						}
						callers[n][p.rawName(root)] = true
					}
				}
				for _, n := range sortedKeys2(callers) {
					fmt.Printf("CAL\t%q: %#v,\n", n, sortedKeys(callers[n]))
				}
				p.mainMembers(func(name, desc string, m ssa.Member) { fmt.Printf("MEM\t%q: %q,\n", name, desc) })
				p.libTypes(func(key, und string, o *types.TypeName) { fmt.Printf("TYP\t%q: %q,\n", key, und) })
				for _, f := range p.Funcs {
					ps, fvs := paramsOf(f)
					if len(ps) > 0 {
						fmt.Printf("PRM\t%q: %#v,\n", p.rawName(f), varList(ps))
					}
					if len(fvs) > 0 {
						fmt.Printf("FVS\t%q: %#v,\n", p.rawName(f), varList(fvs))
					}
				}
				p.structFields(func(key, typ string, v *types.Var, idx int) { fmt.Printf("FLD\t%q: %q,\n", key, fmt.Sprintf("%d|%s", idx, typ)) })
				for _, f := range p.Funcs {
					if f.Parent() == nil {
						fmt.Printf("SIG\t%q: %q,\n", p.rawName(f), p.sigKey(f))
					}
				}
			}
		}
		if *dumpSSA != "" {
			f := p.Func(*dumpSSA)
			if f != nil {
				f.WriteTo(os.Stdout)
			}
		}
		if *dumpPaths != "" {
			debugPaths(p, *dumpPaths, *dumpInline)
		}
		if *dumpLocks != "" {
			debugLocks(p, *dumpLocks)
		}
		return
	}

	ids := []string{*prop}
	if *prop == "all" {
		ids = nil
		for id := range registry {
			ids = append(ids, id)
		}
		sort.Strings(ids)
	}
	exit := 0
	for _, id := range ids {
		ev := *evidence
		if ev == "" || len(ids) > 1 {
			ev = filepath.Join(*verif, "evidence", id+".json")
		}
		if c := runProp(id, *tier, *repo, *verif, ev, *arch); c > exit {
			exit = c
		}
	}
	os.Exit(exit)
}

func runProp(id, tier, repo, verif, evidence, archOverride string) (code int) {
	start := time.Now()
	pr := registry[id]
	seed, _ := strconv.ParseInt(os.Getenv("VERIF_SEED"), 10, 64)
	if pr == nil {
		fmt.Printf("VIOLATION property=%s replay=-\n  undecided: no rule set registered for %s\n", id, id)
		return 1
	}
	configs := []string{"amd64"}
	if tier == "thorough" {
		configs = []string{"amd64", "386", "arm64"}
	}
	if archOverride != "" {
		configs = strings.Split(archOverride, ",")
	}
	var reps []*Report
	for _, arch := range configs {
		r := newReport(id, tier)
		r.Config = "linux/" + arch
		reps = append(reps, r)
		func() {
			defer func() {
				if x := recover(); x != nil {
					r.Undecide("checker panic: %v\n%s", x, debug.Stack())
				}
			}()
			p, err := loadShared(repo, arch)
			if err != nil {
				r.Undecide("%v", err)
				return
			}
			p.Unresolved = nil
			pr.Run(p, r)
			for _, n := range p.RenameNotes {
				r.Note("%s", n)
			}
			seen := map[string]bool{}
			for _, u := range p.Unresolved {
				if !seen[u] {
					seen[u] = true
					r.Undecide("anchor not found: %s (renamed or removed; the rule that needs it cannot run)", u)
				}
			}
		}()
	}
	cmdline := fmt.Sprintf("wscheck -repo %s -prop %s -tier %s", repo, id, tier)
	return finishRun(id, tier, seed, reps, verif, evidence, time.Since(start).Seconds(), pr.Info, cmdline)
}

// loadShared: with WSCHECK_SHARE=1 (development aid for the sensitivity matrices, which run all 20 properties on one
// variant tree) the loaded program is reused between the properties of one process; the registered commands run one
// property per process and always load afresh.
var sharedProg = map[string]*Program{}

func loadShared(repo, arch string) (*Program, error) {
	if os.Getenv("WSCHECK_SHARE") != "1" {
		return loadProgram(repo, arch)
	}
	if len(sharedProg) > 0 {
		if p, ok := sharedProg[repo+"|"+arch]; ok {
			curProg = p
			return p, nil
		}
		return loadProgram(repo, arch) // the alias tables are global: only one program is shared per process
	}
	p, err := loadProgram(repo, arch)
	if err == nil {
		sharedProg[repo+"|"+arch] = p
	}
	return p, err
}

func debugPaths(p *Program, name, inline string) {
	f := p.Func(name)
	if f == nil {
		fmt.Println("no such function")
		return
	}
	inl := map[string]bool{}
	for _, s := range strings.Split(inline, ",") {
		if s != "" {
			inl[s] = true
		}
	}
	paths, err := p.Explore(f, Opts{Inline: func(fn *ssa.Function, d int) bool { return inl[p.FuncName(fn)] || inl["*"] && p.isLib(fn) && d < 4 }})
	if err != nil {
		fmt.Println("error:", err)
	}
	for i, pa := range paths {
		fmt.Printf("--- path %d end=%s\n", i, pa.End)
		for _, d := range pa.Decisions {
			fk := " "
			if d.Forked {
				fk = "*"
			}
			fmt.Printf("   %s dec %v = %v\n", fk, d.Key, d.Val)
		}
		for _, e := range pa.Events {
			switch e.Kind {
			case "call", "defer", "go", "inline-enter":
				var as []string
				for _, a := range e.Args {
					as = append(as, a.Key())
				}
				dd := ""
				if e.Deferred {
					dd = " (deferred)"
				}
				fmt.Printf("     %s %s(%s)%s\n", e.Kind, e.Callee, strings.Join(as, ", "), dd)
			case "store":
				fmt.Printf("     store %s = %s\n", e.AddrK, e.Val.Key())
			case "select":
				ch, v := "", ""
				if e.Chan != nil {
					ch = e.Chan.Key()
				}
				if e.Val != nil {
					v = e.Val.Key()
				}
				fmt.Printf("     select case %d dir=%v chan=%s val=%s\n", e.Case, e.Dir, ch, v)
			case "return":
				var as []string
				for _, a := range e.Args {
					as = append(as, a.Key())
				}
				fmt.Printf("     return %s\n", strings.Join(as, ", "))
			default:
				fmt.Printf("     %s\n", e.Kind)
			}
		}
	}
	fmt.Println(len(paths), "paths")
}

func debugLocks(p *Program, name string) {
	env := getLockEnv(p)
	fn := p.Func(name)
	if fn == nil {
		return
	}
	fmt.Println(name, "roots:", env.la.roots[fn], "entry:", env.la.EntryNames(fn), "acq:", env.la.Names(env.la.acq[fn]), "rel:", env.la.Names(env.la.rel[fn]))
	for _, cs := range env.la.callersOf[fn] {
		fmt.Println("  caller", p.FuncName(cs.in), p.InstrPos(cs.instr), "deferred", cs.deferred, "held", env.la.Names(env.la.HeldAt(cs.instr)&^topIfTop(env.la.HeldAt(cs.instr))))
	}
	for _, b := range fn.Blocks {
		for _, in := range b.Instrs {
			h := env.la.HeldAt(in)
			s := "⊤"
			if h != topLocks {
				s = strings.Join(env.la.Names(h), ",")
			}
			fmt.Printf("  b%d {%s} %s\n", b.Index, s, in.String())
		}
	}
}

func debugInvokes(p *Program) {
	for _, cs := range p.CallSites() {
		if cs.Instr.Common().IsInvoke() || cs.Name == "dyn" {
			fmt.Printf("%-32s %-45s %s  recv=%s\n", p.FuncName(cs.Fn), cs.Name, p.InstrPos(cs.Instr), cs.Instr.Common().Value.String())
		}
	}
}

func debugFieldLocks(p *Program) {
	env := getLockEnv(p)
	for _, tn := range []string{"Conn", "msgReader", "msgWriter", "limitReader", "netConn", "trimLastFourBytesWriter", "slidingWindow"} {
		nt := p.NamedType(tn)
		if nt == nil {
			continue
		}
		st := nt.Underlying().(*types.Struct)
		for i := 0; i < st.NumFields(); i++ {
			f := st.Field(i)
			var rows []string
			for _, fa := range p.FieldAccesses(f) {
				root := fa.Fn
				for root.Parent() != nil {
					root = root.Parent()
				}
				if constructorFns[p.FuncName(root)] {
					continue
				}
				h := env.la.HeldAt(fa.Instr)
				k := "R"
				if fa.Write {
					k = "W"
				} else if fa.Addr {
					k = "&"
				}
				hs := "⊤"
				if h != topLocks {
					hs = strings.Join(env.la.Names(h), ",")
				}
				rows = append(rows, fmt.Sprintf("%s %s{%s}", k, p.FuncName(fa.Fn), hs))
			}
			sort.Strings(rows)
			fmt.Printf("%s.%s: %s\n", tn, f.Name(), strings.Join(rows, " | "))
		}
	}
}

func sortedKeys2(m map[string]map[string]bool) []string {
	var out []string
	for k := range m {
		out = append(out, k)
	}
	sort.Strings(out)
	return out
}
