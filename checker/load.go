package main

// E0 — loader. Loads the library packages of /repo's *current working tree* with
// go/packages (type-checked syntax), builds go/ssa for them and offers lookups of
// anchors (functions, methods, fields) as resolved program objects. An anchor that does
// not resolve is an error of the run (undecided), never a silent pass.

import (
	"fmt"
	"go/ast"
	"go/token"
	"go/types"
	"os"
	"regexp"
	"sort"
	"strconv"
	"strings"

	"golang.org/x/tools/go/packages"
	"golang.org/x/tools/go/ssa"
	"golang.org/x/tools/go/ssa/ssautil"
)

const modPath = "nhooyr.io/websocket"

var baseLibPatterns = []string{
	modPath,
	modPath + "/wsjson",
	modPath + "/internal/bpool",
	modPath + "/internal/errd",
	modPath + "/internal/util",
	modPath + "/internal/xsync",
}

// libPatterns: the library packages of the program being loaded: the six of the reference tree plus every other package
// of the module that they import (code moved into a new internal package is still library code).
var libPatterns = append([]string{}, baseLibPatterns...)

func isBaseLib(path string) bool {
	for _, b := range baseLibPatterns {
		if b == path {
			return true
		}
	}
	return false
}

// extraLibPackages: packages of the module imported (transitively) by the loaded library packages that are not among the patterns.
func extraLibPackages(pkgs []*packages.Package, have []string) []string {
	in := map[string]bool{}
	for _, h := range have {
		in[h] = true
	}
	seen := map[string]bool{}
	var out []string
	var walk func(pk *packages.Package)
	walk = func(pk *packages.Package) {
		if seen[pk.PkgPath] {
			return
		}
		seen[pk.PkgPath] = true
		if strings.HasPrefix(pk.PkgPath, modPath+"/") && !in[pk.PkgPath] {
			out = append(out, pk.PkgPath)
		}
		if pk.PkgPath == modPath || strings.HasPrefix(pk.PkgPath, modPath+"/") {
			for _, imp := range pk.Imports {
				walk(imp)
			}
		}
	}
	for _, pk := range pkgs {
		walk(pk)
	}
	sort.Strings(out)
	return out
}

// Program is one loaded configuration of the repository.
type Program struct {
	Repo    string
	GOARCH  string
	Fset    *token.FileSet
	Pkgs    map[string]*packages.Package // by import path
	SSA     *ssa.Program
	SSAPkgs map[string]*ssa.Package
	Main    *ssa.Package // nhooyr.io/websocket
	// All source-level functions of the library packages (incl. anonymous ones).
	Funcs []*ssa.Function
	// Anchor resolution failures (collected, reported by the runner).
	Unresolved []string
	// Renames: functions of the reference tree that no longer exist under their name but have exactly one
	// new function with the same package, receiver and signature: the new function answers to the old name.
	renamed     map[*ssa.Function]string
	owner       map[*ssa.Function]string // see FuncName
	absorbed    map[string]*ssa.Function // reference functions inlined into their only caller
	RenameNotes []string
	storeCache map[*ssa.Function]map[string]bool
	nnFields   map[string]map[*ssa.Function]bool
	nnFieldVars map[*types.Var]map[*ssa.Function]bool
	nnPass      int
}

func loadProgram(repo, goarch string) (*Program, error) {
	// the alias tables belong to the program being loaded (programs are analysed one after the other)
	typeAlias = map[*types.TypeName]string{}
	memberAlias = map[ssa.Member]string{}
	fieldAlias = map[*types.Var]string{}
	varAlias = map[ssa.Value]string{}
	env := append(os.Environ(),
		"GOFLAGS=-mod=mod", "GOWORK=off", "GOPROXY=off", "GOSUMDB=off", "GOTOOLCHAIN=local",
		"GOOS=linux", "GOARCH="+goarch, "CGO_ENABLED=0")
	cfg := &packages.Config{
		Mode: packages.NeedName | packages.NeedFiles | packages.NeedCompiledGoFiles |
			packages.NeedImports | packages.NeedDeps | packages.NeedTypes |
			packages.NeedSyntax | packages.NeedTypesInfo | packages.NeedTypesSizes | packages.NeedModule,
		Dir:   repo,
		Env:   env,
		Tests: false,
	}
	libPatterns = append([]string{}, baseLibPatterns...)
	pkgs, err := packages.Load(cfg, libPatterns...)
	if err != nil {
		return nil, fmt.Errorf("packages.Load: %v", err)
	}
	if extra := extraLibPackages(pkgs, libPatterns); len(extra) > 0 {
		libPatterns = append(libPatterns, extra...)
		pkgs, err = packages.Load(cfg, libPatterns...)
		if err != nil {
			return nil, fmt.Errorf("packages.Load: %v", err)
		}
	}
	if len(pkgs) == 0 {
		return nil, fmt.Errorf("no packages loaded from %s", repo)
	}
	p := &Program{Repo: repo, GOARCH: goarch, Pkgs: map[string]*packages.Package{}, SSAPkgs: map[string]*ssa.Package{}}
	var errs []string
	for _, pk := range pkgs {
		for _, e := range pk.Errors {
			errs = append(errs, e.Error())
		}
		if pk.Types == nil || pk.TypesInfo == nil || len(pk.Syntax) == 0 {
			errs = append(errs, pk.PkgPath+": no type information / syntax")
		}
		p.Pkgs[pk.PkgPath] = pk
		p.Fset = pk.Fset
	}
	if len(errs) > 0 {
		return nil, fmt.Errorf("library does not load/type-check:\n  %s", strings.Join(errs, "\n  "))
	}
	for _, want := range libPatterns {
		if p.Pkgs[want] == nil {
			return nil, fmt.Errorf("package %s was not loaded", want)
		}
	}
	prog, ssapkgs := ssautil.Packages(pkgs, ssa.InstantiateGenerics)
	for i, sp := range ssapkgs {
		if sp == nil {
			return nil, fmt.Errorf("no SSA package for %s", pkgs[i].PkgPath)
		}
		sp.Build()
		p.SSAPkgs[pkgs[i].PkgPath] = sp
	}
	p.SSA = prog
	p.Main = p.SSAPkgs[modPath]

	// enumerate source functions of the library packages
	seen := map[*ssa.Function]bool{}
	var add func(f *ssa.Function)
	add = func(f *ssa.Function) {
		if f == nil || seen[f] || f.Blocks == nil {
			return
		}
		seen[f] = true
		p.Funcs = append(p.Funcs, f)
		for _, a := range f.AnonFuncs {
			add(a)
		}
	}
	for _, path := range libPatterns {
		sp := p.SSAPkgs[path]
		for _, m := range sp.Members {
			switch m := m.(type) {
			case *ssa.Function:
				add(m)
			case *ssa.Type:
				for _, T := range []types.Type{m.Type(), types.NewPointer(m.Type())} {
					ms := prog.MethodSets.MethodSet(T)
					for i := 0; i < ms.Len(); i++ {
						fn := prog.MethodValue(ms.At(i))
						if fn != nil && fn.Synthetic == "" {
							add(fn)
						}
					}
				}
			}
		}
	}
	curProg = p
	p.resolveTypeRenames()
	p.resolveMemberRenames()
	p.resolveRenames()
	p.resolveFieldGroups()
	p.resolveFieldRenames()
	p.resolveParamRenames()
	p.computeOwners()
	p.resolveClosureMethods()
	sort.Slice(p.Funcs, func(i, j int) bool { return p.rawName(p.Funcs[i]) < p.rawName(p.Funcs[j]) })
	return p, nil
}

// structFields enumerates the fields of the library's named struct types as "Type.field" ("pkg.Type.field"
// outside the main package) with their type strings.
func (p *Program) structFields(visit func(key string, typ string, v *types.Var, idx int)) {
	for _, path := range libPatterns {
		pk := p.Pkgs[path]
		sc := pk.Types.Scope()
		for _, name := range sc.Names() {
			tn, ok := sc.Lookup(name).(*types.TypeName)
			if !ok {
				continue
			}
			st, ok := tn.Type().Underlying().(*types.Struct)
			if !ok {
				continue
			}
			prefix := ""
			if path != modPath {
				prefix = pk.Name + "."
			}
			for i := 0; i < st.NumFields(); i++ {
				visit(prefix+typeNameOf(tn)+"."+st.Field(i).Name(), refTypeString(st.Field(i).Type()), st.Field(i), i)
			}
		}
	}
}

// groupOwner: struct types that only group fields of a reference struct (see resolveFieldGroups) answer to the name of
// that struct wherever a "Type.field" name is formed.
var groupOwner = map[types.Type]string{}

// sharedGroupField: fields of a reference type that T now embeds (see resolveFieldGroups) ↦ T's embedding field.
var sharedGroupField = map[*types.Var]*types.Var{}

// resolveFieldGroups: fields of a reference struct T that are gone, and a new field g of T whose type is a struct S that is
// not part of the reference tree and holds fields of those names and types, are the same fields grouped into a sub-struct
// (embedded or named). g is transparent: T.g.f is called T.f in every engine, S answers to T's name.
func (p *Program) resolveFieldGroups() {
	groupOwner = map[types.Type]string{}
	sharedGroupField = map[*types.Var]*types.Var{}
	present := map[string]bool{}
	type fr struct {
		key string
		v   *types.Var
	}
	var fresh []fr
	p.structFields(func(key, typ string, v *types.Var, idx int) {
		present[key] = true
		if _, ok := knownFields[key]; !ok {
			fresh = append(fresh, fr{key, v})
		}
	})
	for _, f := range fresh {
		owner := f.key[:strings.LastIndex(f.key, ".")]
		hasKnown := false
		for k := range knownFields {
			if strings.HasPrefix(k, owner+".") {
				hasKnown = true
				break
			}
		}
		if !hasKnown {
			continue
		}
		st, ok := f.v.Type().Underlying().(*types.Struct)
		if !ok {
			continue
		}
		knownType := false
		if n, ok := f.v.Type().(*types.Named); ok {
			if n.Obj().Pkg() == nil || p.Pkgs[n.Obj().Pkg().Path()] == nil {
				continue // a type of another module or the standard library is not a grouping
			}
			name := n.Obj().Name()
			if n.Obj().Pkg().Path() != modPath {
				name = n.Obj().Pkg().Name() + "." + name
			}
			_, knownType = knownTypes[name]
		}
		// every field of S is a gone field of T: by name and type, or — for a group whose fields were renamed on the way —
		// by a type that identifies exactly one gone field of T and one field of S
		goneByType := map[string][]string{}
		for k, it := range knownFields {
			if strings.HasPrefix(k, owner+".") && !present[k] && strings.Count(k[len(owner)+1:], ".") == 0 {
				goneByType[it[strings.Index(it, "|")+1:]] = append(goneByType[it[strings.Index(it, "|")+1:]], k[len(owner)+1:])
			}
		}
		sByType := map[string]int{}
		for i := 0; i < st.NumFields(); i++ {
			sByType[refTypeString(st.Field(i).Type())]++
		}
		matched, total := 0, st.NumFields()
		renames := map[*types.Var]string{}
		for i := 0; i < st.NumFields(); i++ {
			fv := st.Field(i)
			ts := refTypeString(fv.Type())
			old, ok := knownFields[owner+"."+fv.Name()]
			if ok && !present[owner+"."+fv.Name()] && old[strings.Index(old, "|")+1:] == ts {
				matched++
				continue
			}
			if !knownType && len(goneByType[ts]) == 1 && sByType[ts] == 1 {
				renames[fv] = goneByType[ts][0]
				matched++
			}
		}
		if matched == 0 || matched != total {
			continue
		}
		if knownType && len(renames) > 0 {
			continue
		}
		for fv, oldName := range renames {
			fieldAlias[fv] = oldName
		}
		fieldAlias[f.v] = ""
		short := owner
		if i := strings.LastIndex(short, "."); i >= 0 {
			short = short[i+1:]
		}
		if knownType {
			// a type of the reference tree that is also used on its own (connConfig): only the path through T's field is
			// T's; other values of the type keep their own names
			for i := 0; i < st.NumFields(); i++ {
				sharedGroupField[st.Field(i)] = f.v
			}
		} else {
			groupOwner[f.v.Type()] = short
			groupOwner[st] = short
		}
		p.RenameNotes = append(p.RenameNotes, fmt.Sprintf("fields of %s were grouped into %s; they are analysed under their reference names", owner, f.key))
	}
	sort.Strings(p.RenameNotes)
}

// joinField appends a field name to an access path; a transparent grouping field (empty name) adds nothing.
func joinField(k, f string) string {
	if f == "" {
		return k
	}
	return k + "." + f
}

// resolveFieldRenames: a field of the reference tree that is gone and a new field of the same struct with the
// same type, unique in both directions, are the same field under a new name.
func (p *Program) resolveFieldRenames() {
	present := map[string]bool{}
	type fr struct {
		key, typ string
		v        *types.Var
		idx      int
	}
	var fresh []fr
	p.structFields(func(key, typ string, v *types.Var, idx int) {
		present[key] = true
		if _, ok := knownFields[key]; !ok {
			fresh = append(fresh, fr{key, typ, v, idx})
		}
	})
	if len(fresh) == 0 {
		return
	}
	owner := func(key string) string { return key[:strings.LastIndex(key, ".")] }
	gone := map[string][]string{} // owner|type → old keys
	refIdx := map[string]int{}
	for key, it := range knownFields {
		i := strings.Index(it, "|")
		typ := it[i+1:]
		refIdx[key], _ = strconv.Atoi(it[:i])
		if !present[key] {
			gone[owner(key)+"|"+typ] = append(gone[owner(key)+"|"+typ], key)
		}
	}
	cand := map[string][]fr{}
	for _, f := range fresh {
		k := owner(f.key) + "|" + f.typ
		cand[k] = append(cand[k], f)
	}
	for k, fs := range cand {
		// several fields of one type renamed together are paired in declaration order
		if olds := gone[k]; len(fs) == len(olds) {
			sort.Slice(olds, func(i, j int) bool { return refIdx[olds[i]] < refIdx[olds[j]] })
			sort.Slice(fs, func(i, j int) bool { return fs[i].idx < fs[j].idx })
			for i, old := range olds {
				fieldAlias[fs[i].v] = old[strings.LastIndex(old, ".")+1:]
				p.RenameNotes = append(p.RenameNotes, fmt.Sprintf("field %s of the reference tree is gone; %s has the same struct and type and is analysed in its place", old, fs[i].key))
			}
		}
	}
	sort.Strings(p.RenameNotes)
}

// varList renders parameters (or captured variables) as "name|type".
func varList(vs []ssa.Value) []string {
	var out []string
	for _, v := range vs {
		out = append(out, v.Name()+"|"+refTypeString(v.Type()))
	}
	return out
}

func paramsOf(fn *ssa.Function) (ps, fvs []ssa.Value) {
	for _, x := range fn.Params {
		ps = append(ps, x)
	}
	for _, x := range fn.FreeVars {
		fvs = append(fvs, x)
	}
	return
}

// resolveParamRenames: a function of the reference tree whose parameter (captured variable) list still has the
// same length and the same types position by position keeps the reference names for them.
func (p *Program) resolveParamRenames() {
	for _, fn := range p.Funcs {
		name := p.rawName(fn)
		ps, fvs := paramsOf(fn)
		for _, pair := range []struct {
			now []ssa.Value
			ref []string
		}{{ps, knownParams[name]}, {fvs, knownFreeVars[name]}} {
			now := varList(pair.now)
			if len(now) != len(pair.ref) || len(now) == 0 {
				continue
			}
			same := true
			for i := range now {
				if now[i][strings.Index(now[i], "|"):] != pair.ref[i][strings.Index(pair.ref[i], "|"):] {
					same = false
				}
			}
			if !same {
				continue
			}
			for i := range now {
				old := pair.ref[i][:strings.Index(pair.ref[i], "|")]
				if old != pair.now[i].Name() {
					varAlias[pair.now[i]] = old
					p.RenameNotes = append(p.RenameNotes, fmt.Sprintf("variable %s of %s is called %s in the reference tree (same position and type)", pair.now[i].Name(), name, old))
				}
			}
		}
	}
	sort.Strings(p.RenameNotes)
}

// sigKey renders package, receiver and parameter/result types of a function (no names).
func (p *Program) sigKey(fn *ssa.Function) string {
	s := ""
	if fn.Pkg != nil {
		s = fn.Pkg.Pkg.Name() + "|"
	}
	if recv := fn.Signature.Recv(); recv != nil {
		s += refTypeString(recv.Type())
	}
	s += "|"
	for i := 0; i < fn.Signature.Params().Len(); i++ {
		s += refTypeString(fn.Signature.Params().At(i).Type()) + ","
	}
	if fn.Signature.Variadic() {
		s += "..."
	}
	s += "|"
	for i := 0; i < fn.Signature.Results().Len(); i++ {
		s += refTypeString(fn.Signature.Results().At(i).Type()) + ","
	}
	return s
}

// resolveRenames maps a top-level function that is new w.r.t. the reference tree to the name of a reference
// function that is gone, when the match by package, receiver and signature is unique in both directions.
// A rename of a helper is behaviour-preserving; without this every rule anchored at the old name would be
// undecided. A wrong match cannot hide anything: the rules of the old name are then applied to the new function.
func (p *Program) resolveRenames() {
	p.renamed = map[*ssa.Function]string{}
	present := map[string]bool{}
	var fresh []*ssa.Function
	for _, f := range p.Funcs {
		if f.Parent() != nil {
			continue
		}
		n := p.rawName(f)
		present[n] = true
		if !knownFuncs[n] {
			fresh = append(fresh, f)
		}
	}
	if len(fresh) == 0 {
		return
	}
	bySig := map[string][]string{}
	for name, sig := range knownSigs {
		if !present[name] {
			bySig[sig] = append(bySig[sig], name)
		}
	}
	freshBySig := map[string][]*ssa.Function{}
	for _, f := range fresh {
		k := p.sigKey(f)
		freshBySig[k] = append(freshBySig[k], f)
	}
	for sig, fs := range freshBySig {
		if olds := bySig[sig]; len(fs) == 1 && len(olds) == 1 {
			now := p.rawName(fs[0])
			p.renamed[fs[0]] = olds[0]
			p.RenameNotes = append(p.RenameNotes, fmt.Sprintf("function %s of the reference tree is gone; %s (%s) has the same receiver and signature and is analysed in its place", olds[0], now, p.FuncPos(fs[0])))
		}
	}
	// second pass: a reference function that is still missing and a function of a package the reference tree does not
	// have, with the same receiver-less signature, unique in both directions: the function was moved into a new package
	stillMissing := map[string][]string{}
	for name, sig := range knownSigs {
		if present[name] {
			continue
		}
		taken := false
		for _, n := range p.renamed {
			if n == name {
				taken = true
			}
		}
		if !taken {
			if i := strings.Index(sig, "|"); i >= 0 {
				stillMissing[sig[i:]] = append(stillMissing[sig[i:]], name)
			}
		}
	}
	movedBySig := map[string][]*ssa.Function{}
	for _, f := range fresh {
		if _, done := p.renamed[f]; done || f.Pkg == nil || isBaseLib(f.Pkg.Pkg.Path()) || f.Signature.Recv() != nil {
			continue
		}
		k := p.sigKey(f)
		if i := strings.Index(k, "|"); i >= 0 {
			movedBySig[k[i:]] = append(movedBySig[k[i:]], f)
		}
	}
	for sig, fs := range movedBySig {
		olds := stillMissing[sig]
		if len(fs) == 1 && len(olds) == 1 {
			p.renamed[fs[0]] = olds[0]
			p.RenameNotes = append(p.RenameNotes, fmt.Sprintf("function %s of the reference tree is gone; %s.%s (%s) in a package the reference tree does not have has the same signature and is analysed in its place", olds[0], fs[0].Pkg.Pkg.Name(), fs[0].Name(), p.FuncPos(fs[0])))
			continue
		}
		// several helpers of one signature moved together (trimOWS and asciiToLower are both func(string) string): a new
		// name that is the old one without its prefix, up to case (TrimOWS, ToLower, EqualFold, lower), decides - if that
		// pairs every one of them exactly once
		if len(fs) == len(olds) && len(fs) > 1 {
			pair := map[*ssa.Function]string{}
			used := map[string]bool{}
			ok := true
			for _, f := range fs {
				var cands []string
				for _, o := range olds {
					on := o
					if i := strings.LastIndex(on, "."); i >= 0 {
						on = on[i+1:]
					}
					if strings.HasSuffix(strings.ToLower(on), strings.ToLower(f.Name())) {
						cands = append(cands, o)
					}
				}
				// the longest old name that still ends in the new one is not needed: exactly one candidate is
				if len(cands) != 1 || used[cands[0]] {
					ok = false
					break
				}
				pair[f] = cands[0]
				used[cands[0]] = true
			}
			if ok {
				for f, o := range pair {
					p.renamed[f] = o
					p.RenameNotes = append(p.RenameNotes, fmt.Sprintf("function %s of the reference tree is gone; %s.%s (%s) in a package the reference tree does not have has the same signature and the same name without its prefix, and is analysed in its place", o, f.Pkg.Pkg.Name(), f.Name(), p.FuncPos(f)))
				}
			}
		}
	}
	sort.Strings(p.RenameNotes)
}

// isLib reports whether fn belongs to one of the analysed library packages.
func (p *Program) isLib(fn *ssa.Function) bool {
	if fn == nil {
		return false
	}
	pk := fn.Package()
	if pk == nil && fn.Parent() != nil {
		return p.isLib(fn.Parent())
	}
	// an instantiation of a generic function belongs to the package of its origin
	if pk == nil && fn.Origin() != nil && fn.Origin() != fn {
		return p.isLib(fn.Origin())
	}
	if pk == nil || pk.Pkg == nil {
		return false
	}
	_, ok := p.SSAPkgs[pk.Pkg.Path()]
	return ok
}

// FuncName is the name rules use for a function: its own name when it is part of the reference tree; for a helper
// introduced later (not in knownFuncs) that is reached from exactly one reference function, that function's name —
// code moved into a helper still belongs to the function it was extracted from ("Conn.writeFrame" for a helper
// called only by Conn.writeFrame, "Conn.writeFrame$1" for a closure in it). rawName is the function's own name.
func (p *Program) FuncName(fn *ssa.Function) string {
	if fn == nil {
		return "<nil>"
	}
	if fn.Parent() != nil {
		name := fn.Name()
		if i := strings.LastIndex(name, "$"); i >= 0 {
			return p.FuncName(fn.Parent()) + name[i:]
		}
		return p.FuncName(fn.Parent()) + "$" + name
	}
	if o, ok := p.owner[fn]; ok {
		return o
	}
	return p.rawName(fn)
}

// computeOwners attributes every top-level library function that is not part of the reference tree to the
// reference function (or closure) it is reached from, when that is unique.
func (p *Program) computeOwners() {
	p.owner = map[*ssa.Function]string{}
	callers := map[*ssa.Function]map[*ssa.Function]bool{}
	for _, f := range p.Funcs {
		for _, b := range f.Blocks {
			for _, in := range b.Instrs {
				note := func(callee *ssa.Function) {
					if callee != nil && p.isLib(callee) {
						if callers[callee] == nil {
							callers[callee] = map[*ssa.Function]bool{}
						}
						callers[callee][f] = true
					}
				}
				if ci, ok := in.(ssa.CallInstruction); ok {
					note(ci.Common().StaticCallee())
				}
				// function and method values (a method value is a closure over a synthetic bound wrapper)
				var ops []*ssa.Value
				for _, op := range in.Operands(ops) {
					if op == nil || *op == nil {
						continue
					}
					switch v := (*op).(type) {
					case *ssa.Function:
						note(funcBehind(p, v))
					case *ssa.MakeClosure:
						if fn, ok := v.Fn.(*ssa.Function); ok && fn.Parent() == nil {
							note(funcBehind(p, fn))
						}
					}
				}
			}
		}
	}
	isRef := func(f *ssa.Function) bool { return f.Parent() != nil || knownFuncs[p.rawName(f)] }
	for _, f := range p.Funcs {
		if isRef(f) {
			continue
		}
		owners := map[string]bool{}
		seen := map[*ssa.Function]bool{}
		var rec func(g *ssa.Function)
		rec = func(g *ssa.Function) {
			if seen[g] {
				return
			}
			seen[g] = true
			if g != f && isRef(g) {
				// a closure inside another helper is attributed through that helper
				root := g
				for root.Parent() != nil {
					root = root.Parent()
				}
				if root != g && !knownFuncs[p.rawName(root)] {
					rec(root)
					return
				}
				owners[p.rawName(g)] = true
				return
			}
			for c := range callers[g] {
				rec(c)
			}
		}
		rec(f)
		if len(owners) == 1 {
			for o := range owners {
				p.owner[f] = o
				p.RenameNotes = append(p.RenameNotes, fmt.Sprintf("function %s (%s) is not part of the reference tree and is reached only from %s: its sites are attributed to %s", p.rawName(f), p.FuncPos(f), o, o))
			}
		}
	}
	sort.Strings(p.RenameNotes)
}

// funcBehind maps a synthetic bound-method wrapper to the method it wraps (other functions to themselves).
func funcBehind(p *Program, fn *ssa.Function) *ssa.Function {
	if fn != nil && fn.Synthetic != "" && fn.Object() != nil {
		if tf, ok := fn.Object().(*types.Func); ok {
			if m := p.SSA.FuncValue(tf); m != nil {
				return m
			}
		}
	}
	return fn
}

// resolveClosureMethods: the closures X$1..X$n of a reference function X that are gone, when X now refers to exactly
// n functions outside the reference tree (attributed to X) as go/defer targets or function values, have become
// those functions ("closure → method"); they are paired in order of first reference and answer to the closure names.
func (p *Program) resolveClosureMethods() {
	present := map[string]bool{}
	for _, f := range p.Funcs {
		present[p.rawName(f)] = true
	}
	missing := map[string][]string{} // X → missing closure names in index order
	for name := range knownFuncs {
		i := strings.LastIndex(name, "$")
		if i < 0 || present[name] || strings.Contains(name[:i], "$") {
			continue
		}
		missing[name[:i]] = append(missing[name[:i]], name)
	}
	for x, names := range missing {
		sort.Slice(names, func(i, j int) bool {
			a, _ := strconv.Atoi(names[i][strings.LastIndex(names[i], "$")+1:])
			b, _ := strconv.Atoi(names[j][strings.LastIndex(names[j], "$")+1:])
			return a < b
		})
		var xf *ssa.Function
		for _, f := range p.Funcs {
			if f.Parent() == nil && p.rawName(f) == x {
				xf = f
			}
		}
		if xf == nil {
			continue
		}
		var cands []*ssa.Function
		seen := map[*ssa.Function]bool{}
		add := func(f *ssa.Function) {
			f = funcBehind(p, f)
			if f != nil && !seen[f] && f.Parent() == nil && p.isLib(f) && !knownFuncs[p.rawName(f)] && p.owner[f] == x {
				seen[f] = true
				cands = append(cands, f)
			}
		}
		for _, b := range p.blocksOf(xf) {
			for _, in := range b.Instrs {
				switch v := in.(type) {
				case *ssa.Go:
					add(v.Call.StaticCallee())
				case *ssa.Defer:
					add(v.Call.StaticCallee())
				case *ssa.MakeClosure:
					if fn, ok := v.Fn.(*ssa.Function); ok && fn.Parent() == nil {
						add(fn)
					}
				}
			}
		}
		if len(cands) != len(names) {
			continue
		}
		for i, f := range cands {
			p.RenameNotes = append(p.RenameNotes, fmt.Sprintf("closure %s of the reference tree is gone; %s (%s), started/deferred/passed by %s in its place, is analysed as that closure", names[i], p.rawName(f), p.FuncPos(f), x))
			p.renamed[f] = names[i]
			delete(p.owner, f)
		}
	}
	sort.Strings(p.RenameNotes)
}

// rawName gives the short stable name used in specs and reports:
// "Conn.writeFrame", "readFrameHeader", "wsjson.read", "Conn.CloseRead$1".
func (p *Program) rawName(fn *ssa.Function) string {
	if fn == nil {
		return "<nil>"
	}
	if n, ok := p.renamed[fn]; ok {
		return n
	}
	if fn.Parent() != nil {
		// anonymous: parent$N
		name := fn.Name()
		if i := strings.LastIndex(name, "$"); i >= 0 {
			return p.rawName(fn.Parent()) + name[i:]
		}
		return p.rawName(fn.Parent()) + "$" + name
	}
	prefix := ""
	if fn.Pkg != nil && fn.Pkg.Pkg.Path() != modPath {
		prefix = fn.Pkg.Pkg.Name() + "."
	} else if fn.Pkg == nil && fn.Object() != nil && fn.Object().Pkg() != nil && fn.Object().Pkg().Path() != modPath {
		prefix = fn.Object().Pkg().Name() + "."
	}
	if recv := fn.Signature.Recv(); recv != nil {
		return prefix + typeShort(recv.Type()) + "." + fn.Name()
	}
	return prefix + fn.Name()
}

func typeShort(t types.Type) string {
	for {
		if pt, ok := t.(*types.Pointer); ok {
			t = pt.Elem()
			continue
		}
		break
	}
	if o, ok := groupOwner[t]; ok {
		return o
	}
	if n, ok := t.(*types.Named); ok {
		return typeNameOf(n.Obj())
	}
	if o, ok := groupOwner[t.Underlying()]; ok {
		return o
	}
	return t.String()
}

// curProg is the program being analysed (programs are loaded and analysed one after the other).
var curProg *Program

// typeAlias: named types renamed w.r.t. the reference tree answer to their old name (see resolveTypeRenames).
var typeAlias = map[*types.TypeName]string{}

func typeNameOf(o *types.TypeName) string {
	if n, ok := typeAlias[o]; ok {
		return n
	}
	return o.Name()
}

// memberAlias: package-level variables and constants of the main package renamed w.r.t. the reference tree.
var memberAlias = map[ssa.Member]string{}

func memberName(m ssa.Member) string {
	if n, ok := memberAlias[m]; ok {
		return n
	}
	return m.Name()
}

// member looks a package-level member of the main package up by its reference name.
func (p *Program) member(name string) ssa.Member {
	if m, ok := p.Main.Members[name]; ok {
		if _, aliased := memberAlias[m]; !aliased {
			return m
		}
	}
	for m, old := range memberAlias {
		if old == name {
			return m
		}
	}
	return nil
}

// mainMembers enumerates the variables and constants of the main package: kind|type[|value].
func (p *Program) mainMembers(visit func(name, desc string, m ssa.Member)) {
	var names []string
	for n := range p.Main.Members {
		names = append(names, n)
	}
	sort.Strings(names)
	for _, n := range names {
		switch m := p.Main.Members[n].(type) {
		case *ssa.Global:
			if !strings.Contains(n, "$") && n != "_" {
				visit(n, "var|"+refTypeString(m.Type()), m)
			}
		case *ssa.NamedConst:
			if n != "_" {
				visit(n, "const|"+refTypeString(m.Type())+"|"+m.Value.Value.ExactString(), m)
			}
		}
	}
}

// resolveMemberRenames: a variable (constant) of the reference tree that is gone and a new one of the same type
// (and value), unique in both directions, are the same member under a new name.
func (p *Program) resolveMemberRenames() {
	present := map[string]bool{}
	type mr struct {
		name, desc string
		m          ssa.Member
	}
	var fresh []mr
	p.mainMembers(func(name, desc string, m ssa.Member) {
		present[name] = true
		if _, ok := knownMembers[name]; !ok {
			fresh = append(fresh, mr{name, desc, m})
		}
	})
	if len(fresh) == 0 {
		return
	}
	gone := map[string][]string{}
	for name, desc := range knownMembers {
		if !present[name] {
			gone[desc] = append(gone[desc], name)
		}
	}
	cand := map[string][]mr{}
	for _, f := range fresh {
		cand[f.desc] = append(cand[f.desc], f)
	}
	for desc, fs := range cand {
		if olds := gone[desc]; len(fs) == 1 && len(olds) == 1 {
			memberAlias[fs[0].m] = olds[0]
			p.RenameNotes = append(p.RenameNotes, fmt.Sprintf("package-level %s of the reference tree is gone; %s has the same type%s and is analysed in its place", olds[0], fs[0].name, map[bool]string{true: " and value"}[strings.HasPrefix(desc, "const")]))
		}
	}
}

// refTypeString renders a type with package names as qualifiers and renamed library types under their
// reference names.
func refTypeString(t types.Type) string {
	s := types.TypeString(t, func(p *types.Package) string { return p.Name() })
	for o, old := range typeAlias {
		if strings.Contains(s, o.Name()) {
			re := regexp.MustCompile(`\b` + regexp.QuoteMeta(o.Pkg().Name()+"."+o.Name()) + `\b`)
			s = re.ReplaceAllString(s, o.Pkg().Name()+"."+old)
		}
	}
	return s
}

// lookupType finds a package-level type by its reference name.
func lookupType(pk *packages.Package, name string) *types.TypeName {
	sc := pk.Types.Scope()
	if obj, ok := sc.Lookup(name).(*types.TypeName); ok {
		if _, aliased := typeAlias[obj]; !aliased {
			return obj
		}
	}
	for _, n := range sc.Names() {
		if obj, ok := sc.Lookup(n).(*types.TypeName); ok && typeAlias[obj] == name {
			return obj
		}
	}
	return nil
}

// libTypes enumerates the package-level named types of the library as "Type" / "pkg.Type" with the rendering
// of their underlying type.
func (p *Program) libTypes(visit func(key, underlying string, o *types.TypeName)) {
	for _, path := range libPatterns {
		pk := p.Pkgs[path]
		sc := pk.Types.Scope()
		for _, name := range sc.Names() {
			tn, ok := sc.Lookup(name).(*types.TypeName)
			if !ok || tn.IsAlias() {
				continue
			}
			prefix := ""
			if path != modPath {
				prefix = pk.Name + "."
			}
			und := refTypeString(tn.Type().Underlying())
			if st, ok := tn.Type().Underlying().(*types.Struct); ok {
				// field names may be renamed together with the type: compare the field types in order
				und = "struct{"
				for i := 0; i < st.NumFields(); i++ {
					und += refTypeString(st.Field(i).Type()) + "; "
				}
				und += "}"
			}
			visit(prefix+name, und, tn)
		}
	}
}

// resolveTypeRenames: a named type of the reference tree that is gone and a new named type of the same package
// with the same underlying type, unique in both directions, are the same type under a new name.
func (p *Program) resolveTypeRenames() {
	for i := 0; i < 6; i++ {
		if !p.resolveTypeRenamesOnce() {
			break
		}
	}
}

func (p *Program) resolveTypeRenamesOnce() (progress bool) {
	present := map[string]bool{}
	type tr struct {
		key, und string
		o        *types.TypeName
	}
	var fresh []tr
	p.libTypes(func(key, und string, o *types.TypeName) {
		present[key] = true
		if _, ok := knownTypes[key]; !ok {
			if _, done := typeAlias[o]; !done {
				fresh = append(fresh, tr{key, und, o})
			}
		}
	})
	if len(fresh) == 0 {
		return false
	}
	taken := map[string]bool{}
	for _, old := range typeAlias {
		taken[old] = true
	}
	pkgOf := func(key string) string {
		if i := strings.Index(key, "."); i >= 0 {
			return key[:i]
		}
		return ""
	}
	gone := map[string][]string{}
	for key, und := range knownTypes {
		if !present[key] && !taken[key[strings.LastIndex(key, ".")+1:]] {
			gone[pkgOf(key)+"|"+und] = append(gone[pkgOf(key)+"|"+und], key)
		}
	}
	cand := map[string][]tr{}
	for _, f := range fresh {
		cand[pkgOf(f.key)+"|"+f.und] = append(cand[pkgOf(f.key)+"|"+f.und], f)
	}
	for k, fs := range cand {
		if olds := gone[k]; len(fs) == 1 && len(olds) == 1 {
			old := olds[0]
			typeAlias[fs[0].o] = old[strings.LastIndex(old, ".")+1:]
			progress = true
			p.RenameNotes = append(p.RenameNotes, fmt.Sprintf("type %s of the reference tree is gone; %s has the same underlying type and is analysed in its place", old, fs[0].key))
		}
	}
	return progress
}

// Func resolves a short name ("Conn.writeFrame", "readFrameHeader", "wsjson.read",
// "Conn.CloseRead$1"). Unresolved anchors are recorded.
func (p *Program) Func(name string) *ssa.Function {
	if f := p.FuncOpt(name); f != nil {
		return f
	}
	p.Unresolved = append(p.Unresolved, "func "+name)
	return nil
}

// FuncCallee resolves a function for who-calls-it rules: a function that was inlined into its only caller has no
// call sites left, so nil is returned for it (and nothing is recorded); a function that is really gone is recorded.
func (p *Program) FuncCallee(name string) *ssa.Function {
	f := p.FuncOpt(name)
	if f == nil {
		p.Unresolved = append(p.Unresolved, "func "+name)
		return nil
	}
	if p.absorbed[name] == f {
		return nil
	}
	return f
}

// FuncOpt is Func without recording a failure.
func (p *Program) FuncOpt(name string) *ssa.Function {
	for _, f := range p.Funcs {
		if p.rawName(f) == name {
			return f
		}
	}
	// a function that is gone and had a single caller in the reference tree was inlined into that caller
	if cs := knownCallers[name]; len(cs) == 1 && knownFuncs[name] && !strings.Contains(name, "$") {
		if _, renamedAway := p.absorbed[name]; !renamedAway {
			for _, f := range p.Funcs {
				if f.Parent() == nil && p.rawName(f) == cs[0] {
					if p.absorbed == nil {
						p.absorbed = map[string]*ssa.Function{}
					}
					p.absorbed[name] = f
					p.RenameNotes = append(p.RenameNotes, fmt.Sprintf("function %s of the reference tree is gone; its only caller %s is analysed in its place (inlined)", name, cs[0]))
					sort.Strings(p.RenameNotes)
				}
			}
		}
		if f := p.absorbed[name]; f != nil {
			return f
		}
	}
	// a closure that moved into a helper together with the body of its function keeps its attributed name
	var found *ssa.Function
	for _, f := range p.Funcs {
		if f.Parent() != nil && p.FuncName(f) == name {
			if found != nil {
				return nil
			}
			found = f
		}
	}
	if found != nil {
		return found
	}
	// the closures of a function that was inlined into its only caller are now closures of that caller; when the caller had
	// none of its own in the reference tree they keep their order
	if i := strings.Index(name, "$"); i > 0 {
		base, rest := name[:i], name[i:]
		if pf := p.FuncOpt(base); pf != nil && p.absorbed[base] == pf {
			host := p.rawName(pf)
			if !knownFuncs[host+"$1"] {
				for _, f := range p.Funcs {
					if f.Parent() != nil && p.rawName(f) == host+rest {
						return f
					}
				}
			}
		}
	}
	return nil
}

// NamedType resolves a package-level named type of the main package (or "pkg.Type").
func (p *Program) NamedType(name string) *types.Named {
	pkgPath := modPath
	if i := strings.Index(name, "."); i >= 0 {
		for path, pk := range p.Pkgs {
			if pk.Name == name[:i] {
				pkgPath = path
			}
		}
		name = name[i+1:]
	}
	pk := p.Pkgs[pkgPath]
	if pk != nil {
		if obj := lookupType(pk, name); obj != nil {
			if n, ok := obj.Type().(*types.Named); ok {
				return n
			}
		}
	}
	p.Unresolved = append(p.Unresolved, "type "+name)
	return nil
}

// Field resolves "Type.field" to the field's *types.Var.
func (p *Program) Field(name string) *types.Var {
	v := p.FieldOpt(name)
	if v == nil {
		p.Unresolved = append(p.Unresolved, "field "+name)
	}
	return v
}

func (p *Program) FieldOpt(name string) *types.Var {
	i := strings.LastIndex(name, ".")
	if i < 0 {
		return nil
	}
	tn, fn := name[:i], name[i+1:]
	var named *types.Named
	for _, path := range libPatterns {
		pk := p.Pkgs[path]
		lookup := tn
		if j := strings.Index(tn, "."); j >= 0 {
			if pk.Name != tn[:j] {
				continue
			}
			lookup = tn[j+1:]
		} else if path != modPath {
			continue
		}
		if obj := lookupType(pk, lookup); obj != nil {
			named, _ = obj.Type().(*types.Named)
		}
	}
	if named == nil {
		return nil
	}
	st, ok := named.Underlying().(*types.Struct)
	if !ok {
		return nil
	}
	var find func(st *types.Struct, depth int) *types.Var
	find = func(st *types.Struct, depth int) *types.Var {
		for k := 0; k < st.NumFields(); k++ {
			if fieldName(st.Field(k)) == fn {
				return st.Field(k)
			}
		}
		if depth < 3 {
			for k := 0; k < st.NumFields(); k++ {
				if fieldName(st.Field(k)) == "" {
					if sub, ok := st.Field(k).Type().Underlying().(*types.Struct); ok {
						if v := find(sub, depth+1); v != nil {
							return v
						}
					}
				}
			}
		}
		return nil
	}
	return find(st, 0)
}

// Global resolves a package-level variable of the main package.
func (p *Program) Global(name string) *ssa.Global {
	if g, ok := p.member(name).(*ssa.Global); ok {
		return g
	}
	p.Unresolved = append(p.Unresolved, "global "+name)
	return nil
}

// ConstInt resolves a package-level integer constant's value.
func (p *Program) ConstInt(name string) (int64, bool) {
	if c, ok := p.member(name).(*ssa.NamedConst); ok {
		if v, ok := constInt64(c.Value.Value); ok {
			return v, true
		}
	}
	p.Unresolved = append(p.Unresolved, "const "+name)
	return 0, false
}

// Pos renders a position relative to the repo root.
func (p *Program) Pos(pos token.Pos) string {
	if !pos.IsValid() {
		return "-"
	}
	ps := p.Fset.Position(pos)
	f := strings.TrimPrefix(ps.Filename, p.Repo+"/")
	return fmt.Sprintf("%s:%d", f, ps.Line)
}

// FuncPos is the position of the function declaration.
func (p *Program) FuncPos(fn *ssa.Function) string {
	if fn == nil {
		return "-"
	}
	return p.Pos(fn.Pos())
}

// InstrPos finds the best available position for an instruction (SSA leaves some
// instructions without one; fall back to neighbours, then to the function).
func (p *Program) InstrPos(in ssa.Instruction) string {
	if in == nil {
		return "-"
	}
	if in.Pos().IsValid() {
		return p.Pos(in.Pos())
	}
	if v, ok := in.(ssa.Value); ok {
		_ = v
	}
	b := in.Block()
	if b != nil {
		idx := -1
		for i, x := range b.Instrs {
			if x == in {
				idx = i
			}
		}
		for d := 1; d < len(b.Instrs); d++ {
			for _, j := range []int{idx - d, idx + d} {
				if j >= 0 && j < len(b.Instrs) && b.Instrs[j].Pos().IsValid() {
					return p.Pos(b.Instrs[j].Pos())
				}
			}
		}
		return p.FuncPos(b.Parent())
	}
	return "-"
}

// FuncDecl finds the syntax of a function (for AST-level rules).
func (p *Program) FuncDecl(fn *ssa.Function) *ast.FuncDecl {
	if fn == nil {
		return nil
	}
	if d, ok := fn.Syntax().(*ast.FuncDecl); ok {
		return d
	}
	return nil
}

// InfoFor returns the types.Info of the package that declares fn.
func (p *Program) InfoFor(fn *ssa.Function) *types.Info {
	for fn.Parent() != nil {
		fn = fn.Parent()
	}
	if fn.Pkg == nil {
		return nil
	}
	if pk := p.Pkgs[fn.Pkg.Pkg.Path()]; pk != nil {
		return pk.TypesInfo
	}
	return nil
}
