package main

// E0 — loader. Loads the library packages of /repo's *current working tree* with
// go/packages (type-checked syntax), builds go/ssa for them and offers lookups of
// anchors (functions, methods, fields) as resolved program objects. An anchor that does
// not resolve is an error of the run (undecided), never a silent pass.

import (
	"fmt"
	"go/ast"
	"go/token"
	"go/types"
	"os"
	"sort"
	"strings"

	"golang.org/x/tools/go/packages"
	"golang.org/x/tools/go/ssa"
	"golang.org/x/tools/go/ssa/ssautil"
)

const modPath = "nhooyr.io/websocket"

var libPatterns = []string{
	modPath,
	modPath + "/wsjson",
	modPath + "/internal/bpool",
	modPath + "/internal/errd",
	modPath + "/internal/util",
	modPath + "/internal/xsync",
}

// Program is one loaded configuration of the repository.
type Program struct {
	Repo    string
	GOARCH  string
	Fset    *token.FileSet
	Pkgs    map[string]*packages.Package // by import path
	SSA     *ssa.Program
	SSAPkgs map[string]*ssa.Package
	Main    *ssa.Package // nhooyr.io/websocket
	// All source-level functions of the library packages (incl. anonymous ones).
	Funcs []*ssa.Function
	// Anchor resolution failures (collected, reported by the runner).
	Unresolved []string
	storeCache map[*ssa.Function]map[string]bool
}

func loadProgram(repo, goarch string) (*Program, error) {
	env := append(os.Environ(),
		"GOFLAGS=-mod=mod", "GOWORK=off", "GOPROXY=off", "GOSUMDB=off", "GOTOOLCHAIN=local",
		"GOOS=linux", "GOARCH="+goarch, "CGO_ENABLED=0")
	cfg := &packages.Config{
		Mode: packages.NeedName | packages.NeedFiles | packages.NeedCompiledGoFiles |
			packages.NeedImports | packages.NeedDeps | packages.NeedTypes |
			packages.NeedSyntax | packages.NeedTypesInfo | packages.NeedTypesSizes | packages.NeedModule,
		Dir:   repo,
		Env:   env,
		Tests: false,
	}
	pkgs, err := packages.Load(cfg, libPatterns...)
	if err != nil {
		return nil, fmt.Errorf("packages.Load: %v", err)
	}
	if len(pkgs) == 0 {
		return nil, fmt.Errorf("no packages loaded from %s", repo)
	}
	p := &Program{Repo: repo, GOARCH: goarch, Pkgs: map[string]*packages.Package{}, SSAPkgs: map[string]*ssa.Package{}}
	var errs []string
	for _, pk := range pkgs {
		for _, e := range pk.Errors {
			errs = append(errs, e.Error())
		}
		if pk.Types == nil || pk.TypesInfo == nil || len(pk.Syntax) == 0 {
			errs = append(errs, pk.PkgPath+": no type information / syntax")
		}
		p.Pkgs[pk.PkgPath] = pk
		p.Fset = pk.Fset
	}
	if len(errs) > 0 {
		return nil, fmt.Errorf("library does not load/type-check:\n  %s", strings.Join(errs, "\n  "))
	}
	for _, want := range libPatterns {
		if p.Pkgs[want] == nil {
			return nil, fmt.Errorf("package %s was not loaded", want)
		}
	}
	prog, ssapkgs := ssautil.Packages(pkgs, ssa.InstantiateGenerics)
	for i, sp := range ssapkgs {
		if sp == nil {
			return nil, fmt.Errorf("no SSA package for %s", pkgs[i].PkgPath)
		}
		sp.Build()
		p.SSAPkgs[pkgs[i].PkgPath] = sp
	}
	p.SSA = prog
	p.Main = p.SSAPkgs[modPath]

	// enumerate source functions of the library packages
	seen := map[*ssa.Function]bool{}
	var add func(f *ssa.Function)
	add = func(f *ssa.Function) {
		if f == nil || seen[f] || f.Blocks == nil {
			return
		}
		seen[f] = true
		p.Funcs = append(p.Funcs, f)
		for _, a := range f.AnonFuncs {
			add(a)
		}
	}
	for _, path := range libPatterns {
		sp := p.SSAPkgs[path]
		for _, m := range sp.Members {
			switch m := m.(type) {
			case *ssa.Function:
				add(m)
			case *ssa.Type:
				for _, T := range []types.Type{m.Type(), types.NewPointer(m.Type())} {
					ms := prog.MethodSets.MethodSet(T)
					for i := 0; i < ms.Len(); i++ {
						fn := prog.MethodValue(ms.At(i))
						if fn != nil && fn.Synthetic == "" {
							add(fn)
						}
					}
				}
			}
		}
	}
	sort.Slice(p.Funcs, func(i, j int) bool { return p.FuncName(p.Funcs[i]) < p.FuncName(p.Funcs[j]) })
	return p, nil
}

// isLib reports whether fn belongs to one of the analysed library packages.
func (p *Program) isLib(fn *ssa.Function) bool {
	if fn == nil {
		return false
	}
	pk := fn.Package()
	if pk == nil && fn.Parent() != nil {
		return p.isLib(fn.Parent())
	}
	if pk == nil || pk.Pkg == nil {
		return false
	}
	_, ok := p.SSAPkgs[pk.Pkg.Path()]
	return ok
}

// FuncName gives the short stable name used in specs and reports:
// "Conn.writeFrame", "readFrameHeader", "wsjson.read", "Conn.CloseRead$1".
func (p *Program) FuncName(fn *ssa.Function) string {
	if fn == nil {
		return "<nil>"
	}
	if fn.Parent() != nil {
		// anonymous: parent$N
		name := fn.Name()
		if i := strings.LastIndex(name, "$"); i >= 0 {
			return p.FuncName(fn.Parent()) + name[i:]
		}
		return p.FuncName(fn.Parent()) + "$" + name
	}
	prefix := ""
	if fn.Pkg != nil && fn.Pkg.Pkg.Path() != modPath {
		prefix = fn.Pkg.Pkg.Name() + "."
	} else if fn.Pkg == nil && fn.Object() != nil && fn.Object().Pkg() != nil && fn.Object().Pkg().Path() != modPath {
		prefix = fn.Object().Pkg().Name() + "."
	}
	if recv := fn.Signature.Recv(); recv != nil {
		return prefix + typeShort(recv.Type()) + "." + fn.Name()
	}
	return prefix + fn.Name()
}

func typeShort(t types.Type) string {
	for {
		if pt, ok := t.(*types.Pointer); ok {
			t = pt.Elem()
			continue
		}
		break
	}
	if n, ok := t.(*types.Named); ok {
		return n.Obj().Name()
	}
	return t.String()
}

// Func resolves a short name ("Conn.writeFrame", "readFrameHeader", "wsjson.read",
// "Conn.CloseRead$1"). Unresolved anchors are recorded.
func (p *Program) Func(name string) *ssa.Function {
	for _, f := range p.Funcs {
		if p.FuncName(f) == name {
			return f
		}
	}
	p.Unresolved = append(p.Unresolved, "func "+name)
	return nil
}

// FuncOpt is Func without recording a failure.
func (p *Program) FuncOpt(name string) *ssa.Function {
	for _, f := range p.Funcs {
		if p.FuncName(f) == name {
			return f
		}
	}
	return nil
}

// NamedType resolves a package-level named type of the main package (or "pkg.Type").
func (p *Program) NamedType(name string) *types.Named {
	pkgPath := modPath
	if i := strings.Index(name, "."); i >= 0 {
		for path, pk := range p.Pkgs {
			if pk.Name == name[:i] {
				pkgPath = path
			}
		}
		name = name[i+1:]
	}
	pk := p.Pkgs[pkgPath]
	if pk != nil {
		if obj, ok := pk.Types.Scope().Lookup(name).(*types.TypeName); ok {
			if n, ok := obj.Type().(*types.Named); ok {
				return n
			}
		}
	}
	p.Unresolved = append(p.Unresolved, "type "+name)
	return nil
}

// Field resolves "Type.field" to the field's *types.Var.
func (p *Program) Field(name string) *types.Var {
	v := p.FieldOpt(name)
	if v == nil {
		p.Unresolved = append(p.Unresolved, "field "+name)
	}
	return v
}

func (p *Program) FieldOpt(name string) *types.Var {
	i := strings.LastIndex(name, ".")
	if i < 0 {
		return nil
	}
	tn, fn := name[:i], name[i+1:]
	var named *types.Named
	for _, path := range libPatterns {
		pk := p.Pkgs[path]
		lookup := tn
		if j := strings.Index(tn, "."); j >= 0 {
			if pk.Name != tn[:j] {
				continue
			}
			lookup = tn[j+1:]
		} else if path != modPath {
			continue
		}
		if obj, ok := pk.Types.Scope().Lookup(lookup).(*types.TypeName); ok {
			named, _ = obj.Type().(*types.Named)
		}
	}
	if named == nil {
		return nil
	}
	st, ok := named.Underlying().(*types.Struct)
	if !ok {
		return nil
	}
	for k := 0; k < st.NumFields(); k++ {
		if st.Field(k).Name() == fn {
			return st.Field(k)
		}
	}
	return nil
}

// Global resolves a package-level variable of the main package.
func (p *Program) Global(name string) *ssa.Global {
	if g, ok := p.Main.Members[name].(*ssa.Global); ok {
		return g
	}
	p.Unresolved = append(p.Unresolved, "global "+name)
	return nil
}

// ConstInt resolves a package-level integer constant's value.
func (p *Program) ConstInt(name string) (int64, bool) {
	if c, ok := p.Main.Members[name].(*ssa.NamedConst); ok {
		if v, ok := constInt64(c.Value.Value); ok {
			return v, true
		}
	}
	p.Unresolved = append(p.Unresolved, "const "+name)
	return 0, false
}

// Pos renders a position relative to the repo root.
func (p *Program) Pos(pos token.Pos) string {
	if !pos.IsValid() {
		return "-"
	}
	ps := p.Fset.Position(pos)
	f := strings.TrimPrefix(ps.Filename, p.Repo+"/")
	return fmt.Sprintf("%s:%d", f, ps.Line)
}

// FuncPos is the position of the function declaration.
func (p *Program) FuncPos(fn *ssa.Function) string {
	if fn == nil {
		return "-"
	}
	return p.Pos(fn.Pos())
}

// InstrPos finds the best available position for an instruction (SSA leaves some
// instructions without one; fall back to neighbours, then to the function).
func (p *Program) InstrPos(in ssa.Instruction) string {
	if in == nil {
		return "-"
	}
	if in.Pos().IsValid() {
		return p.Pos(in.Pos())
	}
	if v, ok := in.(ssa.Value); ok {
		_ = v
	}
	b := in.Block()
	if b != nil {
		idx := -1
		for i, x := range b.Instrs {
			if x == in {
				idx = i
			}
		}
		for d := 1; d < len(b.Instrs); d++ {
			for _, j := range []int{idx - d, idx + d} {
				if j >= 0 && j < len(b.Instrs) && b.Instrs[j].Pos().IsValid() {
					return p.Pos(b.Instrs[j].Pos())
				}
			}
		}
		return p.FuncPos(b.Parent())
	}
	return "-"
}

// FuncDecl finds the syntax of a function (for AST-level rules).
func (p *Program) FuncDecl(fn *ssa.Function) *ast.FuncDecl {
	if fn == nil {
		return nil
	}
	if d, ok := fn.Syntax().(*ast.FuncDecl); ok {
		return d
	}
	return nil
}

// InfoFor returns the types.Info of the package that declares fn.
func (p *Program) InfoFor(fn *ssa.Function) *types.Info {
	for fn.Parent() != nil {
		fn = fn.Parent()
	}
	if fn.Pkg == nil {
		return nil
	}
	if pk := p.Pkgs[fn.Pkg.Pkg.Path()]; pk != nil {
		return pk.TypesInfo
	}
	return nil
}
