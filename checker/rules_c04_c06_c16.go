package main

import (
	"go/token"
	"fmt"
	"go/constant"
	"go/types"
	"strings"

	"golang.org/x/tools/go/ssa"
)

func init() {
	register("C04", propInfo{
		Explanation: "Static decision of the structural clauses of C04 (no silent truncation): the end-of-message decision of msgReader.Read is extracted as a decision table over the frame state (fin, outstanding payload, compression) and the opaque error classification, and compared with the oracle 'clean end ⇒ final frame fully received'; bytes returned together with an error are unmasked; the adapters (Conn.Read, netConn.read, wsjson.read) do not convert errors into clean ends.",
		Decides: []string{
			"C04.eom: msgReader.Read returns the io.EOF sentinel only when fin ∧ payloadLength==0, and nil only when the underlying read returned nil",
			"C04.unmask: in the server role every count returned by msgReader.read is preceded by unmasking exactly the bytes read, on the error path too",
			"C04.count: payloadLength is decremented by the transport count on every path that returns it",
			"C04.adapters: Conn.Read returns io.ReadAll's error unchanged; netConn.read ends a message only on identity err == io.EOF; wsjson.read returns before Unmarshal on a read error",
			"C04.closers: the connection is torn down (close / closeTransport) only at the frozen sites — read-side failure, received close frame, explicit close, context end of a blocked call; a teardown elsewhere (e.g. on a failed write) makes reads fail before complete messages already received are delivered",
		},
		NotDecided: []string{"that bytes returned before the error are a prefix of the decompressed payload", "that earlier messages were delivered intact, beyond the teardown sites (C04.closers)"},
		Trusted:    []string{"go/types, go/ssa", "io.ReadAll, io.ReadFull, bufio contracts", "errors.Is semantics"},
	}, runC04)
	register("C06", propInfo{
		Explanation: "Static decision of the structural clauses of C06 (close handshake): the sendable-code set and reason bound as tables over all integers; the echo uses the parsed code and reason; CloseError survives every wrapping (all fmt.Errorf with an error operand use %w); closeHandshake returns nil iff the peer echoed the code; every transport operation polls Conn.closed first; Close/CloseNow after the first call never return nil.",
		Decides: []string{
			"C06.frame.len (= C02.bits.len): the header codec's length table (≤125 inline, 126 + 2 bytes, 127 + 8 bytes) — a close payload of 125 bytes goes out in the inline form",
			"C06.recheck: the channel lock itself (C06.recheck = C05.recheck = C07.mu = C09.mu): mu.lock returns nil only holding the lock and after re-polling closed, returns an error only without it, and never releases a lock this call did not acquire; forceLock is one blocking send, unlock at most one receive, tryLock true exactly when its non-blocking send was taken, and nothing else",
			"C06.codes/nosend (= C02.close): sendable codes, reason ≤ 123, no frame on validation failure, 1005 ↦ empty payload",
			"C06.echo: handleControl echoes writeClose(ce.Code, ce.Reason) of the parsed payload and returns an error wrapping that CloseError with %w",
			"C06.chain: every fmt.Errorf in the library that receives an error operand binds it to %w; errd.Wrap uses %w; readLoop passes CloseErrors through",
			"C06.result: closeHandshake returns nil only if CloseStatus(wait error) == code",
			"C06.closed: every transport read/write site is preceded on all paths by a select that polls Conn.closed",
			"C06.once: casClosing flips closing exactly once under closeMu; on the false edge Close/CloseNow return a non-nil error after waitGoroutines and never register the ErrClosed→nil conversion",
		},
		NotDecided: []string{"what a pending read observes under a given schedule", "bytes on the wire beyond C02"},
		Trusted:    []string{"go/types, go/ssa", "errors.As / fmt %w semantics", "RFC 6455 §7.4"},
	}, runC06)
	register("C16", propInfo{
		Explanation: "C16 reduces, given the single emitter (C02.emit) and the emission critical section (C05.emitlock), to a typestate on one boolean inside writeFrame's critical section. The checker extracts writeFrame's decision table over (close-sent flag, opcode class) and verifies that the flag is set on every path that emits a Close frame, is never reset, and that with the flag set no data frame and no Close frame reaches the header write.",
		Decides: []string{
			"C16.state: a bool field of Conn is stored true only in writeFrame and never stored false",
			"C16.set: every path that passes the header write with opcode = Close stores the flag before the lock is released",
			"C16.guard: with the flag set, no path with opcode ∉ {ping, pong} reaches the header write; the call fails with an error",
			"C16.order: the flag is consulted after writeFrameMu was acquired (same critical section as the emission)",
			"C02.emit (shared): single emitter",
		},
		NotDecided: []string{"the trusted base: bufio/transport deliver bytes in call order"},
		Trusted:    []string{"go/types, go/ssa", "channel-mutex semantics of mu"},
	}, runC16)
}

// ---- C04 -----------------------------------------------------------------------------------------------------

func runC04(p *Program, r *Report) {
	c04eom(p, r, "C04.eom")
	c04unmask(p, r, "C04.unmask")
	c04adapters(p, r, "C04.adapters")
	c03hdr(p, r, "C04.hdr")
	c04state(p, r, "C04.state")
	cClosers(p, r, "C04.closers")
}

func c04eom(p *Program, r *Report, rule string) {
	fn := p.Func("msgReader.Read")
	if fn == nil {
		return
	}
	c04stale(p, r, rule+".stale", fn)
	p.runTable(r, tableSpec{
		Rule: rule, Fn: fn, Inline: p.inlineSet("msgReader.discardRest"), Unroll: 1,
		Atoms: []Atom{boolAtom("msgReader.fin"), intAtom("msgReader.payloadLength", candidates(intConstsCompared(fn), 0, 1, 7)), boolAtom("msgReader.flate")},
		Decide: func(v Valuation) func(string, AV) (bool, bool) {
			return func(key string, cond AV) (bool, bool) {
				if strings.HasPrefix(key, "(call:mu.lock@") {
					return true, true
				}
				// the rows are about the message the handle belongs to; a stale handle is decided by C04.eom.stale
				if k := stripSites(key); k == "(param:gen == msgReader.gen)" || k == "(msgReader.gen == param:gen)" {
					return true, true
				}
				return false, false
			}
		},
		Classify: func(v Valuation, pa *Path) string {
			if pa.End == "loop" || pa.End == "loop-in-inline" {
				return "" // one more round of the drain loop (C04.eom.final): the rows are about what is returned
			}
			if pa.End != "return" {
				return pa.End
			}
			errv := pa.Ret[1]
			switch {
			case errv.Key() == "G:io.EOF":
				// a clean end must come from an EOF-class error of the layer below, nothing else (e.g. not the read-limit error)
				eofClass := false
				for _, e := range pa.Calls("errors.Is") {
					if dv, ok := pa.Decided(e.Res.Key()); ok && dv && keyIs(e.Args[0], "call:limitReader.Read@@#1") {
						if argKey(e, 1) == "G:io.EOF" {
							eofClass = true
						}
						if argKey(e, 1) == "G:io.ErrUnexpectedEOF" && v.Bool("msgReader.flate") {
							eofClass = true
						}
					}
				}
				if !eofClass {
					return "CLEAN-ON-NON-EOF-ERROR"
				}
				return "CLEAN"
			case nilness(errv, pa) == -1:
				// nil only if the underlying read returned nil
				if ok, known := decidedLike(pa, "call:limitReader.Read@@#1 == nil"); known && ok {
					return "NIL"
				}
				return "NIL-DESPITE-ERROR"
			case nilness(errv, pa) == 1:
				return "ERR"
			}
			if keyIs(errv, "call:limitReader.Read@@#1") {
				return "ERR" // passes the underlying error through on a non-nil edge?
			}
			return "UNKNOWN(" + errv.Key() + ")"
		},
		Oracle: func(v Valuation) []string {
			if v.Bool("msgReader.fin") && v.Int("msgReader.payloadLength") == 0 {
				return []string{"CLEAN", "NIL", "ERR"}
			}
			return []string{"NIL", "ERR"}
		},
		Need: func(v Valuation) []string {
			if v.Bool("msgReader.fin") && v.Int("msgReader.payloadLength") == 0 {
				return []string{"CLEAN"}
			}
			return []string{"ERR"}
		},
		What: "a clean end of message (io.EOF) is reported only in the state 'final frame received, no payload outstanding'; in every other state an error from below stays an error",
	})
	// a DEFLATE stream may end in a block marked final (RFC 7692 §7.2.3.4) before the frames of the message are exhausted
	// (padding in a later fragment, an empty final fragment, payload beyond the decompressor's read-ahead): the rest of the
	// message has to be consumed, otherwise the message is lost and the frame stream is out of step
	p.runTable(r, tableSpec{
		Rule: rule + ".final", Fn: fn, Unroll: 1, Inline: p.inlineSet("msgReader.discardRest"),
		Atoms: []Atom{boolAtom("msgReader.fin"), intAtom("msgReader.payloadLength", []int64{0, 7}), boolAtom("msgReader.flate")},
		Decide: func(v Valuation) func(string, AV) (bool, bool) {
			return func(key string, cond AV) (bool, bool) {
				if strings.HasPrefix(key, "(call:mu.lock@") {
					return true, true
				}
				k := stripSites(key)
				// the decompressor reported a bare io.EOF: the end of a final block
				if k == "(G:io.EOF == call:limitReader.Read#1)" || k == "(call:limitReader.Read#1 == G:io.EOF)" {
					return true, true
				}
				if k == "(call:limitReader.Read#1 == nil)" {
					return false, true
				}
				return false, false
			}
		},
		Classify: func(v Valuation, pa *Path) string {
			li := eventIndex(pa, 0, func(e *Event) bool { return isCall(e, "limitReader.Read") })
			if li < 0 {
				return ""
			}
			for _, e := range pa.Events[li+1:] {
				if isCall(e, "msgReader.read") || e.Kind == "inline-enter" && e.Callee == "msgReader.read" {
					return "DRAINS-THE-REST"
				}
			}
			return "NO-DRAIN"
		},
		Oracle: func(v Valuation) []string {
			if v.Bool("msgReader.flate") && !(v.Bool("msgReader.fin") && v.Int("msgReader.payloadLength") == 0) {
				return []string{"DRAINS-THE-REST"}
			}
			return []string{"NO-DRAIN"}
		},
		What: "when the decompressor reports the end of its stream (bare io.EOF: a final block) while frames or payload of the message are outstanding, msgReader.Read reads the rest of the message (through msgReader.read) before it reports anything; in the state 'final frame read in full' and for uncompressed messages nothing is drained",
	})
	// the count returned is the underlying read's count
	p.forAllPaths(r, rule+".count", fn, "returned count", Opts{}, "Read returns the count of limitReader.Read (or 0 when the lock failed)", func(pa *Path) (bool, string) {
		if pa.End != "return" {
			return true, ""
		}
		n := pa.Ret[0]
		if z, ok := avInt(n); ok && z == 0 {
			return true, ""
		}
		if keyIs(n, "call:limitReader.Read@@#0") {
			return true, ""
		}
		return false, "returns count " + n.Key()
	})
}

// c04stale: a handle whose message is over (a later Reader call started the next one, which it does only once this one
// was read to its end: C03.seq.reader) gets io.EOF and nothing else: no byte of the next message, no state touched. The
// generation is compared under the read lock, and msgReader.gen is advanced only by reset (F38).
func c04stale(p *Program, r *Report, rule string, fn *ssa.Function) {
	gen := p.FieldOpt("msgReader.gen")
	if gen == nil {
		r.Check(rule, "msgReader", "generation counter", "-", false, "msgReader counts the messages started, so that a reader handle can tell whether its message is still the current one", "no field msgReader.gen")
		return
	}
	p.forAllPaths(r, rule, fn, "stale handle gets io.EOF and nothing else", Opts{Unroll: 1}, "msgReader.Read compares the handle's generation with msgReader.gen after taking the read lock and before reading; on a mismatch it returns (0, io.EOF) without reading or writing anything", func(pa *Path) (bool, string) {
		lk := pa.Calls("mu.lock")
		if len(lk) == 0 {
			return false, "no read lock"
		}
		// the lock is waited for under the handle's own context: the shared msgReader.ctx is replaced by the next Reader
		// call under the lock, reading it before the lock is taken is a data race
		if argKey(lk[0], 1) != "param:ctx" {
			return false, "waits for the read lock under " + argKey(lk[0], 1) + " (read outside the lock)"
		}
		if ok, known := decidedLike(pa, lk[0].Res.Key()+" == nil"); known && !ok {
			return true, ""
		}
		same, known := decidedLike(pa, "param:gen == msgReader.gen")
		if !known {
			same, known = decidedLike(pa, "msgReader.gen == param:gen")
		}
		rd := pa.Calls("limitReader.Read")
		if !known {
			if len(rd) > 0 {
				return false, "reads without comparing the generation"
			}
			return true, ""
		}
		if same {
			return true, ""
		}
		if len(rd) > 0 || len(pa.Calls("msgReader.read")) > 0 {
			return false, "a stale handle reads from the current message"
		}
		for _, e := range pa.Events {
			if e.Kind == "store" && strings.HasPrefix(e.AddrK, "msgReader.") {
				return false, "a stale handle writes " + e.AddrK
			}
		}
		if pa.End == "return" {
			if z, ok := avInt(pa.Ret[0]); !ok || z != 0 || pa.Ret[1].Key() != "G:io.EOF" {
				return false, "a stale handle gets " + pa.Ret[0].Key() + ", " + pa.Ret[1].Key()
			}
		}
		return true, ""
	})
	advanced := 0
	for _, fa := range p.FieldAccesses(gen) {
		if fa.Write || fa.Addr {
			fname := p.FuncName(fa.Fn)
			r.Check(rule, fname, "store msgReader.gen", p.InstrPos(fa.Instr), fname == "msgReader.reset", "the generation is advanced only by msgReader.reset (one new message)", fname)
			if fname == "msgReader.reset" && fa.Store != nil {
				// gen = gen + 1
				if b, ok := fa.Store.Val.(*ssa.BinOp); ok && b.Op == token.ADD {
					if c, ok := b.Y.(*ssa.Const); ok && c.Int64() == 1 {
						advanced++
					}
				}
			}
		}
	}
	r.Check(rule, "msgReader.reset", "advances msgReader.gen", "-", advanced == 1, "every new message advances the generation by one: handles of earlier messages no longer match", fmt.Sprintf("%d increment(s) in reset", advanced))
}

func c04unmask(p *Program, r *Report, rule string) {
	fn := p.Func("msgReader.read")
	if fn == nil {
		return
	}
	p.forAllPaths(r, rule, fn, "server role: returned bytes are unmasked", Opts{Val: map[string]AV{"Conn.client": cBool(false)}},
		"in the server role every return whose count is the transport count n is preceded by mask(buffer[:n]) over the buffer just filled (also on the error path), with the key carried in msgReader.maskKey",
		func(pa *Path) (bool, string) {
			if pa.End != "return" {
				return true, ""
			}
			rd := pa.Calls("Conn.readFramePayload")
			if len(rd) == 0 {
				// no transport read on this path: count must not be a transport count
				return true, ""
			}
			buf := rd[0].Args[2]
			n := pa.Ret[0]
			if !keyIs(n, "call:Conn.readFramePayload@@#0") {
				if z, ok := avInt(n); ok && z == 0 {
					return true, ""
				}
				return false, "returns count " + n.Key() + " after a transport read"
			}
			for _, e := range pa.Calls("mask") {
				a := e.Args[0]
				full := a.Key() == buf.Key()
				part := keyIs(a, "slice("+buf.Key()+",_,"+n.Key()+",_)")
				if part || full {
					if full && !part {
						if ok, known := decidedLike(pa, "call:Conn.readFramePayload@@#1 == nil"); !known || !ok {
							continue // whole buffer unmasked although the read may have been short
						}
					}
					if !keyIs(e.Args[1], "msgReader.maskKey") {
						return false, "mask key is " + argKey(e, 1)
					}
					// result stored back
					for _, s := range pa.Events {
						if s.Kind == "store" && s.AddrK == "msgReader.maskKey" && s.Val.Key() == e.Res.Key() {
							return true, ""
						}
					}
					return false, "rotated key not stored back into msgReader.maskKey"
				}
			}
			return false, "transport count returned without unmasking the bytes read"
		})
	p.forAllPaths(r, "C04.count", fn, "payloadLength -= n", Opts{},
		"every path that returns the transport count has decremented msgReader.payloadLength by exactly that count", func(pa *Path) (bool, string) {
			if pa.End != "return" || !keyIs(pa.Ret[0], "call:Conn.readFramePayload@@#0") {
				return true, ""
			}
			for _, s := range pa.Events {
				if s.Kind == "store" && s.AddrK == "msgReader.payloadLength" && keyIs(s.Val, "(msgReader.payloadLength - convert:int64("+pa.Ret[0].Key()+"))") {
					return true, ""
				}
			}
			return false, "no store payloadLength = payloadLength - int64(n)"
		})
	// the buffer handed to the transport never exceeds the outstanding payload
	p.forAllPaths(r, "C04.bound", fn, "read ≤ outstanding payload", Opts{},
		"the slice passed to readFramePayload is p cut to payloadLength whenever len(p) exceeds it (a frame's bytes never spill into the next header)", func(pa *Path) (bool, string) {
			rd := pa.Calls("Conn.readFramePayload")
			if len(rd) == 0 {
				return true, ""
			}
			big, known := decidedRel(pa, "convert:int64(len(param:p))", ">", "msgReader.payloadLength")
			if !known {
				return false, "no comparison of len(p) with payloadLength before the read"
			}
			a := rd[0].Args[2]
			if big {
				if keyIs(a, "slice(param:p,_,msgReader.payloadLength,_)") {
					return true, ""
				}
				return false, "len(p) > payloadLength but reads into " + a.Key()
			}
			if a.Key() == "param:p" {
				return true, ""
			}
			return false, "reads into " + a.Key()
		})
}

// c04state: the frame state that decides "message complete" is written only where a frame header is
// installed (setFrame, from the header just read) and where payload bytes are accounted (read).
func c04state(p *Program, r *Report, rule string) {
	for _, s := range []struct {
		field string
		fns   map[string]bool
	}{
		{"msgReader.fin", map[string]bool{"msgReader.setFrame": true, "msgReader.read": true}},
		{"msgReader.payloadLength", map[string]bool{"msgReader.setFrame": true, "msgReader.read": true}},
	} {
		f := p.Field(s.field)
		if f == nil {
			continue
		}
		for _, fa := range p.FieldAccesses(f) {
			if !fa.Write && !fa.Addr {
				continue
			}
			root := fa.Fn
			for root.Parent() != nil {
				root = root.Parent()
			}
			if constructorFns[p.FuncName(root)] {
				continue
			}
			fname := p.FuncName(fa.Fn)
			ok := true
			for _, owner := range p.siteOwners(fa.Fn) {
				if !s.fns[owner] {
					ok = false
				}
			}
			detail := fname
			if ok && fa.Store != nil && s.field == "msgReader.fin" {
				// the value is the fin bit of a header (never a constant)
				if c, isC := fa.Store.Val.(*ssa.Const); isC {
					ok = false
					detail = "constant " + c.String() + " stored into fin in " + fname
				}
			}
			r.Check(rule, fname, "store "+s.field, p.InstrPos(fa.Instr), ok, s.field+" is written only when a frame header is installed or payload is consumed, from the header's own value: an error path must not turn a truncated message into the state 'final frame fully received'", detail)
		}
	}
	r.Floor(rule, 3)
}

func c04adapters(p *Program, r *Report, rule string) {
	if fn := p.Func("Conn.Read"); fn != nil {
		p.forAllPaths(r, rule, fn, "io.ReadAll error returned unchanged", Opts{}, "Conn.Read returns io.ReadAll's error as is (and the Reader error before it)", func(pa *Path) (bool, string) {
			if pa.End != "return" {
				return true, ""
			}
			e := pa.Ret[2]
			if keyIs(e, "call:io.ReadAll@@#1") || keyIs(e, "call:Conn.Reader@@#2") {
				return true, ""
			}
			return false, "returns error " + e.Key()
		})
	}
	if fn := p.Func("netConn.read"); fn != nil {
		p.forAllPaths(r, rule, fn, "message end only on err == io.EOF", Opts{}, "netConn.read drops the reader (end of message) only on the identity err == io.EOF of the message reader, and returns any other error", func(pa *Path) (bool, string) {
			if pa.End != "return" {
				return true, ""
			}
			rd := pa.Calls("invoke io.Reader.Read")
			if len(rd) == 0 {
				return true, ""
			}
			eof, known := decidedRel(pa, "call:invoke io.Reader.Read@@#1", "==", "G:io.EOF")
			cleared := false
			for _, s := range pa.Events {
				if s.Kind == "store" && s.AddrK == "netConn.reader" {
					if c, ok := s.Val.(*Const); ok && c.IsNil {
						cleared = true
					}
				}
			}
			if !known {
				return false, "no identity test against io.EOF"
			}
			if cleared != eof {
				return false, fmt.Sprintf("reader cleared=%v on err==io.EOF:%v", cleared, eof)
			}
			errv := pa.Ret[1]
			if !keyIs(pa.Ret[0], "call:invoke io.Reader.Read@@#0") {
				return false, "the count of the message reader's Read is not returned (bytes delivered together with io.EOF would be lost): returns " + pa.Ret[0].Key()
			}
			if eof {
				if nilness(errv, pa) != -1 {
					return false, "io.EOF of a message not converted to nil: " + errv.Key()
				}
				return true, ""
			}
			isNil, nilKnown := decidedLike(pa, "call:invoke io.Reader.Read@@#1 == nil")
			if keyIs(errv, "call:invoke io.Reader.Read@@#1") && rule == "C18.msgend" && !(nilKnown && isNil) {
				// handed on unchanged only after its close status was looked at and found to be neither 1000 nor 1001 (F33)
				cs := pa.Calls("CloseStatus")
				if len(cs) != 1 || !keyIs(cs[0].Args[0], "call:invoke io.Reader.Read@@#1") {
					return false, "the message reader's error is returned without asking CloseStatus: a normal or going-away close received between fragments would not read as io.EOF"
				}
				k := cs[0].Res.Key()
				n1, k1 := decidedLike(pa, k+" == 1000")
				n2, k2 := decidedLike(pa, k+" == 1001")
				if !(k1 && !n1 && k2 && !n2) {
					return false, "the message reader's error is returned unchanged although its close status may be 1000 or 1001"
				}
			}
			if !keyIs(errv, "call:invoke io.Reader.Read@@#1") {
				// the one translation: a normal / going-away close reported by the message reader (a close frame between
				// fragments) reads as io.EOF and is remembered, exactly as on the Reader path
				if errv.Key() == "G:io.EOF" {
					cs := pa.Calls("CloseStatus")
					if len(cs) == 1 && keyIs(cs[0].Args[0], "call:invoke io.Reader.Read@@#1") && (pa.IntWithin(cs[0].Res.Key(), 0, 5000, 1000, 1001)) {
						sticky := false
						for _, s := range pa.Events {
							if s.Kind == "store" && s.AddrK == "netConn.readEOFed" {
								if b, ok := avBool(s.Val); ok && b {
									sticky = true
								}
							}
						}
						if sticky {
							return true, ""
						}
						return false, "io.EOF for a close status without remembering it (readEOFed)"
					}
				}
				return false, "other error not returned unchanged: " + errv.Key()
			}
			return true, ""
		})
	}
	if fn := p.Func("wsjson.read"); fn != nil {
		p.forAllPaths(r, rule, fn, "no Unmarshal after a failed read", Opts{}, "wsjson.read returns ReadFrom's error before json.Unmarshal is reached", func(pa *Path) (bool, string) {
			ok, known := decidedLike(pa, "call:(*bytes.Buffer).ReadFrom@@#1 == nil")
			if known && !ok {
				if len(pa.Calls("json.Unmarshal")) > 0 {
					return false, "Unmarshal after failed ReadFrom"
				}
				if retErr(pa) != "nonnil" && !keyIs(pa.Ret[0], "call:(*bytes.Buffer).ReadFrom@@#1") {
					return false, "ReadFrom error not returned: " + pa.Ret[0].Key()
				}
			}
			return true, ""
		})
	}
}

// ---- C06 ------------------------------------------------------------------------------------------------------

func runC06(p *Program, r *Report) {
	c02close(p, r, "C06.codes")
	c06echo(p, r, "C06.echo")
	c06chain(p, r, "C06.chain")
	c06result(p, r, "C06.result")
	c06closed(p, r, "C06.closed")
	c06once(p, r, "C06.once")
	c06wait(p, r, "C06.wait")
	cReasons(p, r, "C06.reasons")
	c03ctl(p, r, "C06.recv")
	c03closepayload(p, r, "C06.parse")
	c06closereadYield(p, r, "C06.closeread")
	c03fail(p, r, "C06.fail")
	c06held(p, r, "C06.held")
	// "once the connection is closed every further Read, Write … fails": a reader or writer handle of an unfinished
	// message does not turn into a clean end (seeds C06-Q, C06-R)
	if fn := p.Func("msgReader.Read"); fn != nil {
		c04stale(p, r, "C06.stale", fn)
	}
	cReaderHandle(p, r, "C06.rhandle")
	cWriterHandle(p, r, "C06.handle")
	// the payload of a close frame is read in full before it is parsed and echoed (seed C06-O)
	c03full(p, r, "C06.full")
	// "a Close frame with exactly that code and reason": the header codec's length table at 125 (seed C06-M)
	shareAs(r, "C06.frame.len", "C06.frame.len", func(sub *Report) { c02bits(p, sub, "C06.frame") })
	cAfterClose(p, r, "C06.after-close")
}

// varargsOf returns the values stored into the variadic slice passed as the last argument of ev.
func varargsOf(pa *Path, ev *Event) []AV {
	if len(ev.Args) == 0 {
		return nil
	}
	last := ev.Args[len(ev.Args)-1]
	e, ok := last.(*Expr)
	if !ok || e.Op != "slice" {
		return nil
	}
	ad, ok := e.Args[0].(*Addr)
	if !ok {
		return nil
	}
	var out []AV
	for i := 0; ; i++ {
		k := fmt.Sprintf("%s[%d]", ad.K, i)
		var v AV
		for _, s := range pa.Events {
			if s == ev {
				break
			}
			if s.Kind == "store" && s.AddrK == k {
				v = s.Val
			}
		}
		if v == nil {
			break
		}
		out = append(out, v)
	}
	return out
}

func c06echo(p *Program, r *Report, rule string) {
	fn := p.Func("Conn.handleControl")
	if fn == nil {
		return
	}
	p.forAllPaths(r, rule, fn, "close branch echoes the parsed code and reason", Opts{Val: map[string]AV{"header.opcode": cInt(8), "header.fin": cBool(true), "header.payloadLength": cInt(2)}},
		"on a parsed Close frame handleControl calls writeClose(ce.Code, ce.Reason) with the value returned by parseClosePayload and returns an error wrapping that CloseError with %w",
		func(pa *Path) (bool, string) {
			pc := pa.Calls("parseClosePayload")
			if len(pc) == 0 {
				return true, ""
			}
			ok, known := decidedLike(pa, "call:parseClosePayload@@#1 == nil")
			if !known {
				return false, "parse result not tested"
			}
			wc := pa.Calls("Conn.writeClose")
			if !ok {
				// invalid payload: 1002
				we := pa.Calls("Conn.writeError")
				if len(we) != 1 || argKey(we[0], 1) != "1002" || retErr(pa) != "nonnil" {
					return false, "invalid close payload not answered with 1002 and an error"
				}
				return true, ""
			}
			if len(wc) != 1 {
				return false, fmt.Sprintf("%d writeClose calls", len(wc))
			}
			// the echo is bounded by the read's context (handleControl's ≤5 s child of it), not by a fresh Background + 5 s:
			// otherwise a Close that waits for this frame exceeds its bound and a Read ignores its context while the echo blocks
			{
				wt := pa.Calls("context.WithTimeout")
				if wc[0].Val == nil || len(wt) == 0 || wc[0].Val.Key() != wt[0].Res.Key()+"#0" || argKey(wt[0], 0) != "param:ctx" {
					return false, "the echo is not written under handleControl's bounded child of the caller's context (a fresh Background + 5 s instead)"
				}
			}
			ce := "call:parseClosePayload@" // prefix
			if !(strings.HasPrefix(argKey(wc[0], 1), ce) && strings.HasSuffix(argKey(wc[0], 1), "#0.Code") && strings.HasSuffix(argKey(wc[0], 2), "#0.Reason")) {
				return false, "echo uses " + argKey(wc[0], 1) + ", " + argKey(wc[0], 2)
			}
			// returned error: fmt.Errorf("...%w", ce)
			if pa.End != "return" {
				return false, "no return"
			}
			for _, e := range pa.Calls("fmt.Errorf") {
				if e.Res.Key() == pa.Ret[0].Key() {
					f, _ := avStr(e.Args[0])
					va := varargsOf(pa, e)
					if strings.Contains(f, "%w") && len(va) == 1 && keyIs(va[0], "call:parseClosePayload@@#0") {
						return true, ""
					}
					return false, "returned error does not wrap the CloseError with %w: format " + f
				}
			}
			return false, "returned error is " + pa.Ret[0].Key()
		})
	// the payload parsed is the control payload that was read and unmasked
	p.forAllPaths(r, rule+".payload", fn, "parse the bytes read", Opts{Val: map[string]AV{"header.opcode": cInt(8), "header.fin": cBool(true), "header.payloadLength": cInt(2)}},
		"parseClosePayload receives the very slice filled by readFramePayload", func(pa *Path) (bool, string) {
			pc := pa.Calls("parseClosePayload")
			rd := pa.Calls("Conn.readFramePayload")
			if len(pc) == 0 {
				return true, ""
			}
			if len(rd) == 1 && argKey(pc[0], 0) == argKey(rd[0], 2) {
				return true, ""
			}
			return false, "parses " + argKey(pc[0], 0)
		})
	// readLoop passes a CloseError through unchanged
	if rl := p.Func("Conn.readLoop"); rl != nil {
		p.forAllPaths(r, rule+".pass", rl, "CloseError passed through", Opts{Val: map[string]AV{"header.opcode": cInt(8)}},
			"when handleControl fails on a Close frame with a CloseError, readLoop returns that very error; other control errors are wrapped with %w", func(pa *Path) (bool, string) {
				hc := pa.Calls("Conn.handleControl")
				if len(hc) == 0 || pa.End != "return" {
					return true, ""
				}
				errv := pa.Ret[1]
				if errv.Key() == hc[0].Res.Key() {
					return true, ""
				}
				for _, e := range pa.Calls("fmt.Errorf") {
					if e.Res.Key() == errv.Key() {
						f, _ := avStr(e.Args[0])
						va := varargsOf(pa, e)
						if strings.HasSuffix(f, "%w") && len(va) > 0 && va[len(va)-1].Key() == hc[0].Res.Key() {
							return true, ""
						}
					}
				}
				return false, "control error returned as " + errv.Key()
			})
	}
}

// c06chain: every fmt.Errorf that receives an error operand binds it to %w.
func c06chain(p *Program, r *Report, rule string) {
	errType := types.Universe.Lookup("error").Type().Underlying().(*types.Interface)
	n, withErr := 0, 0
	for _, cs := range p.CallSites() {
		if cs.Name != "fmt.Errorf" {
			continue
		}
		n++
		args := cs.Instr.Common().Args
		fc, ok := args[0].(*ssa.Const)
		fname := p.FuncName(cs.Fn)
		if !ok || fc.Value == nil {
			// errd.Wrap builds f+": %w"
			if fname == "errd.Wrap" {
				if bo, ok := args[0].(*ssa.BinOp); ok {
					if c, ok := bo.Y.(*ssa.Const); ok && c.Value != nil && strings.HasSuffix(constant.StringVal(c.Value), "%w") {
						r.Check(rule, fname, "Errorf(f+\": %w\")", p.InstrPos(cs.Instr), true, "errd.Wrap wraps with %w", "ok")
						continue
					}
				}
			}
			r.Check(rule, fname, "Errorf(non-constant format)", p.InstrPos(cs.Instr), false, "fmt.Errorf format strings are constants", args[0].String())
			continue
		}
		format := constant.StringVal(fc.Value)
		verbs := parseVerbs(format)
		// operands
		var ops []ssa.Value
		if len(args) > 1 {
			if sl, ok := args[1].(*ssa.Slice); ok {
				if al, ok := sl.X.(*ssa.Alloc); ok {
					m := map[int64]ssa.Value{}
					for _, ref := range *al.Referrers() {
						if ia, ok := ref.(*ssa.IndexAddr); ok {
							idx, _ := constInt64(ia.Index.(*ssa.Const).Value)
							for _, r2 := range *ia.Referrers() {
								if st, ok := r2.(*ssa.Store); ok {
									m[idx] = st.Val
								}
							}
						}
					}
					for i := int64(0); i < int64(len(m)); i++ {
						ops = append(ops, m[i])
					}
				}
			}
		}
		for i, o := range ops {
			if o == nil {
				continue
			}
			t := o.Type()
			switch mi := o.(type) {
			case *ssa.MakeInterface:
				t = mi.X.Type()
			case *ssa.ChangeInterface:
				t = mi.X.Type()
			}
			if !types.Implements(t, errType) {
				continue
			}
			withErr++
			verb := ""
			if i < len(verbs) {
				verb = verbs[i]
			}
			r.UseFunc(fname)
			r.Check(rule, fname, fmt.Sprintf("Errorf(%q) operand %d", format, i), p.InstrPos(cs.Instr), verb == "w",
				"an error operand of fmt.Errorf is bound to %w so that errors.As/Is (CloseStatus, net.ErrClosed, io.EOF) see through the wrapping", "verb %"+verb)
		}
	}
	r.Note("%s: %d fmt.Errorf call sites, %d error operands", rule, n, withErr)
	r.Floor(rule, 10)
}

func parseVerbs(f string) []string {
	var out []string
	for i := 0; i < len(f); i++ {
		if f[i] != '%' {
			continue
		}
		i++
		for i < len(f) && strings.ContainsRune("+-# 0123456789.[]*", rune(f[i])) {
			i++
		}
		if i < len(f) {
			if f[i] == '%' {
				continue
			}
			out = append(out, string(f[i]))
		}
	}
	return out
}

// cReasons: every Close frame the library sends on its own (protocol errors, read limit, wrong message
// type, bad JSON, CloseRead policy) carries a reason that cannot exceed the 123-byte limit — otherwise
// CloseError.bytes fails and *no* Close frame is sent at all. A reason is bounded when it is a constant
// or the text of fmt.Errorf/errors.New with a constant format whose operands are numbers, booleans,
// small named integer types, or errors produced the same way by a library function.
func cReasons(p *Program, r *Report, rule string) {
	boundedType := func(t types.Type) bool {
		if b, ok := t.Underlying().(*types.Basic); ok {
			return b.Info()&(types.IsInteger|types.IsBoolean|types.IsFloat) != 0
		}
		return false
	}
	// a string built from constants and bounded pieces: decimal/quoted renderings of numbers, String() of a small named
	// integer type (generated stringers), and — the one frozen exception — the payload parseClosePayload has just found
	// shorter than 2 bytes
	var strBounded func(v ssa.Value, inFn string, depth int) bool
	strBounded = func(v ssa.Value, inFn string, depth int) bool {
		if depth > 8 {
			return false
		}
		switch x := v.(type) {
		case *ssa.Const:
			return true
		case *ssa.BinOp:
			return x.Op == token.ADD && strBounded(x.X, inFn, depth+1) && strBounded(x.Y, inFn, depth+1)
		case *ssa.Convert:
			if boundedType(x.X.Type()) {
				return true
			}
			return inFn == "parseClosePayload"
		case *ssa.Phi:
			for _, e := range x.Edges {
				if !strBounded(e, inFn, depth+1) {
					return false
				}
			}
			return true
		case *ssa.Call:
			_, name := p.calleeOf(&x.Call)
			switch name {
			case "strconv.Itoa", "strconv.FormatInt", "strconv.FormatUint", "strconv.FormatBool":
				return true
			case "strconv.Quote":
				return len(x.Call.Args) == 1 && strBounded(x.Call.Args[0], inFn, depth+1)
			}
			if strings.HasSuffix(name, ".String") && len(x.Call.Args) >= 1 && boundedType(x.Call.Args[0].Type()) {
				return true
			}
		}
		return false
	}
	var avStrBounded func(a AV, inParse bool, depth int) bool
	avStrBounded = func(a AV, inParse bool, depth int) bool {
		if depth > 8 || a == nil {
			return false
		}
		switch x := a.(type) {
		case *Const:
			return true
		case *Expr:
			switch x.Op {
			case "binop":
				return x.Name == "+" && len(x.Args) == 2 && avStrBounded(x.Args[0], inParse, depth+1) && avStrBounded(x.Args[1], inParse, depth+1)
			case "convert":
				if len(x.Args) == 1 {
					if ie, ok := x.Args[0].(*Expr); ok && ie.T != nil && boundedType(ie.T) {
						return true
					}
				}
				return inParse
			case "call":
				name := x.Name
				if i := strings.Index(name, "@"); i >= 0 {
					name = name[:i]
				}
				switch name {
				case "strconv.Itoa", "strconv.FormatInt", "strconv.FormatUint", "strconv.FormatBool":
					return true
				case "strconv.Quote":
					return len(x.Args) == 1 && avStrBounded(x.Args[0], inParse, depth+1)
				}
				if strings.HasSuffix(name, ".String") && len(x.Args) >= 1 {
					if ie, ok := x.Args[0].(*Expr); ok && ie.T != nil && boundedType(ie.T) {
						return true
					}
					if _, ok := x.Args[0].(*Const); ok {
						return true
					}
				}
			}
		}
		return false
	}
	var errBounded func(v ssa.Value, depth int) (bool, string)
	// operands of an Errorf call
	operandsOf := func(call *ssa.Call) []ssa.Value {
		var ops []ssa.Value
		args := call.Call.Args
		if len(args) < 2 {
			return nil
		}
		if sl, ok := args[len(args)-1].(*ssa.Slice); ok {
			if al, ok := sl.X.(*ssa.Alloc); ok {
				for _, ref := range *al.Referrers() {
					if ia, ok := ref.(*ssa.IndexAddr); ok {
						for _, r2 := range *ia.Referrers() {
							if st, ok := r2.(*ssa.Store); ok {
								ops = append(ops, st.Val)
							}
						}
					}
				}
			}
		}
		return ops
	}
	errBounded = func(v ssa.Value, depth int) (bool, string) {
		if depth > 4 {
			return false, "too deep"
		}
		switch x := v.(type) {
		case *ssa.Call:
			_, name := p.calleeOf(&x.Call)
			switch name {
			case "errors.New":
				if _, ok := x.Call.Args[0].(*ssa.Const); ok {
					return true, "errors.New(const)"
				}
				if strBounded(x.Call.Args[0], p.FuncName(x.Parent()), 0) {
					return true, "errors.New(constants and bounded pieces)"
				}
				return false, "errors.New of a non-constant"
			case "fmt.Errorf":
				if _, ok := x.Call.Args[0].(*ssa.Const); !ok {
					return false, "non-constant format"
				}
				for _, o := range operandsOf(x) {
					t := o.Type()
					inner := o
					switch mi := o.(type) {
					case *ssa.MakeInterface:
						t, inner = mi.X.Type(), mi.X
					case *ssa.ChangeInterface:
						t, inner = mi.X.Type(), mi.X
					}
					if boundedType(t) {
						continue
					}
					if types.Implements(t, types.Universe.Lookup("error").Type().Underlying().(*types.Interface)) {
						if ok, why := errBounded(inner, depth+1); ok {
							continue
						} else {
							return false, "error operand: " + why
						}
					}
					// the one frozen exception: parseClosePayload quotes a payload it has just found shorter than 2 bytes
					if p.FuncName(x.Parent()) == "parseClosePayload" {
						continue
					}
					return false, "operand of unbounded type " + t.String() + " in " + p.FuncName(x.Parent())
				}
				return true, "fmt.Errorf(const, bounded operands)"
			}
			// error returned by a library function: all its error returns must be bounded
			if callee, ok := x.Call.Value.(*ssa.Function); ok && p.isLib(callee) {
				for _, b := range callee.Blocks {
					for _, in := range b.Instrs {
						if ret, ok := in.(*ssa.Return); ok && len(ret.Results) > 0 {
							last := ret.Results[len(ret.Results)-1]
							if c, isC := last.(*ssa.Const); isC && c.Value == nil {
								continue
							}
							if ok, why := errBounded(last, depth+1); !ok {
								return false, p.FuncName(callee) + ": " + why
							}
						}
					}
				}
				return true, "errors of " + p.FuncName(callee)
			}
			return false, "result of " + name
		case *ssa.Extract:
			return errBounded(x.Tuple, depth)
		case *ssa.Phi:
			for _, e := range x.Edges {
				if ok, why := errBounded(e, depth+1); !ok {
					return false, why
				}
			}
			return true, "phi"
		case *ssa.Parameter:
			// parameter err of Conn.writeError: check all callers
			fn := x.Parent()
			idx := -1
			for i, prm := range fn.Params {
				if prm == x {
					idx = i
				}
			}
			for _, cs := range p.CallersOf(fn) {
				if ok, why := errBounded(cs.Instr.Common().Args[idx], depth+1); !ok {
					return false, p.FuncName(cs.Fn) + ": " + why
				}
			}
			return true, "all callers"
		case *ssa.UnOp:
			if al, ok := x.X.(*ssa.Alloc); ok {
				for _, ref := range *al.Referrers() {
					if st, ok := ref.(*ssa.Store); ok && st.Addr == al {
						if ok, why := errBounded(st.Val, depth+1); !ok {
							return false, why
						}
					}
				}
				return true, "local"
			}
		case *ssa.MakeInterface:
			return errBounded(x.X, depth)
		}
		return false, "unrecognised error value " + v.String()
	}
	errT := types.Universe.Lookup("error").Type().Underlying().(*types.Interface)
	// path-sensitive part: the abstract value of the error whose text becomes the reason
	var avBounded func(pa *Path, a AV) (bool, string)
	avBounded = func(pa *Path, a AV) (bool, string) {
		// a value of a numeric error type of the standard library (flate.CorruptInputError is an int64: "flate: corrupt
		// input before offset N") has a short text whatever its value
		if t := aggType(stripConvAll(a)); t != nil {
			if n, ok := t.(*types.Named); ok && n.Obj().Pkg() != nil && n.Obj().Pkg().Path() == "compress/flate" && n.Obj().Name() == "CorruptInputError" {
				return true, "flate.CorruptInputError"
			}
		}
		if ad, ok := stripConvAll(a).(*Addr); ok && isLocalAllocKey(ad.K) {
			// the local the inflater's error was extracted into with errors.As(err, &local): the type of that local
			for _, ev := range pa.Calls("errors.As") {
				if len(ev.Args) != 2 || !strings.Contains(keyOf(ev.Args[1]), ad.K) {
					continue
				}
				if call, ok := ev.Instr.(*ssa.Call); ok && len(call.Call.Args) == 2 {
					tgt := call.Call.Args[1]
					if mi, ok := tgt.(*ssa.MakeInterface); ok {
						tgt = mi.X
					}
					if pt, ok := tgt.Type().(*types.Pointer); ok {
						if n, ok := pt.Elem().(*types.Named); ok && n.Obj().Pkg() != nil && n.Obj().Pkg().Path() == "compress/flate" && n.Obj().Name() == "CorruptInputError" {
							return true, "flate.CorruptInputError extracted with errors.As"
						}
					}
				}
			}
		}
		e, ok := a.(*Expr)
		if !ok || e.Op != "call" {
			return false, "reason derives from " + a.Key()
		}
		switch {
		case strings.HasPrefix(e.Name, "errors.New@"):
			if _, isC := e.Args[0].(*Const); isC {
				return true, "errors.New(const)"
			}
			if avStrBounded(e.Args[0], strings.Contains(e.Name, "@parseClosePayload."), 0) {
				return true, "errors.New(constants and bounded pieces)"
			}
			return false, "errors.New of a non-constant"
		case strings.HasPrefix(e.Name, "fmt.Errorf@"):
			if _, isC := e.Args[0].(*Const); !isC {
				return false, "non-constant format"
			}
			var ev *Event
			for _, x := range pa.Events {
				if x.Kind == "call" && x.Res != nil && x.Res.Key() == e.Key() {
					ev = x
				}
			}
			if ev == nil {
				return false, "Errorf event not found"
			}
			for _, o := range varargsOf(pa, ev) {
				if _, isC := o.(*Const); isC {
					continue
				}
				var t types.Type
				if oe, ok := o.(*Expr); ok {
					t = oe.T
				}
				if t != nil && boundedType(t) {
					continue
				}
				if oe, ok := o.(*Expr); ok && (oe.Op == "call" || oe.Op == "extract") && t != nil && types.Implements(t, errT) {
					// an error produced by a library function or another Errorf
					base := oe
					if oe.Op == "extract" {
						base, _ = oe.Args[0].(*Expr)
					}
					if base != nil && (strings.HasPrefix(base.Name, "fmt.Errorf@") || strings.HasPrefix(base.Name, "errors.New@")) {
						if ok, why := avBounded(pa, base); ok {
							continue
						} else {
							return false, why
						}
					}
					if base != nil {
						name := base.Name
						if i := strings.Index(name, "@"); i >= 0 {
							name = name[:i]
						}
						if fn := p.FuncOpt(name); fn != nil {
							okAll, why := true, ""
							for _, b := range p.blocksOf(fn) {
								for _, in := range b.Instrs {
									if ret, ok := in.(*ssa.Return); ok && len(ret.Results) > 0 {
										last := ret.Results[len(ret.Results)-1]
										if c, isC := last.(*ssa.Const); isC && c.Value == nil {
											continue
										}
										if !types.Implements(last.Type(), errT) {
											continue
										}
										if ok, w := errBounded(last, 1); !ok {
											okAll, why = false, name+": "+w
										}
									}
								}
							}
							if okAll {
								continue
							}
							return false, "error operand " + why
						}
					}
				}
				ts := "?"
				if t != nil {
					ts = t.String()
				}
				return false, "operand " + o.Key() + " of unbounded type " + ts
			}
			return true, "fmt.Errorf(const format, bounded operands)"
		}
		return false, "reason derives from " + e.Name
	}
	// functions that contain a library-initiated close
	type site struct{ callee string }
	fns := map[*ssa.Function]bool{}
	for _, cs := range p.CallSites() {
		fname := p.FuncName(cs.Fn)
		switch cs.Name {
		case "Conn.writeError":
			fns[cs.Fn] = true
		case "Conn.writeClose", "Conn.writeCloseCtx":
			// the inlined spelling of writeError: writeClose(code, err.Error()) / writeCloseCtx(ctx, code, err.Error())
			if args := cs.Instr.Common().Args; len(args) >= 3 {
				if c, ok := args[len(args)-1].(*ssa.Call); ok && c.Call.IsInvoke() && c.Call.Method.Name() == "Error" && fname != "Conn.writeError" {
					fns[cs.Fn] = true
				}
			}
		case "Conn.Close", "Conn.closeHandshake":
			if fname != "Conn.Close" && fname != "Conn.closeHandshake" && fname != "netConn.Close" {
				fns[cs.Fn] = true
			}
		}
	}
	n := 0
	for fn := range fns {
		if p.FuncName(fn) == "Conn.writeError" {
			continue
		}
		n++
		p.forAllPaths(r, rule, fn, "library-initiated close reasons are bounded", Opts{Unroll: 1},
			"a Close the library initiates on its own (protocol error, read limit, wrong message type, bad JSON, policy violation) carries a reason of at most 123 bytes by construction — a constant, or the text of an error with a constant format and numeric/boolean/bounded-error operands; a longer reason makes CloseError.bytes fail and no Close frame is sent at all",
			func(pa *Path) (bool, string) {
				for _, e := range pa.Calls("Conn.writeError") {
					if ok, why := avBounded(pa, e.Args[2]); !ok {
						return false, "writeError reason: " + why
					}
				}
				for _, e := range pa.Events {
					if e.Kind != "call" {
						continue
					}
					switch e.Callee {
					case "Conn.Close", "Conn.closeHandshake":
						reason := e.Args[2]
						if s, ok := avStr(reason); ok {
							if len(s) > 123 {
								return false, "constant reason longer than 123 bytes"
							}
							continue
						}
						re, ok := reason.(*Expr)
						if !ok || re.Op != "call" || !strings.HasPrefix(re.Name, "invoke error.Error@") {
							return false, e.Callee + " reason is " + reason.Key()
						}
						if ok, why := avBounded(pa, re.Args[0]); !ok {
							return false, e.Callee + " reason: " + why
						}
					}
				}
				return true, ""
			})
	}
	if n < 5 {
		r.Undecide("%s: only %d functions with library-initiated closes found", rule, n)
	}
	_ = site{}
}

// c06wait: waitCloseHandshake stays in frame sync: it first discards exactly the unread rest of the
// current frame, then for every data frame exactly that frame's payload, and leaves only with an error
// (the peer's Close arrives as the CloseError returned by readLoop).
func c06wait(p *Program, r *Report, rule string) {
	fn := p.Func("Conn.waitCloseHandshake")
	if fn == nil {
		return
	}
	p.forAllPaths(r, rule, fn, "frame-synchronous discard", Opts{Unroll: 2},
		"after acquiring readMu, waitCloseHandshake unconditionally discards msgReader.payloadLength bytes (the unread rest of the current frame, whatever its fin bit) before the first readLoop, and after every readLoop discards exactly the returned header's payloadLength; it returns only errors",
		func(pa *Path) (bool, string) {
			ok, known := decidedLike(pa, "call:mu.lock@@ == nil")
			if !known || !ok {
				return true, ""
			}
			var seq []*Event
			for _, e := range pa.Events {
				if isCall(e, "Conn.discardFramePayload", "Conn.readLoop") && !e.Deferred {
					seq = append(seq, e)
				}
			}
			if len(seq) == 0 || seq[0].Callee != "Conn.discardFramePayload" || argKey(seq[0], 2) != "msgReader.payloadLength" {
				return false, "the unread rest of the current frame is not discarded first (unconditionally)"
			}
			// no decision between the lock and the first discard other than the lock result
			li := eventIndex(pa, 0, func(e *Event) bool { return isCall(e, "mu.lock") })
			if seq[0].NDec-pa.Events[li].NDec > 1 {
				return false, "the first discard is conditional"
			}
			for i := 1; i < len(seq); i++ {
				prev, cur := seq[i-1], seq[i]
				switch cur.Callee {
				case "Conn.readLoop":
					if prev.Callee != "Conn.discardFramePayload" {
						return false, "readLoop without discarding the previous frame's payload"
					}
				case "Conn.discardFramePayload":
					if prev.Callee != "Conn.readLoop" || argKey(cur, 2) != prev.Res.Key()+"#0.payloadLength" {
						return false, "discards " + argKey(cur, 2) + " after " + prev.Callee
					}
				}
			}
			if pa.End == "return" && nilness(pa.Ret[0], pa) == -1 {
				return false, "returns nil"
			}
			return true, ""
		})
	if d := p.FuncOpt("Conn.discardFramePayload"); d != nil {
		p.forAllPaths(r, rule, d, "discard exactly n bytes", Opts{Unroll: 2}, "discardFramePayload reads min(n, len(buffer)) bytes per iteration into the control buffer, subtracts what it requested, and stops at n == 0", func(pa *Path) (bool, string) {
			for _, e := range pa.Calls("Conn.readFramePayload") {
				a := argKey(e, 2)
				if !strings.Contains(a, "Conn.readControlBuf") {
					return false, "reads into " + a
				}
			}
			return true, ""
		})
	}
}

func c06result(p *Program, r *Report, rule string) {
	fn := p.Func("Conn.closeHandshake")
	if fn == nil {
		return
	}
	p.forAllPaths(r, rule, fn, "nil iff the peer echoed the code", Opts{},
		"closeHandshake returns nil only when writeClose succeeded and CloseStatus(waitCloseHandshake()) == code; it calls writeClose(code, reason) with its own arguments first", func(pa *Path) (bool, string) {
			wc := pa.Calls("Conn.writeClose")
			if len(wc) != 1 || argKey(wc[0], 1) != "param:code" || argKey(wc[0], 2) != "param:reason" {
				return false, "writeClose not called with (code, reason)"
			}
			if pa.End != "return" {
				return true, ""
			}
			if nilness(pa.Ret[0], pa) == -1 || pa.Ret[0].Key() == "nil" {
				ne, known := decidedRel(pa, "call:CloseStatus@@", "!=", "param:code")
				if !known || ne {
					return false, "returns nil without CloseStatus(err) == code"
				}
				cs := pa.Calls("CloseStatus")
				wait := pa.Calls("Conn.waitCloseHandshake")
				if len(cs) != 1 || len(wait) != 1 || argKey(cs[0], 0) != wait[0].Res.Key() {
					return false, "CloseStatus not applied to waitCloseHandshake's error"
				}
			}
			return true, ""
		})
}

// selectPollsClosed reports whether the select instruction has a receive case on Conn.closed.
func selectPollsClosed(p *Program, sel *ssa.Select) bool {
	f := p.FieldOpt("Conn.closed")
	for _, st := range sel.States {
		if st.Dir == types.RecvOnly && f != nil && derivesFromField(st.Chan, f) {
			return true
		}
	}
	return false
}

func c06closed(p *Program, r *Report, rule string) {
	ioCalls := map[string][]string{
		"Conn.readFrameHeader":  {"readFrameHeader"},
		"Conn.readFramePayload": {"io.ReadFull"},
		"Conn.writeFrame":       {"writeFrameHeader", "Conn.writeFramePayload", "(*bufio.Writer).Flush"},
	}
	for fname, calls := range ioCalls {
		fn := p.Func(fname)
		if fn == nil {
			continue
		}
		p.forAllPaths(r, rule, fn, "transport operation preceded by a poll of closed", Opts{},
			"every transport operation is preceded on the path by a select with a case on Conn.closed that was not taken (a closed connection fails the call before touching the transport)", func(pa *Path) (bool, string) {
				polled := false
				for _, e := range pa.Events {
					if e.Kind == "select" {
						if sel, ok := e.Instr.(*ssa.Select); ok && selectPollsClosed(p, sel) {
							// the chosen case must not be the closed case
							if e.Case >= 0 && sel.States[e.Case].Dir == types.RecvOnly && derivesFromField(sel.States[e.Case].Chan, p.FieldOpt("Conn.closed")) {
								polled = false
							} else {
								polled = true
							}
						}
					}
					if isCall(e, calls...) && !e.Deferred {
						if !polled {
							return false, e.Callee + " reached without polling closed"
						}
					}
				}
				return true, ""
			})
	}
	// mu.lock re-checks closed after acquiring
	if fn := p.Func("mu.lock"); fn != nil {
		// isClosed() is the non-blocking poll of closed: looked through, so both spellings of the re-check read the same
		p.forAllPaths(r, "C06.recheck", fn, "closed re-checked after acquisition", Opts{Inline: p.inlineSet("Conn.isClosed")},
			"mu.lock returns nil only after polling Conn.closed once more after the acquisition and finding it open; when closed it releases the lock and returns a non-nil error", func(pa *Path) (bool, string) {
				if pa.End != "return" {
					return true, ""
				}
				nsel := 0
				var last *Event
				for _, e := range pa.Events {
					if e.Kind == "select" {
						nsel++
						last = e
					}
				}
				if nilness(pa.Ret[0], pa) == -1 {
					if nsel != 2 || last.Case != -1 {
						return false, "nil returned without the non-blocking re-check of closed"
					}
					if len(pa.Calls("mu.unlock")) > 0 {
						return false, "nil returned after releasing"
					}
					return true, ""
				}
				// error return: if the lock was acquired (first select chose the send case), it must be released
				acquired := false
				for _, e := range pa.Events {
					if e.Kind == "select" && e.Case >= 0 && e.Dir == types.SendOnly {
						acquired = true
					}
				}
				if acquired && len(pa.Calls("mu.unlock")) == 0 {
					return false, "error returned while still holding the lock"
				}
				// a caller that was refused (closed, context ended) never held the lock: releasing here would take
				// the token of whoever holds it
				if !acquired && len(pa.Calls("mu.unlock")) > 0 {
					return false, "releases a lock this call did not acquire (the closed / context branch was taken, not the send on mu.ch)"
				}
				return true, ""
			})
	}
	cMuPrimitive(p, r, "C06.recheck")
}

// cMuPrimitive decides the shape of the channel lock's other three operations: the lock rules (E2) treat them as
// acquire / conditional acquire / release, which is only true while they are exactly that.
func cMuPrimitive(p *Program, r *Report, rule string) {
	chOf := func(e *Event) bool { return e.Chan != nil && strings.HasSuffix(e.Chan.Key(), "mu.ch") }
	type opSpec struct {
		fn   string
		what string
		chk  func(pa *Path) (bool, string)
	}
	chanOps := func(pa *Path) (sends, recvs, selSend, selRecv, selDefault int, other bool) {
		for _, e := range pa.Events {
			switch e.Kind {
			case "send":
				if chOf(e) {
					sends++
				} else {
					other = true
				}
			case "recv":
				if chOf(e) {
					recvs++
				} else {
					other = true
				}
			case "select":
				switch {
				case e.Case == -1:
					selDefault++
				case chOf(e) && e.Dir == types.SendOnly:
					selSend++
				case chOf(e) && e.Dir == types.RecvOnly:
					selRecv++
				default:
					other = true
				}
			case "call":
				if !strings.HasPrefix(e.Callee, "builtin ") {
					other = true
				}
			}
		}
		return
	}
	for _, sp := range []opSpec{
		{"mu.forceLock", "forceLock is one blocking send on mu.ch and nothing else", func(pa *Path) (bool, string) {
			s, rc, ss, sr, sd, o := chanOps(pa)
			if s+ss != 1 || rc+sr+sd != 0 || o {
				return false, fmt.Sprintf("sends=%d recvs=%d default=%d other=%v", s+ss, rc+sr, sd, o)
			}
			return true, ""
		}},
		{"mu.unlock", "unlock is one receive on mu.ch (blocking or not) and nothing else: it never sends, never blocks on anything else", func(pa *Path) (bool, string) {
			s, rc, ss, sr, _, o := chanOps(pa)
			if s+ss != 0 || rc+sr > 1 || o {
				return false, fmt.Sprintf("sends=%d recvs=%d other=%v", s+ss, rc+sr, o)
			}
			return true, ""
		}},
		{"mu.tryLock", "tryLock returns true exactly when its non-blocking send on mu.ch was taken", func(pa *Path) (bool, string) {
			if pa.End != "return" {
				return true, ""
			}
			s, rc, ss, sr, _, o := chanOps(pa)
			b, ok := avBool(pa.Ret[0])
			if !ok || s != 0 || rc+sr != 0 || o || ss > 1 {
				return false, fmt.Sprintf("returns %s, sends=%d recvs=%d other=%v", pa.Ret[0].Key(), s+ss, rc+sr, o)
			}
			if b != (ss == 1) {
				return false, fmt.Sprintf("returns %v with %d send(s) taken", b, ss)
			}
			return true, ""
		}},
	} {
		if fn := p.FuncOpt(sp.fn); fn != nil {
			p.forAllPaths(r, rule, fn, "channel-lock primitive", Opts{}, sp.what, sp.chk)
		}
	}
}

// c06held: the error that ended a message early (a close frame between fragments, a protocol error) is reported to
// the reader even when the decompressor handed out buffered bytes first and the connection is closed by the time
// it is asked again: msgReader.read remembers the frame reader's error, reset forgets it, and Read reports it when
// the read lock is refused (F36).
func c06held(p *Program, r *Report, rule string) {
	fld := p.FieldOpt("msgReader.err")
	if fld == nil {
		r.Check(rule, "msgReader", "field err", "-", false, "msgReader keeps the error that ended the current message", "no field msgReader.err")
		return
	}
	if fn := p.Func("msgReader.read"); fn != nil {
		p.forAllPaths(r, rule, fn, "frame reader's error remembered", Opts{}, "when readLoop fails inside a message, msgReader.read stores that very error in msgReader.err before returning it", func(pa *Path) (bool, string) {
			rl := pa.Calls("Conn.readLoop")
			if len(rl) == 0 || pa.End != "return" {
				return true, ""
			}
			if ok, known := decidedLike(pa, rl[len(rl)-1].Res.Key()+"#1 == nil"); known && !ok {
				for _, s := range pa.Events {
					if s.Kind == "store" && s.AddrK == "msgReader.err" && keyIs(s.Val, "call:Conn.readLoop@@#1") {
						return true, ""
					}
				}
				return false, "readLoop's error is returned without being remembered"
			}
			return true, ""
		})
	}
	if fn := p.Func("msgReader.Read"); fn != nil {
		p.forAllPaths(r, rule, fn, "remembered error reported when the lock is refused", Opts{}, "when readMu.lock fails, msgReader.Read wraps msgReader.err if there is one, else the lock's error", func(pa *Path) (bool, string) {
			lk := pa.Calls("mu.lock")
			if len(lk) == 0 || pa.End != "return" {
				return true, ""
			}
			if ok, known := decidedLike(pa, lk[0].Res.Key()+" == nil"); known && !ok {
				held, k := decidedLike(pa, "msgReader.err == nil")
				if !k {
					return false, "the lock's error is returned without looking at the remembered error"
				}
				wrapped := expandCalls(pa, pa.Ret[1].Key())
				if !held && !strings.Contains(wrapped, "msgReader.err") {
					return false, "a remembered error exists but " + wrapped + " is returned"
				}
				if held && !strings.Contains(wrapped, "mu.lock") {
					return false, "no remembered error, yet " + wrapped + " is returned"
				}
			}
			return true, ""
		})
	}
	// forgotten with the message: reset clears it; nobody else writes it
	for _, fa := range p.FieldAccesses(fld) {
		if !fa.Write && !fa.Addr {
			continue
		}
		fname := p.FuncName(fa.Fn)
		ok := fname == "msgReader.read" || fname == "msgReader.reset"
		if fname == "msgReader.reset" && fa.Store != nil {
			if c, isC := fa.Store.Val.(*ssa.Const); !isC || !c.IsNil() {
				ok = false
			}
		}
		r.Check(rule, fname, "store msgReader.err", p.InstrPos(fa.Instr), ok, "msgReader.err is written by msgReader.read (the frame reader's error) and cleared by msgReader.reset (a new message), nowhere else", fname)
	}
	n := 0
	for _, fa := range p.FieldAccesses(fld) {
		if fa.Write && p.FuncName(fa.Fn) == "msgReader.reset" {
			n++
		}
	}
	r.Check(rule, "msgReader.reset", "clears msgReader.err", "-", n == 1, "a new message forgets the error of the previous one", fmt.Sprintf("%d store(s) in reset", n))
}

func c06once(p *Program, r *Report, rule string) {
	if fn := p.Func("Conn.casClosing"); fn != nil {
		p.runTable(r, tableSpec{
			Rule: rule + ".cas", Fn: fn, Atoms: []Atom{boolAtom("Conn.closing")},
			Classify: func(v Valuation, pa *Path) string {
				lock := eventIndex(pa, 0, func(e *Event) bool { return isCall(e, "(*sync.Mutex).Lock") && argKey(e, 0) == "&Conn.closeMu" })
				st := eventIndex(pa, 0, func(e *Event) bool { return e.Kind == "store" && e.AddrK == "Conn.closing" })
				out := "ret=" + pa.Ret[0].Key()
				if st >= 0 {
					out += " set=" + pa.Events[st].Val.Key()
					if lock < 0 || lock > st {
						out += " UNLOCKED"
					}
				}
				if lock < 0 {
					out += " NOLOCK"
				}
				return out
			},
			Oracle: func(v Valuation) []string {
				if v.Bool("Conn.closing") {
					return []string{"ret=false"}
				}
				return []string{"ret=true set=true"}
			},
			What: "casClosing returns true exactly when it flips closing from false to true, under closeMu",
		})
	}
	for _, name := range []string{"Conn.Close", "Conn.CloseNow"} {
		fn := p.Func(name)
		if fn == nil {
			continue
		}
		p.runTable(r, tableSpec{
			Rule: rule, Fn: fn, Atoms: []Atom{boolAtom("call:Conn.casClosing")},
			Classify: func(v Valuation, pa *Path) string {
				if pa.End != "return" {
					return pa.End
				}
				wg := pa.Calls("Conn.waitGoroutines")
				var nd []string
				for _, e := range pa.Events {
					if e.Kind == "defer" && e.Callee != "errd.Wrap" {
						nd = append(nd, e.Callee)
					}
				}
				closed := len(pa.Calls("Conn.close")) > 0
				hs := len(pa.Calls("Conn.closeHandshake")) > 0
				if !closed && !hs {
					out := "NOOP"
					if len(wg) == 0 {
						out += "-NOWAIT"
					}
					if len(nd) > 0 {
						out += "-DEFERS(" + strings.Join(nd, ",") + ")"
					}
					e := pa.Ret[0]
					switch {
					case keyIs(e, "call:Conn.waitGoroutines@@"):
						if ok, known := decidedLike(pa, "call:Conn.waitGoroutines@@ == nil"); known && !ok {
							return out + "-ERR"
						}
						return out + "-MAYBE-NIL"
					case e.Key() == "G:net.ErrClosed":
						return out + "-ERRCLOSED"
					case nilness(e, pa) == 1:
						return out + "-ERR"
					}
					return out + "-RET(" + e.Key() + ")"
				}
				out := "CLOSE"
				if len(wg) == 0 {
					out += "-NOWAIT"
				}
				return out
			},
			Oracle: func(v Valuation) []string {
				if v.Bool("call:Conn.casClosing") {
					return []string{"CLOSE"}
				}
				return []string{"NOOP-ERR", "NOOP-ERRCLOSED"}
			},
			Need: func(v Valuation) []string {
				if !v.Bool("call:Conn.casClosing") {
					return []string{"NOOP-ERRCLOSED"}
				}
				return nil
			},
			What: "only the first Close/CloseNow closes; later calls wait for the goroutines and return net.ErrClosed (or the wait error), never nil, and do not register the ErrClosed→nil conversion",
		})
	}
}

// ---- C16 ----------------------------------------------------------------------------------------------------------

func runC16(p *Program, r *Report) {
	c02emit(p, r, "C16.emit")
	env := getLockEnv(p)
	c05guard(p, r, env, "C16.order", map[string]bool{"Conn.closeSent": true})
	c05emitlock(p, r, env, "C16.emitlock")
	fn := p.Func("Conn.writeFrame")
	if fn == nil {
		return
	}
	// C16.state: find the candidate flag: a bool field of Conn stored (true) in writeFrame.
	connT := p.NamedType("Conn")
	if connT == nil {
		return
	}
	st := connT.Underlying().(*types.Struct)
	var flag *types.Var
	for i := 0; i < st.NumFields(); i++ {
		f := st.Field(i)
		if b, ok := f.Type().Underlying().(*types.Basic); !ok || b.Kind() != types.Bool {
			continue
		}
		for _, fa := range p.FieldAccesses(f) {
			if fa.Write && p.FuncName(fa.Fn) == "Conn.writeFrame" {
				if c, ok := fa.Store.Val.(*ssa.Const); ok && c.Value != nil && c.Value.ExactString() == "true" {
					flag = f
				}
			}
		}
	}
	if flag == nil {
		r.Check("C16.state", "Conn.writeFrame", "close-sent flag", p.FuncPos(fn), false,
			"writeFrame records in a bool field of Conn that a Close frame was handed to the transport",
			"no bool field of Conn is stored true in writeFrame: nothing prevents data frames (msgWriter.write → writeFrame) or a second Close frame (handleControl → writeClose → writeControl → writeFrame) after a Close frame")
		return
	}
	fkey := "Conn." + fieldName(flag)
	okState := true
	detail := ""
	for _, fa := range p.FieldAccesses(flag) {
		if fa.Addr {
			okState, detail = false, "address of the flag escapes in "+p.FuncName(fa.Fn)
		}
		if !fa.Write {
			continue
		}
		c, isC := fa.Store.Val.(*ssa.Const)
		if p.FuncName(fa.Fn) != "Conn.writeFrame" || !isC || c.Value == nil || c.Value.ExactString() != "true" {
			okState, detail = false, "stored in "+p.FuncName(fa.Fn)+" value "+fa.Store.Val.String()
		}
	}
	r.Check("C16.state", "Conn.writeFrame", "flag "+fkey, p.FuncPos(fn), okState, "the close-sent flag is stored only in writeFrame, only the constant true (never reset)", "flag "+fkey+" "+detail)

	ops := []int64{}
	for _, o := range opcodeCandidates(fn) {
		if o >= -1 && o <= 16 {
			ops = append(ops, o)
		}
	}
	p.runTable(r, tableSpec{
		Rule: "C16.guard", Fn: fn,
		Atoms:  []Atom{boolAtom(fkey), intAtom("param:opcode", ops), boolAtom("Conn.client")},
		Decide: func(v Valuation) func(string, AV) (bool, bool) { return writeFrameOKDecide },
		Classify: func(v Valuation, pa *Path) string {
			emits := len(pa.Calls("writeFrameHeader")) > 0 || len(pa.Calls("Conn.writeFramePayload")) > 0 || len(pa.Calls("(*bufio.Writer).Flush")) > 0
			if !emits {
				if pa.End == "return" && retErr(pa) == "nil" {
					return "SILENT-NIL"
				}
				return "REFUSED"
			}
			// emitted: was the flag stored before the lock is released?
			set := false
			for _, e := range pa.Events {
				if e.Kind == "rundefers" {
					break
				}
				if e.Kind == "store" && e.AddrK == fkey {
					if b, ok := avBool(e.Val); ok && b {
						set = true
					}
				}
			}
			// order: flag consulted after lock
			lockIdx := eventIndex(pa, 0, func(e *Event) bool { return isCall(e, "mu.lock") && argKey(e, 0) == "Conn.writeFrameMu" })
			if lockIdx < 0 {
				return "EMIT-UNLOCKED"
			}
			for di, d := range pa.Decisions {
				if d.Key == fkey && di < pa.Events[lockIdx].NDec {
					return "EMIT-FLAG-READ-BEFORE-LOCK"
				}
			}
			if set {
				return "EMIT+SET"
			}
			return "EMIT"
		},
		Oracle: func(v Valuation) []string {
			op := v.Int("param:opcode")
			if v.Bool(fkey) {
				if op == 9 || op == 10 {
					return []string{"EMIT", "REFUSED"}
				}
				return []string{"REFUSED"}
			}
			if op == 8 {
				return []string{"EMIT+SET", "REFUSED"}
			}
			return []string{"EMIT", "REFUSED"}
		},
		Need: func(v Valuation) []string {
			op := v.Int("param:opcode")
			if !v.Bool(fkey) && op == 8 {
				return []string{"EMIT+SET"}
			}
			return nil
		},
		What: "typestate inside writeFrame's critical section: after a Close frame only ping/pong may be emitted; emitting a Close frame sets the state before the lock is released",
	})
	// every emitting path with opcode Close sets the flag even when a later step fails (partial close frame)
	p.forAllPaths(r, "C16.set", fn, "flag set on every path that starts a Close frame", Opts{Val: map[string]AV{"param:opcode": cInt(8), fkey: cBool(false)}},
		"every path on which the header write of a Close frame is reached has stored the flag (so a failed or partial Close frame still ends data transmission)", func(pa *Path) (bool, string) {
			hi := eventIndex(pa, 0, func(e *Event) bool { return isCall(e, "writeFrameHeader") })
			if hi < 0 {
				return true, ""
			}
			si := eventIndex(pa, 0, func(e *Event) bool { return e.Kind == "store" && e.AddrK == fkey })
			ri := eventIndex(pa, 0, func(e *Event) bool { return e.Kind == "rundefers" })
			if si >= 0 && (ri < 0 || si < ri) {
				return true, ""
			}
			return false, "Close header written without setting " + fkey
		})
}
