package main

// Rules added after the fifth round of seeded changes (defects disguised as optimisations, features and hardening).
// Each is a who-may / provenance rule over resolved call sites with a frozen table confirmed by reading the reference tree.

import (
	"fmt"
	"go/constant"
	"go/types"
	"sort"
	"strings"

	"golang.org/x/tools/go/ssa"
)

// cClosers: the functions that tear the connection down (Conn.close / Conn.closeTransport). A teardown makes every
// later read fail with net.ErrClosed before the read buffer is looked at, so complete messages that were already
// received are lost: it is admissible only where the read side itself failed, the connection was closed explicitly,
// a close frame was received or a context ended while its call was blocked. Every site is frozen with its reason.
func cClosers(p *Program, r *Report, rule string) {
	allowed := map[string]string{
		"Conn.Close":            "explicit close, after the close handshake",
		"Conn.CloseNow":         "explicit close",
		"newConn$1":             "finalizer of an unreachable connection",
		"Conn.close":            "close() closes the transport first",
		"Conn.timeoutLoop":      "the context of a blocked read or write ended (documented: the connection is closed)",
		"Conn.ping":             "the context of a ping waiting for its pong ended",
		"mu.lock":               "the context of a call waiting for a lock ended",
		"Conn.CloseRead$1":      "the CloseRead goroutine ends: the connection failed or a data message arrived",
		"Conn.readUnlock":       "releases the read resources of a connection that is already closed",
		"Conn.readFrameHeader":  "the transport failed or the header is invalid: the stream cannot be resumed",
		"Conn.readFramePayload": "the transport failed inside a frame: the stream cannot be resumed",
		"Conn.handleControl":    "a close frame was received and answered",
		"Conn.writeError":       "the read side rejected a frame or message and sent a failure close frame",
	}
	n := 0
	for _, cs := range p.CallSites() {
		if cs.Name != "Conn.close" && cs.Name != "Conn.closeTransport" {
			continue
		}
		for _, owner := range p.ownersOf(cs.Fn) {
			n++
			reason, ok := allowed[owner]
			for want, why := range allowed {
				if !ok && p.ownerIs(owner, want) {
					reason, ok = why, true
				}
			}
			r.Check(rule, owner, cs.Kind+" "+cs.Name, p.InstrPos(cs.Instr), ok,
				"the connection is torn down only where the read side failed, a close frame was received, the connection was closed explicitly or the context of a blocked call ended; a teardown elsewhere (for instance on a failed write) makes reads fail before messages that were already received in full are delivered",
				firstNonEmpty(reason, "teardown in "+owner+" is not on the frozen list"))
		}
	}
	if n < 10 {
		r.Undecide("%s: only %d teardown sites found (expected at least 10)", rule, n)
	}
}

// cPoolClients: who takes objects out of the process-wide pools, and which pools exist.
func cPoolClients(p *Program, r *Report, rule string) {
	getters := map[string][]string{
		"getFlateReader":    {"msgReader.resetFlate"},
		"getFlateWriter":    {"msgWriter.ensureFlate"},
		"getBufioReader":    {"dial", "msgReader.resetFlate"},
		"getBufioWriter":    {"dial"},
		"bpool.Get":         {"wsjson.read"},
		"bpool.Put":         {"wsjson.read"},
		"slidingWindowPool": {"slidingWindow.init", "slidingWindow.close"},
	}
	n := 0
	for _, cs := range p.CallSites() {
		allowed, ok := getters[cs.Name]
		if !ok {
			continue
		}
		for _, owner := range p.ownersOf(cs.Fn) {
			n++
			good := false
			for _, a := range allowed {
				if p.ownerIs(owner, a) {
					good = true
				}
			}
			r.Check(rule, owner, cs.Name, p.InstrPos(cs.Instr), good,
				cs.Name+" is used only by "+strings.Join(allowed, ", ")+": the isolation rules (reset on Get, aliases cleared on Put, nothing pooled escapes to the caller) are decided for these clients",
				"pool client "+owner+" is not covered by the isolation rules")
		}
	}
	if n < 7 {
		r.Undecide("%s: only %d pool client sites found (expected at least 7)", rule, n)
	}
	// the pools themselves: package-level variables whose type contains sync.Pool. In the main package they are known by
	// name (renames resolved); the helper package internal/bpool has exactly one, whatever it is called.
	known := map[string]bool{"flateReaderPool": true, "flateWriterPool": true, "swPool": true, "bufioReaderPool": true, "bufioWriterPool": true}
	otherWant := map[string]int{"bpool": 1}
	otherGot := map[string][]string{}
	var names []string
	for _, pkg := range p.SSAPkgs {
		if pkg == nil {
			continue
		}
		for _, m := range pkg.Members {
			g, ok := m.(*ssa.Global)
			if !ok {
				continue
			}
			if !containsSyncPool(g.Type(), 0) {
				continue
			}
			name := g.Name()
			if a, ok := memberAlias[g]; ok {
				name = a
			}
			if pkg.Pkg.Name() != "websocket" {
				otherGot[pkg.Pkg.Name()] = append(otherGot[pkg.Pkg.Name()], name)
				continue
			}
			names = append(names, name)
		}
	}
	sort.Strings(names)
	seen := 0
	const what = "the process-wide pools are flateReaderPool, flateWriterPool, swPool, bufioReaderPool, bufioWriterPool and the one pool of internal/bpool: every pool needs its own reset-on-Get / no-alias-after-Put / no-escape discipline"
	for _, name := range names {
		seen++
		r.Check(rule, "package", "pool "+name, "-", known[name], what, "pool "+name+" is not covered by the isolation rules")
	}
	var pkgs []string
	for k := range otherGot {
		pkgs = append(pkgs, k)
	}
	for k := range otherWant {
		if _, ok := otherGot[k]; !ok {
			pkgs = append(pkgs, k)
		}
	}
	sort.Strings(pkgs)
	for _, k := range pkgs {
		seen += len(otherGot[k])
		r.Check(rule, "package "+k, "pools of package "+k, "-", len(otherGot[k]) == otherWant[k], what, fmt.Sprintf("package %s has %d pool variable(s) %v, expected %d", k, len(otherGot[k]), otherGot[k], otherWant[k]))
	}
	if seen < 6 {
		r.Undecide("%s: only %d pools found (expected 6)", rule, seen)
	}
}

func containsSyncPool(t types.Type, depth int) bool {
	if depth > 4 {
		return false
	}
	switch x := t.(type) {
	case *types.Pointer:
		return containsSyncPool(x.Elem(), depth+1)
	case *types.Named:
		if o := x.Obj(); o != nil && o.Pkg() != nil && o.Pkg().Path() == "sync" && o.Name() == "Pool" {
			return true
		}
		// a typed wrapper around a pool (struct{ p sync.Pool }, generic or not) is a pool
		if st, ok := x.Underlying().(*types.Struct); ok {
			for i := 0; i < st.NumFields(); i++ {
				if containsSyncPool(st.Field(i).Type(), depth+1) {
					return true
				}
			}
		}
		return false
	case *types.Struct:
		for i := 0; i < x.NumFields(); i++ {
			if containsSyncPool(x.Field(i).Type(), depth+1) {
				return true
			}
		}
		return false
	case *types.Map:
		return containsSyncPool(x.Elem(), depth+1)
	case *types.Slice:
		return containsSyncPool(x.Elem(), depth+1)
	case *types.Array:
		return containsSyncPool(x.Elem(), depth+1)
	}
	return false
}

// cTooBigSites: the read limit counts delivered (decompressed) bytes, so the only place that may decide "message too
// big" is limitReader.Read. A 1009 sent from anywhere else enforces the limit on something else (a declared or a
// compressed length) and rejects messages that fit.
func cTooBigSites(p *Program, r *Report, rule string) {
	n := 0
	for _, cs := range p.CallSites() {
		switch cs.Name {
		case "Conn.writeError", "Conn.writeClose", "Conn.writeCloseCtx", "Conn.Close", "Conn.closeHandshake":
		default:
			continue
		}
		is1009 := false
		for _, a := range cs.Instr.Common().Args {
			if c, ok := a.(*ssa.Const); ok && c.Value != nil && c.Value.Kind() == constant.Int {
				if v, ok := constant.Int64Val(c.Value); ok && v == 1009 && strings.HasSuffix(typeString(c.Type()), "StatusCode") {
					is1009 = true
				}
			}
		}
		if !is1009 {
			continue
		}
		for _, owner := range p.ownersOf(cs.Fn) {
			n++
			r.Check(rule, owner, cs.Name+"(StatusMessageTooBig)", p.InstrPos(cs.Instr), p.ownerIs(owner, "limitReader.Read"),
				"StatusMessageTooBig (1009) is decided only by limitReader.Read, which counts the bytes handed to the caller after decompression; a message of at most the limit is never rejected because of a declared or compressed length",
				"1009 sent from "+owner)
		}
	}
	if n < 1 {
		r.Undecide("%s: no StatusMessageTooBig site found", rule)
	}
}

// cFramePayload: what the data frames of a message carry. The frames written by msgWriter.write carry its parameter
// (the caller's bytes, or the compressor's output when it is invoked through the trim writer); the final frame written
// by msgWriter.Close carries nothing. Any other payload in a frame whose flate flag may be set puts bytes that did not
// go through the compressor into a compressed message.
func cFramePayload(p *Program, r *Report, rule string) {
	for _, fname := range []string{"msgWriter.Close", "msgWriter.write", "Conn.write"} {
		fn := p.Func(fname)
		if fn == nil {
			continue
		}
		fname := fname
		p.forAllPaths(r, rule, fn, "payload of data frames", Opts{}, "a data frame of a message that may be compressed carries either nothing (final frame of a streamed message) or the bytes handed to this very call; bytes kept elsewhere would bypass the compressor", func(pa *Path) (bool, string) {
			for _, w := range pa.Calls("Conn.writeFrame") {
				if len(w.Args) < 6 {
					continue
				}
				pl := stripConvAll(w.Args[5]).Key()
				fl := w.Args[3].Key()
				switch {
				case pl == "nil" || pl == "param:p":
				case fl == "false":
					// an uncompressed frame may carry any bytes of the message
				default:
					if d, known := pa.Decided("msgWriter.flate"); known && !d {
						continue
					}
					return false, fname + " writes a frame with flate=" + fl + " whose payload is " + pl
				}
			}
			return true, ""
		})
	}
}

// ownerIs: a site attributed to owner counts for the reference function want when owner is want, or when want was inlined
// into its only caller and owner is that caller.
func (p *Program) ownerIs(owner, want string) bool {
	if owner == want {
		return true
	}
	f := p.FuncOpt(want)
	if f != nil && p.absorbed[want] == f && p.rawName(f) == owner {
		return true
	}
	// want is gone altogether (inlined into several callers): its sites now belong to the functions that called it
	if f == nil && knownFuncs[want] {
		for _, c := range knownCallers[want] {
			if c == owner {
				return true
			}
		}
	}
	return false
}

// cRequestWriters: who shapes the handshake request. The request's fields (Header, Host, …) are assigned, and its header
// map is modified, only by handshakeRequest — in particular not by the redirect hook, which runs on every hop after the
// request was built and verified against (the key, the offers and the caller's headers must survive a redirect).
func cRequestWriters(p *Program, r *Report, rule string) {
	isReq := func(t types.Type) bool {
		n, ok := derefType(t).(*types.Named)
		return ok && n.Obj().Pkg() != nil && n.Obj().Pkg().Path() == "net/http" && n.Obj().Name() == "Request"
	}
	fromReqHeader := func(v ssa.Value) bool {
		for i := 0; i < 6; i++ {
			switch x := v.(type) {
			case *ssa.UnOp:
				if fa, ok := x.X.(*ssa.FieldAddr); ok && isReq(fa.X.Type()) {
					st := derefType(fa.X.Type()).Underlying().(*types.Struct)
					return st.Field(fa.Field).Name() == "Header"
				}
				return false
			case *ssa.ChangeType:
				v = x.X
			case *ssa.Phi:
				if len(x.Edges) == 0 {
					return false
				}
				v = x.Edges[0]
			default:
				return false
			}
		}
		return false
	}
	n := 0
	for _, fn := range p.Funcs {
		for _, b := range fn.Blocks {
			for _, in := range b.Instrs {
				what := ""
				switch x := in.(type) {
				case *ssa.Store:
					if fa, ok := x.Addr.(*ssa.FieldAddr); ok && isReq(fa.X.Type()) {
						st := derefType(fa.X.Type()).Underlying().(*types.Struct)
						what = "store Request." + st.Field(fa.Field).Name()
					}
				case *ssa.MapUpdate:
					if fromReqHeader(x.Map) {
						what = "update of Request.Header"
					}
				case ssa.CallInstruction:
					cc := x.Common()
					if cal := cc.StaticCallee(); cal != nil && cal.Signature.Recv() != nil && len(cc.Args) > 0 && fromReqHeader(cc.Args[0]) {
						switch cal.Name() {
						case "Set", "Add", "Del":
							what = "Request.Header." + cal.Name()
						}
					}
				}
				if what == "" {
					continue
				}
				for _, owner := range p.ownersOf(fn) {
					n++
					r.Check(rule, owner, what, p.InstrPos(in), p.ownerIs(owner, "handshakeRequest"),
						"the handshake request is shaped only by handshakeRequest: its header, Host and the other fields are not rewritten afterwards (not by the redirect hook either, which runs after the key, the offers and the caller's headers were put in place)",
						what+" in "+owner)
				}
			}
		}
	}
	if n < 5 {
		r.Undecide("%s: only %d writes of the handshake request found (expected at least 5)", rule, n)
	}
}

// cCloseFrameSites: a Close frame leaves only through the close writer (writeClose / writeCloseCtx), which marshals a
// validated CloseError; a writeControl / writeFrame call with the constant opcode 8 anywhere else can carry a payload that
// never went through CloseError.bytes (an unsendable code, a reason that is too long).
func cCloseFrameSites(p *Program, r *Report, rule string) {
	cw := p.closeWriter()
	if cw == nil {
		return
	}
	want := p.rawName(cw)
	n := 0
	for _, cs := range p.CallSites() {
		if cs.Name != "Conn.writeControl" && cs.Name != "Conn.writeFrame" {
			continue
		}
		isClose := false
		for _, a := range cs.Instr.Common().Args {
			if c, ok := a.(*ssa.Const); ok && c.Value != nil && c.Value.Kind() == constant.Int && strings.HasSuffix(typeString(c.Type()), "opcode") {
				if v, ok := constant.Int64Val(c.Value); ok && v == 8 {
					isClose = true
				}
			}
		}
		if !isClose {
			continue
		}
		for _, owner := range p.ownersOf(cs.Fn) {
			n++
			r.Check(rule, owner, cs.Name+"(opClose)", p.InstrPos(cs.Instr), owner == want || p.ownerIs(owner, want),
				"Close frames are written only by "+want+", from the bytes of a validated CloseError", "close frame written by "+owner)
		}
	}
	if n < 1 {
		r.Undecide("%s: no site writing a close frame found", rule)
	}
}
