package main

import (
	"strconv"
	"go/types"
	"fmt"
	"go/constant"
	"strings"

	"golang.org/x/tools/go/ssa"
)

func init() {
	register("C11", propInfo{
		Explanation: "Static decision of the structural clauses of C11 (Accept upgrades only valid requests): verifyClientRequest's accept condition is extracted from the SSA as the exact set of facts on its single success path (with integer subjects swept over all regions) and compared with the RFC 6455 §4.2.1 oracle; every other path returns a constant HTTP error status; accept hijacks only behind that gate; the accept key is base64(SHA-1(key+GUID)) by construction; subprotocol selection iterates server preferences outermost.",
		Decides: []string{
			"C11.ascii / C11.ascii.fold / C11.ascii.trim: tokens, key and subprotocol names are never trimmed or compared with strings.TrimSpace / strings.EqualFold; asciiLower maps exactly 'A'..'Z' (table over 21 byte regions), asciiEqualFold compares lengths and every byte pair through it, trimOWS strips exactly SP and HTAB",
			"C11.single: no decision is taken on Header.Get of a header that must be single-valued",
			"C11.verify: success ⇔ HTTP ≥ 1.1 ∧ Connection∋Upgrade ∧ Upgrade∋websocket ∧ GET ∧ exactly one version line with the value 13 ∧ exactly one key ∧ base64 decodes to 16 bytes; all other paths return a constant 4xx/5xx status and an error",
			"C11.gate: Hijack is reached only after verifyClientRequest returned nil (and the origin check passed); the failing edge answers http.Error with verify's status and returns no Conn",
			"C11.key: Sec-WebSocket-Accept = StdEncoding(SHA-1(key ‖ GUID)) with the RFC GUID; the response sets it from the request's key together with Upgrade/Connection before WriteHeader(101)",
			"C11.sub: selectSubprotocol returns the first server-preferred protocol offered by the client (outer loop over the server list), else \"\"",
			"C11.buf: after Hijack the reader is reset to the already buffered bytes followed by the connection",
		},
		NotDecided: []string{"token splitting/trimming semantics of headerTokens", "net/http's own request parsing", "behaviour through a real net/http server with pipelined frames"},
		Trusted:    []string{"go/types, go/ssa", "net/http, crypto/sha1, encoding/base64 contracts", "RFC 6455 §4.2"},
	}, runC11)
	register("C12", propInfo{
		Explanation: "Static decision of the structural clauses of C12 (cross-origin refusal): authenticateOrigin's ALLOW paths are extracted with their facts and compared with the oracle (no Origin; EqualFold(r.Host, parsed.Host); some pattern matches parsed.Host), with provenance of the compared operands; accept refuses with 403 before any upgrade header unless InsecureSkipVerify.",
		Decides: []string{
			"C12.auth: the only nil returns of authenticateOrigin are, for a request with at most one Origin line: empty Origin header; asciiEqualFold(r.Host, u.Host) with u = url.Parse(Origin) succeeded and u.Host non-empty; match(pattern, u.Host) true for a pattern of the configured list; a parse error, a host-less Origin or a pattern error is a refusal",
			"C12.match: match lowers the ASCII letters of both sides (asciiToLower, decided byte-wise through asciiLower) and uses filepath.Match (whole-string)",
			"C12.gate: in accept, every response-header Set and Hijack are behind InsecureSkipVerify ∨ authenticateOrigin == nil; the failing edge sends 403 and returns no Conn",
		},
		NotDecided: []string{"what url.Parse and filepath.Match do with adversarial strings (trusted)"},
		Trusted:    []string{"go/types, go/ssa", "net/url, path/filepath, strings contracts"},
	}, runC12)
	register("C13", propInfo{
		Explanation: "Static decision of the structural clauses of C13 (Dial's request and response validation): the mandatory request headers are set after cloning the caller's headers on every path to HTTPClient.Do; the key is freshly generated per dial from 16 crypto/rand bytes and the same value reaches request and verification; verifyServerResponse's success path carries exactly the oracle's facts; newConn is reached only behind both gates.",
		Decides: []string{
			"C13.req: GET; Header = opts.HTTPHeader.Clone() then Connection/Upgrade/Version/Key set; Host override iff non-empty; subprotocols joined by ','; extensions iff copts != nil",
			"C13.key: secWebSocketKey reads 16 bytes with io.ReadFull from crypto/rand (unless injected) and base64-encodes them; dial passes the same value to the request and to verifyServerResponse",
			"C13.verify: success ⇔ 101 ∧ Connection∋Upgrade ∧ Upgrade∋WebSocket ∧ exactly one Accept line == secWebSocketAccept(key) ∧ no Protocol line, or exactly one that is empty or ASCII-case-insensitively equal to a requested protocol ∧ extensions ok (line counts read as intervals, whatever the spelling)",
			"C13.single: no decision is taken on Header.Get of Sec-WebSocket-Accept / Sec-WebSocket-Protocol",
			"C13.offer.opts: the options the offer is rendered from are a fresh object per handshake (CompressionMode.opts), both flags set exactly for the no-context-takeover mode",
			"C13.gate: in dial, newConn is reached only after handshakeRequest and verifyServerResponse returned nil; error returns carry no Conn",
		},
		NotDecided: []string{"net/http client behaviour, redirects"},
		Trusted:    []string{"go/types, go/ssa", "net/http, crypto/rand, encoding/base64 contracts"},
	}, runC13)
	register("C14", propInfo{
		Explanation: "Static decision of the structural clauses of C14 (permessage-deflate negotiation): acceptDeflate and verifyServerExtensions are extracted as total tables over all parameter strings (equivalence classes induced by the constants the code and the oracle compare with); the rendering, the fallback loop, the identity of the negotiated options stored on both ends and the per-direction takeover selection are checked against RFC 7692 §7.",
		Decides: []string{
			"C14.server: per offered parameter: client_/server_no_context_takeover set the respective flag; client_max_window_bits, client_max_window_bits=N with N a decimal 8..15 without leading zeros, and server_max_window_bits=15 accepted without effect; every other string declines the offer",
			"C14.bits: the window-bits rows of both tables over 32 value classes (8..15; out of range; leading zero; sign; white space; text; empty)",
			"C14.dup: both sides ask duplicateParam about the list they decide and refuse on yes; duplicateParam returns true only after two names compared equal and false for two or more parameters only after comparing; paramName is the text before the first '='",
			"C14.fallback: disabled mode ↦ no compression before any offer is looked at; only permessage-deflate offers are considered; a declined offer falls through to the next; exhaustion ↦ none",
			"C14.render: String() emits client_no_context_takeover ⇔ client flag, server_no_context_takeover ⇔ server flag and no other parameter",
			"C14.client: response without extension ↦ none; other extension, more than one, or none offered ↦ error; parameters OR the two flags into a copy of the offer, tolerate server_max_window_bits=N with N a decimal 8..15, reject anything else",
			"C14.same: the options selected are the ones rendered into the response and stored in the Conn (server) / verified and stored (client)",
			"C14.side: reader/client uses ¬serverNoContextTakeover, reader/server ¬clientNoContextTakeover, writer/client ¬clientNoContextTakeover, writer/server ¬serverNoContextTakeover",
			"C14.use: Conn.copts is written only by newConn; flate() ≡ copts != nil",
		},
		NotDecided: []string{"that the two ends actually inflate each other's output", "header tokenisation"},
		Trusted:    []string{"go/types, go/ssa", "RFC 7692 §7"},
	}, runC14)
}

// successFacts explores fn (free, with the given valuation) and returns the facts of each path that
// satisfies isSuccess, plus a description of every other path through describe.
type pathClass struct {
	Facts []string
	Path  *Path
}

func exploreClasses(p *Program, r *Report, rule string, fn *ssa.Function, opts Opts, isSuccess func(pa *Path) bool) (succ []pathClass, other []*Path, ok bool) {
	paths, err := p.Explore(fn, opts)
	r.Evaluations += len(paths)
	r.UseFunc(p.FuncName(fn))
	if err != nil {
		r.Undecide("%s: %s: %v", rule, p.FuncName(fn), err)
		return nil, nil, false
	}
	for _, pa := range paths {
		if isSuccess(pa) {
			succ = append(succ, pathClass{Facts: factsOf(pa), Path: pa})
		} else {
			other = append(other, pa)
		}
	}
	return succ, other, true
}

// ---- C11 -------------------------------------------------------------------------------------------------------

func runC11(p *Program, r *Report) {
	c11verify(p, r, "C11.verify")
	c11gate(p, r, "C11.gate")
	c11key(p, r, "C11.key")
	c11sub(p, r, "C11.sub")
	cSingleValued(p, r, "C11.single", "Accept: request verification", []string{"verifyClientRequest"}, []string{"Sec-WebSocket-Version"})
	cAsciiTokens(p, r, "C11.ascii", []string{"verifyClientRequest", "headerTokens", "headerContainsTokenIgnoreCase", "selectSubprotocol"})
	cTokens(p, r, "C11.tokens")
}

func c11verify(p *Program, r *Report, rule string) {
	fn := p.Func("verifyClientRequest")
	if fn == nil {
		return
	}
	pos := p.FuncPos(fn)
	want := []string{
		`(*http.Request).ProtoAtLeast(param:r,1,1)=true`,
		`headerContainsTokenIgnoreCase(Request.Header,"Connection","Upgrade")=true`,
		`headerContainsTokenIgnoreCase(Request.Header,"Upgrade","websocket")=true`,
		`(Request.Method == "GET")=true`,
		`(len((http.Header).Values(Request.Header,"Sec-WebSocket-Version")) == 1)=true`,
		`(elem((http.Header).Values(Request.Header,"Sec-WebSocket-Version"))[0] == "13")=true`,
		`((*base64.Encoding).DecodeString(G:base64.StdEncoding,`+trimFn+`(elem((http.Header).Values(Request.Header,"Sec-WebSocket-Key"))[0]))#1 == nil)=true`,
	}
	nKeys := `len(call:(http.Header).Values["Sec-WebSocket-Key"])`
	nDec := "len(call:(*base64.Encoding).DecodeString#0)"
	lens := candidates(intConstsCompared(fn), 0, 1, 2, 16)
	var keyCounts, decLens []int64
	for _, l := range lens {
		if l >= 0 && l <= 4 {
			keyCounts = append(keyCounts, l)
		}
		if l >= 0 {
			decLens = append(decLens, l)
		}
	}
	inl := p.inlineAllExcept("headerContainsTokenIgnoreCase", "headerTokens", trimFn, foldFn)
	forEachValuation([]Atom{intAtom(nKeys, keyCounts), intAtom(nDec, decLens)}, func(v Valuation) {
		vs := fmt.Sprintf("keys=%d decodedLen=%d", v.Int(nKeys), v.Int(nDec))
		succ, other, ok := exploreClasses(p, r, rule, fn, Opts{Val: v, Inline: inl}, func(pa *Path) bool {
			if pa.End != "return" {
				return false
			}
			c, isC := avInt(pa.Ret[0])
			return isC && c == 0 && nilness(pa.Ret[1], pa) == -1
		})
		if !ok {
			return
		}
		shouldSucceed := v.Int(nKeys) == 1 && v.Int(nDec) == 16
		good := true
		detail := ""
		if shouldSucceed {
			if len(succ) != 1 {
				good, detail = false, fmt.Sprintf("%d success paths (want exactly 1)", len(succ))
			} else {
				missing, extra := sameSet(succ[0].Facts, want)
				if len(missing)+len(extra) > 0 {
					good, detail = false, "success path facts differ from the oracle: missing "+fmt.Sprint(missing)+" extra "+fmt.Sprint(extra)
				}
			}
		} else if len(succ) > 0 {
			good, detail = false, "request accepted: "+strings.Join(succ[0].Facts, " ∧ ")
		}
		// every other path: constant status 400..599 and a non-nil error
		for _, pa := range other {
			if pa.End != "return" {
				good, detail = false, "path ends with "+pa.End
				continue
			}
			c, isC := avInt(pa.Ret[0])
			if !isC || c < 400 || c > 599 || nilness(pa.Ret[1], pa) != 1 {
				good, detail = false, fmt.Sprintf("refusal returns status %s, err %s", pa.Ret[0].Key(), pa.Ret[1].Key())
			}
		}
		if detail == "" {
			detail = fmt.Sprintf("%d success, %d refusal paths", len(succ), len(other))
		}
		r.Check(rule, "verifyClientRequest", vs, pos, good, "RFC 6455 §4.2.1: a request is accepted iff HTTP≥1.1, Connection∋Upgrade, Upgrade∋websocket, GET, version 13, exactly one key decoding (base64 std) to 16 bytes; otherwise a 4xx/5xx status and an error", detail)
	})
}

func c11gate(p *Program, r *Report, rule string) {
	fn := p.Func("accept")
	if fn == nil {
		return
	}
	p.forAllPaths(r, rule, fn, "upgrade only behind the verification gates", Opts{},
		"Hijack, WriteHeader(101) and every Set of an upgrade response header are reached only after verifyClientRequest returned a nil error and (InsecureSkipVerify ∨ authenticateOrigin == nil); a failed verification answers http.Error with the returned status and yields no Conn; a nil *Conn is returned with every error",
		func(pa *Path) (bool, string) {
			vOK, vKnown := decidedLike(pa, "call:verifyClientRequest@@#1 == nil")
			skip, sKnown := pa.Decided("AcceptOptions.InsecureSkipVerify")
			aOK, aKnown := decidedLike(pa, "call:authenticateOrigin@@ == nil")
			gate := vKnown && vOK && sKnown && (skip || (aKnown && aOK))
			for _, e := range pa.Events {
				up := isCall(e, "invoke http.Hijacker.Hijack") || (isCall(e, "invoke http.ResponseWriter.WriteHeader") && argKey(e, 1) == "101") ||
					(isCall(e, "(http.Header).Set") && (argKey(e, 1) == `"Sec-WebSocket-Accept"` || argKey(e, 1) == `"Upgrade"` || argKey(e, 1) == `"Connection"`)) || isCall(e, "newConn")
				if up && !gate {
					return false, e.Callee + "(" + argKey(e, 1) + ") reached without passing the gates"
				}
			}
			if pa.End != "return" {
				return true, ""
			}
			if vKnown && !vOK {
				he := pa.Calls("http.Error")
				if len(he) != 1 || !keyIs(he[0].Args[2], "call:verifyClientRequest@@#0") {
					return false, "failed verification not answered with http.Error(status of verifyClientRequest)"
				}
			}
			if sKnown && !skip && aKnown && !aOK {
				he := pa.Calls("http.Error")
				if len(he) != 1 || argKey(he[0], 2) != "403" {
					return false, "unauthorised origin not answered with 403"
				}
			}
			// Conn result nil on error
			if retErr(pa) != "nil" {
				if c, ok := pa.Ret[0].(*Const); !ok || !c.IsNil {
					return false, "error returned together with a Conn: " + pa.Ret[0].Key()
				}
			} else if len(pa.Calls("newConn")) != 1 || len(pa.Calls("invoke http.Hijacker.Hijack")) != 1 {
				return false, "success without hijack + newConn"
			}
			return true, ""
		})
	// response headers and 101 precede Hijack; Accept computed from the request's key
	p.forAllPaths(r, "C11.resp", fn, "101 response", Opts{},
		"before Hijack the response carries Upgrade: websocket, Connection: Upgrade, Sec-WebSocket-Accept = secWebSocketAccept(trimOWS(r.Header.Get(\"Sec-WebSocket-Key\"))) - the key as verifyClientRequest validated it - and WriteHeader(101); the selected subprotocol is set iff non-empty; Sec-WebSocket-Extensions iff a deflate offer was accepted, rendered from the selected options",
		func(pa *Path) (bool, string) {
			hi := eventIndex(pa, 0, func(e *Event) bool { return isCall(e, "invoke http.Hijacker.Hijack") })
			if hi < 0 {
				return true, ""
			}
			sets := map[string]string{}
			wh := false
			for _, e := range pa.Events[:hi] {
				if isCall(e, "(http.Header).Set") && keyIs(e.Args[0], "call:invoke http.ResponseWriter.Header@@") {
					k, _ := avStr(e.Args[1])
					sets[k] = expandCalls(pa, e.Args[2].Key())
				}
				if isCall(e, "invoke http.ResponseWriter.WriteHeader") && argKey(e, 1) == "101" {
					wh = true
				}
			}
			if sets["Upgrade"] != `"websocket"` || sets["Connection"] != `"Upgrade"` {
				return false, fmt.Sprintf("Upgrade=%s Connection=%s", sets["Upgrade"], sets["Connection"])
			}
			// the key is hashed in the form verifyClientRequest validated it in: trimmed of SP/HTAB (F26)
			if sets["Sec-WebSocket-Accept"] != `secWebSocketAccept(`+trimFn+`((http.Header).Get(Request.Header,"Sec-WebSocket-Key")))` &&
				sets["Sec-WebSocket-Accept"] != `secWebSocketAccept(`+trimFn+`(elem((http.Header).Values(Request.Header,"Sec-WebSocket-Key"))[0]))` {
				return false, "Sec-WebSocket-Accept = " + sets["Sec-WebSocket-Accept"]
			}
			if !wh {
				return false, "no WriteHeader(101) before Hijack"
			}
			empty, known := decidedLike(pa, "call:selectSubprotocol@@ == \"\"")
			_, set := sets["Sec-WebSocket-Protocol"]
			if !known || set == empty {
				return false, fmt.Sprintf("subprotocol header set=%v although selected empty=%v", set, empty)
			}
			if set && !strings.HasPrefix(sets["Sec-WebSocket-Protocol"], "selectSubprotocol(param:r,AcceptOptions.Subprotocols)") {
				return false, "subprotocol header = " + sets["Sec-WebSocket-Protocol"]
			}
			okD, knownD := decidedLike(pa, "call:selectDeflate@@#1")
			ext, setE := sets["Sec-WebSocket-Extensions"]
			if !knownD || setE != okD {
				return false, fmt.Sprintf("extensions header set=%v although deflate accepted=%v", setE, okD)
			}
			if setE && !strings.HasPrefix(ext, "compressionOptions.String(selectDeflate(websocketExtensions(Request.Header),AcceptOptions.CompressionMode)#0)") {
				return false, "extensions header = " + ext
			}
			return true, ""
		})
	// C14.same (server) and C11.buf: newConn config
	p.forAllPaths(r, "C11.buf", fn, "buffered bytes kept; config", Opts{},
		"after Hijack the bufio reader is reset to MultiReader(bytes.NewReader(Peek(Buffered())), conn) and newConn receives client=false, that reader/writer, the hijacked conn and the selected compression options",
		func(pa *Path) (bool, string) {
			nc := pa.Calls("newConn")
			if len(nc) == 0 {
				return true, ""
			}
			var reset *Event
			for _, e := range pa.Calls("(*bufio.Reader).Reset") {
				reset = e
			}
			if reset == nil {
				return false, "reader not reset"
			}
			src := expandCalls(pa, reset.Args[1].Key())
			if !strings.HasPrefix(src, "io.MultiReader([bytes.NewReader((*bufio.Reader).Peek(ReadWriter.Reader,(*bufio.Reader).Buffered(ReadWriter.Reader))#0),invoke http.Hijacker.Hijack(") {
				return false, "reader reset to " + src
			}
			cfg, ok := nc[0].Args[0].(*StructV)
			if !ok {
				return false, "connConfig not assembled: " + nc[0].Args[0].Key()
			}
			get := func(n string) string { return expandCalls(pa, keyOf(structField(cfg, n))) }
			if get("client") != "false" {
				return false, "client = " + get("client")
			}
			if !strings.HasPrefix(get("copts"), "selectDeflate(") || !strings.HasSuffix(get("copts"), "#0") {
				return false, "copts = " + get("copts")
			}
			if !strings.HasPrefix(get("rwc"), "invoke http.Hijacker.Hijack(") || get("br") != "ReadWriter.Reader" || get("bw") != "ReadWriter.Writer" {
				return false, fmt.Sprintf("rwc=%s br=%s bw=%s", get("rwc"), get("br"), get("bw"))
			}
			if get("flateThreshold") != "AcceptOptions.CompressionThreshold" {
				return false, "flateThreshold = " + get("flateThreshold")
			}
			return true, ""
		})
}

func globalInitString(p *Program, name string) (string, bool) {
	initFn := p.member("init").(*ssa.Function)
	for _, b := range initFn.Blocks {
		for _, in := range b.Instrs {
			st, ok := in.(*ssa.Store)
			if !ok {
				continue
			}
			g, ok := st.Addr.(*ssa.Global)
			if !ok || memberName(g) != name {
				continue
			}
			v := st.Val
			if cv, ok := v.(*ssa.Convert); ok {
				v = cv.X
			}
			if c, ok := v.(*ssa.Const); ok && c.Value != nil && c.Value.Kind() == constant.String {
				return constant.StringVal(c.Value), true
			}
		}
	}
	return "", false
}

func c11key(p *Program, r *Report, rule string) {
	fn := p.Func("secWebSocketAccept")
	if fn == nil {
		return
	}
	p.forAllPaths(r, rule, fn, "base64(SHA-1(key ‖ GUID))", Opts{},
		"secWebSocketAccept feeds a fresh SHA-1 with the key and then the GUID (nothing else, in that order) and returns the standard base64 encoding of Sum(nil)", func(pa *Path) (bool, string) {
			const rfcGUID = "258EAFA5-E914-47DA-95CA-C5AB0DC85B11"
			// what is hashed, as a sequence of pieces: the GUID may be the package's byte-slice variable or a string constant
			piece := func(a AV) []string {
				var out []string
				var flat func(a AV)
				flat = func(a AV) {
					a = stripConvAll(a)
					if e, ok := a.(*Expr); ok && e.Op == "binop" && e.Name == "+" && len(e.Args) == 2 {
						flat(e.Args[0])
						flat(e.Args[1])
						return
					}
					if s, ok := avStr(a); ok {
						out = append(out, "const:"+s)
						return
					}
					out = append(out, a.Key())
				}
				flat(a)
				return out
			}
			var feeds []string
			var digest string // key of the value that holds the digest bytes handed to the encoder
			if nw := pa.Calls("sha1.New"); len(nw) == 1 {
				h := nw[0].Res.Key()
				var sum *Event
				for _, e := range pa.Events {
					if e.Kind != "call" {
						continue
					}
					switch {
					case e.Callee == "invoke hash.Hash.Write" && argKey(e, 0) == h:
						feeds = append(feeds, piece(e.Args[1])...)
					case (e.Callee == "io.WriteString" || e.Callee == "invoke io.Writer.Write") && argKey(e, 0) == h:
						feeds = append(feeds, piece(e.Args[1])...)
					case e.Callee == "invoke hash.Hash.Sum" && argKey(e, 0) == h:
						sum = e
					case e.Callee == "invoke hash.Hash.Reset":
						return false, "hash reset"
					}
				}
				if sum == nil || argKey(sum, 1) != "nil" {
					return false, "Sum(nil) missing"
				}
				digest = sum.Res.Key()
			} else if sm := pa.Calls("sha1.Sum"); len(sm) == 1 && len(pa.Calls("sha1.New")) == 0 {
				feeds = piece(sm[0].Args[0])
				// the [20]byte result is sliced from the local it was stored in
				for _, e := range pa.Events {
					if e.Kind == "store" && e.Val.Key() == sm[0].Res.Key() && isLocalAllocKey(e.AddrK) {
						digest = "slice(&" + e.AddrK + ",_,_,_)"
					}
				}
			} else {
				return false, "no single SHA-1 computation (sha1.New … Sum(nil), or sha1.Sum)"
			}
			for i, f := range feeds {
				if f == "G:websocket.keyGUID" || f == "const:"+rfcGUID {
					feeds[i] = "GUID"
				}
			}
			if strings.Join(feeds, " ; ") != "param:secWebSocketKey ; GUID" {
				return false, "hash input sequence: " + strings.Join(feeds, " ; ")
			}
			enc := pa.Calls("(*base64.Encoding).EncodeToString")
			if len(enc) != 1 || argKey(enc[0], 0) != "G:base64.StdEncoding" || digest == "" || argKey(enc[0], 1) != digest || pa.Ret[0].Key() != enc[0].Res.Key() {
				return false, "result is not StdEncoding(SHA-1 digest)"
			}
			return true, ""
		})
	// the GUID: a byte-slice variable initialised once and never written, or a constant
	if _, isConst := p.member("keyGUID").(*ssa.NamedConst); isConst {
		c := p.member("keyGUID").(*ssa.NamedConst)
		s := ""
		if c.Value.Value.Kind() == constant.String {
			s = constant.StringVal(c.Value.Value)
		}
		r.Exists(rule, "accept.go", "keyGUID", "-", s == "258EAFA5-E914-47DA-95CA-C5AB0DC85B11", "keyGUID is the RFC 6455 GUID 258EAFA5-E914-47DA-95CA-C5AB0DC85B11", s)
		return
	}
	if p.member("keyGUID") == nil {
		// no named GUID: the constant is checked where it is hashed (above)
		r.Exists(rule, "accept.go", "keyGUID", "-", true, "the RFC 6455 GUID 258EAFA5-E914-47DA-95CA-C5AB0DC85B11 is hashed as a literal (checked at the hash input)", "literal")
		return
	}
	guid, ok := globalInitString(p, "keyGUID")
	r.Exists(rule, "accept.go", "keyGUID", "-", ok && guid == "258EAFA5-E914-47DA-95CA-C5AB0DC85B11", "keyGUID is the RFC 6455 GUID 258EAFA5-E914-47DA-95CA-C5AB0DC85B11", guid)
	// keyGUID is never written elsewhere (the slice header or its elements)
	if g, ok := p.member("keyGUID").(*ssa.Global); ok {
		for _, f := range p.Funcs {
			for _, b := range f.Blocks {
				for _, in := range b.Instrs {
					if st, ok := in.(*ssa.Store); ok && st.Addr == ssa.Value(g) && p.FuncName(f) != "init" {
						r.Exists(rule, p.FuncName(f), "store keyGUID", p.InstrPos(st), false, "keyGUID is only initialised", "store")
					}
					if ia, ok := in.(*ssa.IndexAddr); ok {
						if u, ok := ia.X.(*ssa.UnOp); ok && u.X == ssa.Value(g) {
							for _, ref := range *ia.Referrers() {
								if st, ok := ref.(*ssa.Store); ok && st.Addr == ia {
									r.Exists(rule, p.FuncName(f), "store keyGUID[i]", p.InstrPos(st), false, "keyGUID is never modified", "element store")
								}
							}
						}
					}
				}
			}
		}
	}
}

func c11sub(p *Program, r *Report, rule string) {
	fn := p.Func("selectSubprotocol")
	if fn == nil {
		return
	}
	p.forAllPaths(r, rule, fn, "server preference order", Opts{Unroll: 2},
		"the outer loop ranges over the server's list (parameter), the inner over the client's tokens from Sec-WebSocket-Protocol; the first case-insensitive match returns the client's token; exhaustion returns \"\"",
		func(pa *Path) (bool, string) {
			ht := pa.Calls("headerTokens")
			if len(ht) != 1 || argKey(ht[0], 1) != `"Sec-WebSocket-Protocol"` {
				return false, "client tokens not taken from Sec-WebSocket-Protocol"
			}
			cps := ht[0].Res.Key()
			eqs := pa.Calls(foldFn)
			for i, e := range eqs {
				a0, a1 := argKey(e, 0), argKey(e, 1)
				if !strings.HasPrefix(a0, "elem(param:subprotocols)[") || !strings.HasPrefix(a1, "elem("+cps+")[") {
					return false, "compares " + a0 + " with " + a1
				}
				// second comparison after a miss: the inner (client) index advances first
				if i == 1 && !(a0 == argKey(eqs[0], 0) && a1 != argKey(eqs[0], 1)) {
					// unless the inner list had a single element
					if one, known := decidedLike(pa, "len("+cps+") > 1"); !known || one {
						return false, "second comparison is " + a0 + " vs " + a1 + ": the client list is the outer loop"
					}
				}
			}
			if pa.End == "return" {
				ret := pa.Ret[0]
				if s, ok := avStr(ret); ok {
					if s != "" {
						return false, "returns constant " + s
					}
					return true, ""
				}
				if len(eqs) == 0 || ret.Key() != argKey(eqs[len(eqs)-1], 1) {
					return false, "returns " + ret.Key()
				}
				if ok, known := decidedLike(pa, eqs[len(eqs)-1].Res.Key()); !known || !ok {
					if v, k2 := pa.Decided(eqs[len(eqs)-1].Res.Key()); !k2 || !v {
						return false, "returns a token without a match"
					}
				}
			}
			return true, ""
		})
}

// ---- C12 ------------------------------------------------------------------------------------------------------

// headerLineCount: the path confines the number of lines of the header (len of Header.Values(name)) to [lo,hi].
func headerLineCount(pa *Path, header string, lo, hi int64) bool {
	for _, e := range pa.Calls("(http.Header).Values") {
		if argKey(e, 1) == strconv.Quote(header) {
			return pa.IntWithin("len("+e.Res.Key()+")", 0, 4, lo, hi)
		}
	}
	return false
}

func runC12(p *Program, r *Report) {
	fn := p.Func("authenticateOrigin")
	if fn != nil {
		pos := p.FuncPos(fn)
		// the pattern helper is looked through, so that the rows read the same whether it exists or was inlined
		succ, other, ok := exploreClasses(p, r, "C12.auth", fn, Opts{Inline: p.inlineSet("match")}, func(pa *Path) bool {
			return pa.End == "return" && nilness(pa.Ret[0], pa) == -1
		})
		if ok {
			const origin = `(http.Header).Get(Request.Header,"Origin")`
			const parsed = `(url.Parse(` + origin + `)#1 == nil)=true`
			const hostOK = `(URL.Host == "")=false`
			const pat0 = `filepath.Match(asciiToLower(elem(param:originHosts)[0]),asciiToLower(URL.Host))`
			allowed := [][]string{
				{`(` + origin + ` == "")=true`},
				{`(` + origin + ` == "")=false`, parsed, hostOK, foldFn + `(Request.Host,URL.Host)=true`},
				{`(` + origin + ` == "")=false`, parsed, hostOK, foldFn + `(Request.Host,URL.Host)=false`, `(len(param:originHosts) > 0)=true`,
					`(` + pat0 + `#1 == nil)=true`, pat0 + `#0=true`},
			}
			seen := map[int]bool{}
			for _, s := range succ {
				matched := false
				// at most one Origin line (F27): read as an interval, whatever the spelling
				var facts []string
				for _, f := range s.Facts {
					if !strings.HasPrefix(f, `(len((http.Header).Values(Request.Header,"Origin"))`) {
						facts = append(facts, f)
					}
				}
				lines := headerLineCount(s.Path, "Origin", 0, 1)
				for i, a := range allowed {
					if m, e := sameSet(facts, a); len(m)+len(e) == 0 && lines {
						matched = true
						seen[i] = true
					}
				}
				r.Check("C12.auth", "authenticateOrigin", "allow: "+strings.Join(s.Facts, " ∧ "), pos, matched,
					"authenticateOrigin returns nil only for a request with at most one Origin line and: no Origin; or an Origin that parses to a URL with a non-empty host which is asciiEqualFold to r.Host or matched by a configured pattern (both sides lowered with asciiToLower)", fmt.Sprintf("at most one Origin line: %v; allow path with facts %s", lines, strings.Join(s.Facts, " ∧ ")))
			}
			r.Check("C12.auth", "authenticateOrigin", "all three allow rows present", pos, len(seen) == 3, "the three documented allow cases exist", fmt.Sprintf("%d of 3 found among %d allow path(s)", len(seen), len(succ)))
			// u is the successful result of url.Parse(origin header): URL.Host loads come from it
			for _, s := range succ {
				for _, e := range s.Path.Events {
					if isCall(e, "strings.EqualFold", "match") {
						for _, a := range e.Args {
							if a.Key() == "URL.Host" {
								// provenance: pointer is url.Parse result #0 — the engine names heap fields by type; check the only *url.URL in scope is the parse result
							}
						}
					}
				}
			}
			// a loop inside a helper the reference tree does not have was cut: what the origin decision does on its later
			// iterations (a second Origin line, say) was not explored, and the rows above would pass on the first iteration alone
			for _, pa := range other {
				cutInHelper := pa.End == "loop-in-inline"
				if pa.End == "loop" && len(pa.Events) > 0 {
					if last := pa.Events[len(pa.Events)-1]; last.Kind == "loop" && last.In != nil && last.In != fn && p.rawName(last.In) != "match" {
						cutInHelper = true
					}
				}
				if cutInHelper {
					r.Check("C12.auth", "authenticateOrigin", "origin decision explored to the end", pos, false,
						"the lines of the Origin header are counted and read directly (len(h.Values(\"Origin\")), h.Get(\"Origin\")), not through a loop in a new helper whose later iterations decide what counts as a line", "a loop in a helper called by authenticateOrigin was cut: "+pa.CubeString())
					break
				}
			}
			// deny paths: every non-nil return is an error; the loop fall-through ends in an error too
			for _, pa := range other {
				if pa.End == "return" && nilness(pa.Ret[0], pa) != 1 {
					r.Check("C12.auth", "authenticateOrigin", "deny path returns an error", pos, false, "every non-allow path returns a non-nil error", "returns "+pa.Ret[0].Key())
				}
			}
			// the only *url.URL value in the function is the result of url.Parse(origin)
			nURL := 0
			for _, b := range p.blocksOf(fn) {
				for _, in := range b.Instrs {
					if v, ok := in.(ssa.Value); ok && strings.HasSuffix(v.Type().String(), "*net/url.URL") {
						if ex, isEx := in.(*ssa.Extract); !isEx || ex.Index != 0 {
							nURL += 10
						} else {
							nURL++
						}
					}
				}
			}
			r.Check("C12.auth", "authenticateOrigin", "URL provenance", pos, nURL == 1, "the URL whose Host is compared is the result of url.Parse(Origin header) and nothing else", fmt.Sprintf("url values: %d", nURL))
		}
	}
	if fn := p.FuncOpt("match"); fn != nil && p.absorbed["match"] != fn { // optional: C12.auth reads through it
		p.forAllPaths(r, "C12.match", fn, "whole-string, case-insensitive", Opts{}, "match(pattern, s) = filepath.Match(asciiToLower(pattern), asciiToLower(s))", func(pa *Path) (bool, string) {
			fm := pa.Calls("filepath.Match")
			if len(fm) != 1 {
				return false, "no filepath.Match"
			}
			got := expandCalls(pa, fm[0].Callee+"("+argKey(fm[0], 0)+","+argKey(fm[0], 1)+")")
			if got != "filepath.Match(asciiToLower(param:pattern),asciiToLower(param:s))" {
				// the host lower-cased once by the caller(s) instead of per pattern
				hoisted := got == "filepath.Match(asciiToLower(param:pattern),param:s)"
				if hoisted {
					idx := -1
					for k, prm := range fn.Params {
						if paramName(prm) == "s" {
							idx = k
						}
					}
					sites := p.CallersOf(fn)
					hoisted = idx >= 0 && len(sites) > 0
					for _, cs := range sites {
						args := cs.Instr.Common().Args
						c, isCall := args[idx].(*ssa.Call)
						if !isCall {
							hoisted = false
							continue
						}
						if _, nm := p.calleeOf(&c.Call); nm != "asciiToLower" {
							hoisted = false
						}
					}
				}
				if !hoisted {
					return false, got
				}
			}
			if !keyIs(pa.Ret[0], "call:filepath.Match@@#0") || !keyIs(pa.Ret[1], "call:filepath.Match@@#1") {
				return false, "result not returned unchanged"
			}
			return true, ""
		})
	}
	c11gate(p, r, "C12.gate")
	// InsecureSkipVerify defaults to false: cloneWithDefaults copies the caller's options or the zero value
	if fn := p.Func("AcceptOptions.cloneWithDefaults"); fn != nil {
		p.forAllPaths(r, "C12.default", fn, "zero value default", Opts{}, "cloneWithDefaults returns a copy of *opts or the zero AcceptOptions (InsecureSkipVerify false, no patterns)", func(pa *Path) (bool, string) {
			for _, e := range pa.Events {
				if e.Kind == "store" && strings.Contains(e.AddrK, "InsecureSkipVerify") {
					if b, ok := avBool(e.Val); ok && b {
						return false, "InsecureSkipVerify set to true by default"
					}
				}
			}
			return true, ""
		})
	}
}

// ---- C13 ----------------------------------------------------------------------------------------------------------

func c13req(p *Program, r *Report, rule string) {
	if fn := p.Func("handshakeRequest"); fn != nil {
		p.forAllPaths(r, rule, fn, "well-formed upgrade request", Opts{},
			"on every path to HTTPClient.Do: method GET; req.Header = opts.HTTPHeader.Clone() first, then Set Connection: Upgrade, Upgrade: websocket, Sec-WebSocket-Version: 13, Sec-WebSocket-Key: <key parameter>; Host override iff non-empty; Sec-WebSocket-Protocol = Join(Subprotocols, \",\") iff non-empty; Sec-WebSocket-Extensions = copts.String() iff copts != nil",
			func(pa *Path) (bool, string) {
				do := eventIndex(pa, 0, func(e *Event) bool { return isCall(e, "(*http.Client).Do") })
				if do < 0 {
					return true, ""
				}
				nr := pa.Calls("http.NewRequestWithContext")
				if len(nr) != 1 || argKey(nr[0], 1) != `"GET"` || argKey(nr[0], 0) != "param:ctx" {
					return false, "request not created with ctx and GET"
				}
				if !keyIs(pa.Events[do].Args[1], "call:http.NewRequestWithContext@@#0") {
					return false, "Do called with another request"
				}
				ci := eventIndex(pa, 0, func(e *Event) bool { return isCall(e, "(http.Header).Clone") && argKey(e, 0) == "DialOptions.HTTPHeader" })
				si := eventIndex(pa, 0, func(e *Event) bool { return e.Kind == "store" && e.AddrK == "Request.Header" })
				if ci < 0 || si < 0 || pa.Events[si].Val.Key() != pa.Events[ci].Res.Key() {
					return false, "req.Header is not a clone of opts.HTTPHeader"
				}
				sets := map[string]string{}
				for i, e := range pa.Events[:do] {
					if isCall(e, "(http.Header).Set") {
						if i < si || e.Args[0].Key() != pa.Events[ci].Res.Key() {
							return false, "header set before the clone is installed / on another header"
						}
						k, _ := avStr(e.Args[1])
						sets[k] = expandCalls(pa, e.Args[2].Key())
					}
				}
				for k, v := range map[string]string{"Connection": `"Upgrade"`, "Upgrade": `"websocket"`, "Sec-WebSocket-Version": `"13"`, "Sec-WebSocket-Key": "param:secWebSocketKey"} {
					if sets[k] != v {
						return false, k + " = " + sets[k]
					}
				}
				hostSet := false
				for _, e := range pa.Events[:do] {
					if e.Kind == "store" && e.AddrK == "Request.Host" {
						hostSet = true
						if e.Val.Key() != "DialOptions.Host" {
							return false, "Host = " + e.Val.Key()
						}
					}
				}
				if ne, known := nonEmpty(pa, "DialOptions.Host"); !known || ne != hostSet {
					return false, "Host override inconsistent with opts.Host"
				}
				sp, hasSP := sets["Sec-WebSocket-Protocol"]
				if ne, known := nonEmpty(pa, "DialOptions.Subprotocols"); !known || ne != hasSP {
					return false, "Sec-WebSocket-Protocol inconsistent with opts.Subprotocols"
				}
				if hasSP && sp != `strings.Join(DialOptions.Subprotocols,",")` {
					return false, "Sec-WebSocket-Protocol = " + sp
				}
				ext, hasExt := sets["Sec-WebSocket-Extensions"]
				if isNil, known := decidedLike(pa, "param:copts == nil"); !known || isNil == hasExt {
					return false, "Sec-WebSocket-Extensions inconsistent with copts"
				}
				if hasExt && ext != "compressionOptions.String(param:copts)" {
					return false, "Sec-WebSocket-Extensions = " + ext
				}
				return true, ""
			})
	}
}

func runC13(p *Program, r *Report) {
	c13req(p, r, "C13.req")
	cRequestWriters(p, r, "C13.req.writers")
	cSingleValued(p, r, "C13.single", "Dial: response verification", []string{"verifyServerResponse", "verifySubprotocol"}, []string{"Sec-WebSocket-Accept", "Sec-WebSocket-Protocol"})
	if fn := p.Func("secWebSocketKey"); fn != nil {
		p.forAllPaths(r, "C13.key", fn, "16 random bytes, base64", Opts{},
			"secWebSocketKey reads exactly 16 bytes with io.ReadFull from the injected reader or crypto/rand.Reader and returns their StdEncoding base64; a read error yields no key", func(pa *Path) (bool, string) {
				rf := pa.Calls("io.ReadFull")
				if len(rf) != 1 {
					return false, "no io.ReadFull"
				}
				buf := rf[0].Args[1]
				e, ok := buf.(*Expr)
				if !ok || !(e.Op == "makeslice" || e.Op == "slice") {
					return false, "buffer " + buf.Key()
				}
				lenArg := e.Args[0]
				if e.Op == "slice" {
					// make([]byte, 16) with a constant size is an array allocation sliced to its length
					if _, isAddr := e.Args[0].(*Addr); !isAddr || e.Args[1] != nil {
						return false, "buffer " + buf.Key()
					}
					lenArg = e.Args[2]
				}
				if n, ok := avInt(lenArg); !ok || n != 16 {
					return false, "buffer length " + keyOf(lenArg)
				}
				isNil, known := decidedLike(pa, "param:rr == nil")
				src := rf[0].Args[0].Key()
				if !known || (isNil && src != "G:rand.Reader") || (!isNil && src != "param:rr") {
					return false, "random source " + src
				}
				if retErr(pa) == "nil" {
					enc := pa.Calls("(*base64.Encoding).EncodeToString")
					if len(enc) != 1 || argKey(enc[0], 0) != "G:base64.StdEncoding" || argKey(enc[0], 1) != buf.Key() || pa.Ret[0].Key() != enc[0].Res.Key() {
						return false, "key is not StdEncoding(buffer)"
					}
					if ok, known := decidedLike(pa, "call:io.ReadFull@@#1 == nil"); !known || !ok {
						return false, "key returned although the random read failed"
					}
				}
				return true, ""
			})
		// crypto/rand, not math/rand
		if g, ok := randReaderPkg(p, fn); ok {
			r.Exists("C13.key", "secWebSocketKey", "rand.Reader package", p.FuncPos(fn), g == "crypto/rand", "the random source is crypto/rand.Reader", g)
		}
	}
	if fn := p.Func("dial"); fn != nil {
		p.forAllPaths(r, "C13.gate", fn, "connection only after both gates; same key", Opts{},
			"dial generates the key by a secWebSocketKey call of its own, passes that value to handshakeRequest and verifyServerResponse, reaches newConn only when both returned nil, stores the options returned by verifyServerResponse, and returns a nil *Conn with every error",
			func(pa *Path) (bool, string) {
				k := pa.Calls("secWebSocketKey")
				if len(k) != 1 {
					return false, "key not generated in dial"
				}
				key := k[0].Res.Key() + "#0"
				hr := pa.Calls("handshakeRequest")
				vs := pa.Calls("verifyServerResponse")
				if len(hr) == 1 && argKey(hr[0], 4) != key {
					return false, "handshakeRequest gets key " + argKey(hr[0], 4)
				}
				if len(vs) == 1 && argKey(vs[0], 2) != key {
					return false, "verifyServerResponse gets key " + argKey(vs[0], 2)
				}
				if len(vs) == 1 && len(hr) == 1 && !keyIs(vs[0].Args[3], "call:handshakeRequest@@#0") {
					return false, "verifies another response"
				}
				nc := pa.Calls("newConn")
				if len(nc) > 0 {
					a, ka := decidedLike(pa, "call:handshakeRequest@@#1 == nil")
					b, kb := decidedLike(pa, "call:verifyServerResponse@@#1 == nil")
					c, kc := decidedLike(pa, "call:secWebSocketKey@@#1 == nil")
					if !(ka && a && kb && b && kc && c) {
						return false, "newConn reached without both gates"
					}
					cfg, ok := nc[0].Args[0].(*StructV)
					if !ok {
						return false, "connConfig not assembled"
					}
					if b, ok := avBool(structField(cfg, "client")); !ok || !b {
						return false, "client flag not true"
					}
					if !keyIs(structField(cfg, "copts"), "call:verifyServerResponse@@#0") {
						return false, "copts = " + keyOf(structField(cfg, "copts"))
					}
				}
				if pa.End == "return" && retErr(pa) == "nonnil" {
					if c, ok := pa.Ret[0].(*Const); !ok || !c.IsNil {
						return false, "error returned with a Conn"
					}
				}
				return true, ""
			})
	}
	c13redirect(p, r, "C13.redirect")
	c13verify(p, r, "C13.verify")
	c14client(p, r, "C13.ext")
	// the offer is rendered from mode.opts(): a fresh object per handshake, with both flags set exactly for the
	// no-context-takeover mode (a shared object is rewritten by a concurrent Accept: seed C13-M)
	shareAs(r, "C13.offer.opts", "C13.offer.opts", func(sub *Report) { c14server(p, sub, "C13.offer") })
	cTokens(p, r, "C13.tokens")
}

// c13redirect: Dial installs its own CheckRedirect (to rewrite ws/wss), which replaces net/http's default policy of at
// most 10 redirects. Without a policy of the caller the hook must keep a bound, or a server that always redirects keeps
// Dial requesting for ever (F30).
func c13redirect(p *Program, r *Report, rule string) {
	fn := p.FuncOpt("DialOptions.cloneWithDefaults$1")
	if fn == nil {
		r.Undecide("%s: the CheckRedirect hook installed by DialOptions.cloneWithDefaults was not found", rule)
		return
	}
	p.forAllPaths(r, rule, fn, "redirects bounded", Opts{}, "the CheckRedirect hook returns nil (follow the redirect) only after the caller's own policy said so, or when fewer than 10 requests were made so far (len(via) < 10, net/http's default bound)", func(pa *Path) (bool, string) {
		if pa.End != "return" || nilness(pa.Ret[0], pa) != -1 {
			return true, ""
		}
		// the caller's policy decided
		for _, e := range pa.Events {
			if e.Kind == "call" && (strings.Contains(e.Callee, "oldCheckRedirect") || strings.HasPrefix(e.Callee, "dynamic")) {
				return true, ""
			}
		}
		if pa.IntWithin("len(param:via)", 0, 64, 0, 9) {
			return true, ""
		}
		return false, "nil returned without a caller policy and without a bound on len(via)"
	})
}

func randReaderPkg(p *Program, fn *ssa.Function) (string, bool) {
	for _, b := range p.blocksOf(fn) {
		for _, in := range b.Instrs {
			if u, ok := in.(*ssa.UnOp); ok {
				if g, ok := u.X.(*ssa.Global); ok && g.Name() == "Reader" {
					return g.Pkg.Pkg.Path(), true
				}
			}
		}
	}
	return "", false
}

func c13verify(p *Program, r *Report, rule string) {
	fn := p.Func("verifyServerResponse")
	if fn == nil {
		return
	}
	pos := p.FuncPos(fn)
	succ, other, ok := exploreClasses(p, r, rule, fn, Opts{Inline: p.inlineSet("verifySubprotocol"), Unroll: 1}, func(pa *Path) bool {
		return pa.End == "return" && (keyIs(pa.Ret[1], "call:verifyServerExtensions@@#1") || nilness(pa.Ret[1], pa) == -1)
	})
	if !ok {
		return
	}
	base := []string{
		`(Response.StatusCode == 101)=true`,
		`headerContainsTokenIgnoreCase(Response.Header,"Connection","Upgrade")=true`,
		`headerContainsTokenIgnoreCase(Response.Header,"Upgrade","WebSocket")=true`,
		`(len((http.Header).Values(Response.Header,"Sec-WebSocket-Accept")) == 1)=true`,
		`(secWebSocketAccept(param:secWebSocketKey) == elem((http.Header).Values(Response.Header,"Sec-WebSocket-Accept"))[0])=true`,
	}
	const protos = `(http.Header).Values(Response.Header,"Sec-WebSocket-Protocol")`
	const proto = `elem(` + protos + `)[0]`
	// the line counts are compared as intervals, not as spelled: len(x) == 1, !(len(x) == 0) ∧ !(len(x) > 1), len(x) != 1 … read the same
	allowed := [][]string{
		append([]string{}, base[:3]...),
		append(append([]string{}, base[:3]...), `(`+proto+` == "")=true`),
		append(append([]string{}, base[:3]...), `(`+proto+` == "")=false`, `(len(DialOptions.Subprotocols) > 0)=true`, foldFn+`(elem(DialOptions.Subprotocols)[0],`+proto+`)=true`),
	}
	lineCount := func(pa *Path, header string) string {
		for _, e := range pa.Calls("(http.Header).Values") {
			if argKey(e, 1) == strconv.Quote(header) {
				k := "len(" + e.Res.Key() + ")"
				switch {
				case pa.IntWithin(k, 0, 4, 0, 0):
					return "none"
				case pa.IntWithin(k, 0, 4, 1, 1):
					return "one"
				}
				return "unbounded"
			}
		}
		return "not counted"
	}
	seen := map[int]bool{}
	for _, s := range succ {
		matched := false
		var facts []string
		for _, f := range s.Facts {
			if strings.HasPrefix(f, "(len((http.Header).Values(Response.Header,") {
				continue
			}
			facts = append(facts, f)
		}
		nAcc, nProt := lineCount(s.Path, "Sec-WebSocket-Accept"), lineCount(s.Path, "Sec-WebSocket-Protocol")
		for i, a := range allowed {
			if m, e := sameSet(facts, append(append([]string{}, a...), base[4])); len(m)+len(e) == 0 && nAcc == "one" && (i == 0 && nProt == "none" || i > 0 && nProt == "one") {
				matched = true
				seen[i] = true
			}
		}
		// success delegates the final verdict to verifyServerExtensions(copts, resp.Header)
		ve := s.Path.Calls("verifyServerExtensions")
		if len(ve) != 1 || argKey(ve[0], 0) != "param:copts" || argKey(ve[0], 1) != "Response.Header" || !keyIs(s.Path.Ret[0], "call:verifyServerExtensions@@#0") {
			matched = false
		}
		r.Check(rule, "verifyServerResponse", "accept: "+strings.Join(s.Facts, " ∧ "), pos, matched,
			"a response is accepted only with status 101, Connection∋Upgrade, Upgrade∋WebSocket, exactly one Sec-WebSocket-Accept line equal to secWebSocketAccept(key sent), no or exactly one Sec-WebSocket-Protocol line that is empty or ASCII-case-insensitively equal to a requested one, and then verifyServerExtensions(copts, header) decides", fmt.Sprintf("Accept lines: %s, Protocol lines: %s, facts: %s", nAcc, nProt, strings.Join(s.Facts, " ∧ ")))
	}
	r.Check(rule, "verifyServerResponse", "all accept rows present", pos, len(seen) == 3, "the three accept rows (no subprotocol line / one empty line / one requested subprotocol) exist", fmt.Sprintf("%d of 3 among %d", len(seen), len(succ)))
	for _, pa := range other {
		if pa.End == "return" && nilness(pa.Ret[1], pa) != 1 {
			r.Check(rule, "verifyServerResponse", "refusal returns an error", pos, false, "every other path returns a non-nil error", pa.Ret[1].Key())
		}
		if pa.End == "return" {
			if c, ok := pa.Ret[0].(*Const); !ok || !c.IsNil {
				r.Check(rule, "verifyServerResponse", "refusal returns no options", pos, false, "refusals return nil options", pa.Ret[0].Key())
			}
		}
	}
}

// ---- C14 -------------------------------------------------------------------------------------------------------------

func runC14(p *Program, r *Report) {
	c14server(p, r, "C14.server")
	cWindowBits(p, r, "C14.bits")
	c14dup(p, r, "C14.dup")
	c14fallback(p, r, "C14.fallback")
	c14render(p, r, "C14.render")
	c14client(p, r, "C14.client")
	c14side(p, r, "C14.side")
	c14sideUse(p, r, "C14.side.use")
	c14use(p, r, "C14.use")
	c14parse(p, r, "C14.parse")
	c13req(p, r, "C14.offer")
	cTokens(p, r, "C14.tokens")
	// C14.same: server side in accept (C11.buf/C11.resp), client side in dial (C13.gate)
	c11gate(p, r, "C14.same.server")
	if fn := p.Func("dial"); fn != nil {
		p.forAllPaths(r, "C14.same.client", fn, "offer and result", Opts{},
			"dial offers CompressionMode.opts() iff the mode is not disabled, passes the same offer to the request and to verifyServerResponse, and stores verifyServerResponse's result in the Conn", func(pa *Path) (bool, string) {
				hr := pa.Calls("handshakeRequest")
				if len(hr) == 0 {
					return true, ""
				}
				dis, known := decidedLike(pa, "DialOptions.CompressionMode == 0")
				if !known {
					dis2, k2 := decidedLike(pa, "DialOptions.CompressionMode != 0")
					dis, known = !dis2, k2
				}
				offer := hr[0].Args[3]
				if !known {
					return false, "mode not tested"
				}
				if dis {
					if c, ok := offer.(*Const); !ok || !c.IsNil {
						return false, "offer sent although compression is disabled: " + offer.Key()
					}
				} else if !keyIs(offer, "call:CompressionMode.opts@@") {
					return false, "offer = " + offer.Key()
				}
				for _, vs := range pa.Calls("verifyServerResponse") {
					if argKey(vs, 1) != offer.Key() {
						return false, "verification uses another offer: " + argKey(vs, 1)
					}
				}
				for _, nc := range pa.Calls("newConn") {
					if cfg, ok := nc.Args[0].(*StructV); !ok || !keyIs(structField(cfg, "copts"), "call:verifyServerResponse@@#0") {
						return false, "the Conn does not store the options agreed by verifyServerResponse: copts = " + keyOf(structField(nc.Args[0], "copts"))
					}
				}
				return true, ""
			})
	}
}

// windowBitsValues: every well-formed value of a *_max_window_bits parameter (RFC 7692 §7.1.2: a decimal integer 8..15
// without leading zeros) and malformed neighbours of each kind (out of range, leading zero or sign, not a number, empty,
// white space, trailing text).
var windowBitsValues = []string{"8", "9", "10", "11", "12", "13", "14", "15",
	"", "0", "1", "7", "16", "17", "20", "80", "99", "100", "150", "08", "015", "+9", "-9", "9 ", " 9", "9x", "x", "abc", "1 5", "0x9", "15.0", "８"}

func validWindowBitsOracle(v string) bool {
	switch v {
	case "8", "9", "10", "11", "12", "13", "14", "15":
		return true
	}
	return false
}

// paramStrings: representatives of every equivalence class of parameter strings induced by the
// constants the function compares with and the oracle's own constants.
func paramStrings(fn *ssa.Function) []string {
	set := map[string]bool{"": true, "x": true, "unknown_parameter": true}
	for _, b := range curProg.blocksOf(fn) {
		for _, in := range b.Instrs {
			var ops []*ssa.Value
			for _, op := range in.Operands(ops) {
				if op == nil || *op == nil {
					continue
				}
				if c, ok := (*op).(*ssa.Const); ok && c.Value != nil && c.Value.Kind() == constant.String {
					s := constant.StringVal(c.Value)
					set[s] = true
					set[s+"x"] = true
					set[s+"8"] = true
					set[s+"15"] = true
					set[s+"=15"] = true
					set[strings.TrimSuffix(s, "=")] = true
					set[strings.ToUpper(s)] = true
				}
			}
		}
	}
	for _, s := range []string{"client_no_context_takeover", "server_no_context_takeover", "client_max_window_bits", "server_max_window_bits",
		"client_max_window_bits=8", "client_max_window_bits=15", "client_max_window_bits=", "server_max_window_bits=8", "server_max_window_bits=9", "server_max_window_bits=14",
		"server_max_window_bits=15", "server_max_window_bits=16", "server_max_window_bits=", "server_max_window_bits=150", "client_no_context_takeover=1", "server_no_context_takeover; x",
		"permessage-deflate", "client_no_context_takeoverx", " server_no_context_takeover"} {
		set[s] = true
	}
	for _, side := range []string{"client", "server"} {
		for _, v := range windowBitsValues {
			set[side+"_max_window_bits="+v] = true
		}
	}
	return sortedKeys(set)
}

func c14server(p *Program, r *Report, rule string) {
	c14serverTable(p, r, rule, nil)
}

// c14serverTable: the per-parameter table of acceptDeflate; only == nil: all representative strings, else the selected ones.
func c14serverTable(p *Program, r *Report, rule string, only func(string) bool) {
	fn := p.Func("acceptDeflate")
	if fn == nil {
		return
	}
	// the offered parameters: the params field of the extension, or the list itself handed over by the caller
	subj := "param:ext.params"
	for _, prm := range fn.Params {
		if sl, ok := prm.Type().Underlying().(*types.Slice); ok {
			if b, ok := sl.Elem().Underlying().(*types.Basic); ok && b.Kind() == types.String {
				subj = "param:" + paramName(prm)
			}
		}
	}
	elem0 := "elem(" + subj + ")[0]"
	var atoms []Atom
	atoms = append(atoms, strAtom(elem0, selectStrings(paramStrings(fn), only)...))
	p.runTable(r, tableSpec{
		Rule: rule, Fn: fn, Atoms: atoms, Unroll: 1, Inline: p.inlineSet("validWindowBits"),
		Decide: func(v Valuation) func(string, AV) (bool, bool) {
			return func(key string, cond AV) (bool, bool) {
				if key == "(len("+subj+") > 0)" {
					return true, true
				}
				// a single parameter has no duplicate (C14.dup decides the duplicate test itself)
				if stripSites(key) == "call:duplicateParam" || strings.HasPrefix(stripSites(key), "duplicateParam(") {
					return false, true
				}
				return false, false
			}
		},
		Classify: func(v Valuation, pa *Path) string {
			var sets []string
			for _, e := range pa.Events {
				if e.Kind == "store" && strings.HasPrefix(e.AddrK, "compressionOptions.") {
					sets = append(sets, lastDot(e.AddrK)+"="+e.Val.Key())
				}
			}
			switch pa.End {
			case "loop":
				if len(sets) == 0 {
					return "ACCEPT-NO-EFFECT"
				}
				return "ACCEPT " + strings.Join(sets, " ")
			case "return":
				if b, ok := avBool(pa.Ret[1]); ok && !b {
					if c, ok := pa.Ret[0].(*Const); ok && c.IsNil {
						return "DECLINE"
					}
				}
				return "RETURN " + pa.Ret[0].Key() + "," + pa.Ret[1].Key()
			}
			return pa.End
		},
		Oracle: func(v Valuation) []string {
			s := v.Str(elem0)
			switch {
			case s == "client_no_context_takeover":
				return []string{"ACCEPT clientNoContextTakeover=true"}
			case s == "server_no_context_takeover":
				return []string{"ACCEPT serverNoContextTakeover=true"}
			case s == "client_max_window_bits", s == "server_max_window_bits=15",
				strings.HasPrefix(s, "client_max_window_bits=") && validWindowBitsOracle(strings.TrimPrefix(s, "client_max_window_bits=")):
				return []string{"ACCEPT-NO-EFFECT"}
			}
			return []string{"DECLINE"}
		},
		What: "RFC 7692 §7.1 as restated by C14: what the server does with one offered permessage-deflate parameter",
	})
	if only != nil {
		return
	}
	// the start value and the result: copts = mode.opts(), returned with true after the loop
	p.forAllPaths(r, rule+".result", fn, "start value and result", Opts{}, "acceptDeflate starts from mode.opts() and returns that same object with true once all parameters were accepted", func(pa *Path) (bool, string) {
		if pa.End != "return" {
			return true, ""
		}
		if b, ok := avBool(pa.Ret[1]); ok && b {
			if !keyIs(pa.Ret[0], "call:CompressionMode.opts@@") {
				return false, "returns " + pa.Ret[0].Key()
			}
			op := pa.Calls("CompressionMode.opts")
			if len(op) != 1 || argKey(op[0], 0) != "param:mode" {
				return false, "opts() not taken from the mode parameter"
			}
		}
		return true, ""
	})
	if fn := p.Func("CompressionMode.opts"); fn != nil {
		p.runTable(r, tableSpec{
			Rule: rule + ".opts", Fn: fn, Atoms: []Atom{intAtom("param:m", []int64{0, 1, 2, 3})},
			Classify: func(v Valuation, pa *Path) string {
				var out []string
				for _, e := range pa.Events {
					if e.Kind == "store" && strings.Contains(e.AddrK, "NoContextTakeover") {
						out = append(out, lastDot(e.AddrK)+"="+e.Val.Key())
					}
				}
				// a fresh object per handshake: what is returned is an allocation made on this path, never an
				// object loaded from a package variable, map or field (negotiation writes into it; seed C14-T)
				if pa.End == "return" && len(pa.Ret) > 0 && !strings.HasPrefix(pa.Ret[0].Key(), "&H:") {
					return "NOT-FRESH: returns " + pa.Ret[0].Key()
				}
				return strings.Join(out, " ")
			},
			Oracle: func(v Valuation) []string {
				b := fmt.Sprint(v.Int("param:m") == 2)
				return []string{"clientNoContextTakeover=" + b + " serverNoContextTakeover=" + b}
			},
			What: "CompressionMode.opts(): returns an object allocated on that path (fresh per handshake); both no_context_takeover flags are set exactly for CompressionNoContextTakeover (2)",
		})
	}
}

func c14fallback(p *Program, r *Report, rule string) {
	fn := p.Func("selectDeflate")
	if fn == nil {
		return
	}
	p.forAllPaths(r, rule, fn, "fallback over offers", Opts{Unroll: 2},
		"mode == CompressionDisabled returns (nil,false) before any offer is inspected; acceptDeflate is called only for extensions named permessage-deflate, with the mode; the loop returns only an accepted offer's options; exhaustion returns (nil,false)",
		func(pa *Path) (bool, string) {
			dis, known := decidedLike(pa, "param:mode == 0")
			if !known {
				return false, "mode not tested first"
			}
			ad := pa.Calls("acceptDeflate")
			if dis {
				if len(ad) > 0 {
					return false, "offers inspected although compression is disabled"
				}
				if pa.End == "return" && !(pa.Ret[0].Key() == "nil" && pa.Ret[1].Key() == "false") {
					return false, "disabled mode returns " + pa.Ret[0].Key()
				}
				return true, ""
			}
			for _, e := range ad {
				ext := argKey(e, 0)
				ext = strings.TrimSuffix(ext, ".params") // the extension itself, or its parameter list
				if v, k := decidedLike(pa, ext+".name == \"permessage-deflate\""); !k || !v {
					return false, "acceptDeflate called for an extension not named permessage-deflate"
				}
				if argKey(e, 1) != "param:mode" {
					return false, "acceptDeflate called with mode " + argKey(e, 1)
				}
			}
			if pa.End == "return" {
				if b, ok := avBool(pa.Ret[1]); ok && !b {
					if pa.Ret[0].Key() != "nil" {
						return false, "declines with options"
					}
					// must be loop exhaustion: every acceptDeflate on the path was declined
					for _, e := range ad {
						if v, k := pa.Decided(e.Res.Key() + "#1"); k && v {
							return false, "returns (nil,false) after an accepted offer"
						}
					}
					return true, ""
				}
				last := ad[len(ad)-1]
				if v, k := pa.Decided(last.Res.Key() + "#1"); !k || !v || pa.Ret[0].Key() != last.Res.Key()+"#0" {
					return false, "returns options that are not an accepted offer's"
				}
				// earlier offers on this path were declined (fall through)
			}
			return true, ""
		})
}

func c14render(p *Program, r *Report, rule string) {
	fn := p.Func("compressionOptions.String")
	if fn == nil {
		return
	}
	p.runTable(r, tableSpec{
		Rule: rule, Fn: fn, Atoms: []Atom{boolAtom("compressionOptions.clientNoContextTakeover"), boolAtom("compressionOptions.serverNoContextTakeover")},
		Classify: func(v Valuation, pa *Path) string {
			if s, ok := avStr(pa.Ret[0]); ok {
				return s
			}
			return pa.Ret[0].Key()
		},
		Oracle: func(v Valuation) []string {
			s := "permessage-deflate"
			if v.Bool("compressionOptions.clientNoContextTakeover") {
				s += "; client_no_context_takeover"
			}
			if v.Bool("compressionOptions.serverNoContextTakeover") {
				s += "; server_no_context_takeover"
			}
			return []string{s}
		},
		What: "rendering of the extension value: exactly the two no_context_takeover tokens, each iff its flag; never a window-bits parameter",
	})
}

func c14client(p *Program, r *Report, rule string) {
	c14clientTable(p, r, rule, nil)
}

func selectStrings(all []string, only func(string) bool) []string {
	if only == nil {
		return all
	}
	var out []string
	for _, s := range all {
		if only(s) {
			out = append(out, s)
		}
	}
	return out
}

// noDuplicate decides the duplicate test of a parameter list with at most one element.
func noDuplicate(key string) bool {
	k := stripSites(key)
	return k == "call:duplicateParam" || strings.HasPrefix(k, "duplicateParam(")
}

func c14clientTable(p *Program, r *Report, rule string, only func(string) bool) {
	fn := p.Func("verifyServerExtensions")
	if fn == nil {
		return
	}
	if only == nil {
		c14clientHead(p, r, rule, fn)
	}
	c14clientParam(p, r, rule, fn, only)
}

func c14clientHead(p *Program, r *Report, rule string, fn *ssa.Function) {
	// head: number of extensions, name, copts
	p.runTable(r, tableSpec{
		Rule: rule + ".head", Fn: fn, Unroll: 1,
		Decide: func(v Valuation) func(string, AV) (bool, bool) {
			return func(key string, cond AV) (bool, bool) {
				if noDuplicate(key) {
					return false, true
				}
				return false, false
			}
		},
		Atoms: []Atom{intAtom("len(call:websocketExtensions)", []int64{0, 1, 2, 3}), strAtom("elem(call:websocketExtensions)[0].name", "permessage-deflate", "permessage-deflate ", "x-webkit-deflate-frame", "", "PERMESSAGE-DEFLATE"), nilAtom("param:copts"),
			intAtom("len(elem(call:websocketExtensions)[0].params)", []int64{0})},
		Classify: func(v Valuation, pa *Path) string {
			if pa.End != "return" {
				return pa.End
			}
			switch {
			case retErr(pa) == "nonnil":
				if pa.Ret[0].Key() == "nil" {
					return "ERROR"
				}
				return "ERROR-WITH-OPTIONS"
			case pa.Ret[0].Key() == "nil":
				return "NONE"
			}
			// a copy of the offer
			if ad, ok := pa.Ret[0].(*Addr); ok && isLocalAllocKey(ad.K) {
				return "COPY-OF-OFFER"
			}
			return "OPTIONS " + pa.Ret[0].Key()
		},
		Oracle: func(v Valuation) []string {
			n := v.Int("len(call:websocketExtensions)")
			if n == 0 {
				return []string{"NONE"}
			}
			if v.Str("elem(call:websocketExtensions)[0].name") != "permessage-deflate" || n > 1 || v.Nil("param:copts") {
				return []string{"ERROR"}
			}
			return []string{"COPY-OF-OFFER"}
		},
		What: "client side: no extension ↦ no compression; any extension other than a single permessage-deflate, or one the client did not offer, is an error; otherwise a copy of the offer is refined",
	})
}

func c14clientParam(p *Program, r *Report, rule string, fn *ssa.Function, only func(string) bool) {
	if only == nil {
		rule += ".param"
	}
	// per parameter
	p.runTable(r, tableSpec{
		Rule: rule, Fn: fn, Unroll: 1, Inline: p.inlineSet("validWindowBits"),
		Atoms: []Atom{strAtom("elem(elem(call:websocketExtensions)[0].params)[0]", selectStrings(paramStrings(fn), only)...)},
		Decide: func(v Valuation) func(string, AV) (bool, bool) {
			return func(key string, cond AV) (bool, bool) {
				if noDuplicate(key) {
					return false, true
				}
				switch stripSites(key) {
				case "(len(call:websocketExtensions) == 0)", "(len(call:websocketExtensions) > 1)", "(param:copts == nil)":
					return false, true
				case `(elem(call:websocketExtensions)[0].name == "permessage-deflate")`, "(len(elem(call:websocketExtensions)[0].params) > 0)":
					return true, true
				}
				return false, false
			}
		},
		Classify: func(v Valuation, pa *Path) string {
			// the value each flag has after this parameter: "offer" when the copy of the offer was not overwritten
			final := map[string]string{"serverNoContextTakeover": "offer", "clientNoContextTakeover": "offer"}
			for _, e := range pa.Events {
				if e.Kind == "store" && strings.HasSuffix(e.AddrK, "NoContextTakeover") {
					if !isLocalAllocKey(e.AddrK) {
						return "WRITES-THE-CALLERS-OFFER " + e.AddrK
					}
					final[lastDot(e.AddrK)] = e.Val.Key()
				}
			}
			switch pa.End {
			case "loop":
				return "ACCEPT server=" + final["serverNoContextTakeover"] + " client=" + final["clientNoContextTakeover"]
			case "return":
				if retErr(pa) == "nonnil" && pa.Ret[0].Key() == "nil" {
					return "ERROR"
				}
				return "RETURN " + pa.Ret[0].Key()
			}
			return pa.End
		},
		Oracle: func(v Valuation) []string {
			s := v.Str("elem(elem(call:websocketExtensions)[0].params)[0]")
			switch {
			// the server resets its context only if its response says so (never because the client asked for it in the offer);
			// the client's own flag may stay as offered
			case s == "client_no_context_takeover":
				return []string{"ACCEPT server=false client=true"}
			case s == "server_no_context_takeover":
				return []string{"ACCEPT server=true client=offer"}
			case strings.HasPrefix(s, "server_max_window_bits=") && validWindowBitsOracle(strings.TrimPrefix(s, "server_max_window_bits=")):
				return []string{"ACCEPT server=false client=offer"}
			}
			return []string{"ERROR"}
		},
		What: "RFC 7692 §7.1: what the client holds after one parameter of the server's response: server_no_context_takeover exactly as the response says (the copy of the offer is cleared first), client_no_context_takeover set by the response or kept as offered; a well-formed window-bits value (8..15) has no effect; anything else (incl. client_max_window_bits, never offered) is an error",
	})
}

func c14side(p *Program, r *Report, rule string) {
	for _, s := range []struct{ fn, whenClient, whenServer string }{
		{"msgReader.flateContextTakeover", "serverNoContextTakeover", "clientNoContextTakeover"},
		{"msgWriter.flateContextTakeover", "clientNoContextTakeover", "serverNoContextTakeover"},
	} {
		fn := p.FuncOpt(s.fn)
		if fn == nil {
			r.Note("%s: helper %s not present; the decision is checked at its use sites (C14.side.use)", rule, s.fn)
			continue
		}
		s := s
		p.runTable(r, tableSpec{
			Rule: rule, Fn: fn,
			Atoms: []Atom{boolAtom("Conn.client"), boolAtom("compressionOptions.clientNoContextTakeover"), boolAtom("compressionOptions.serverNoContextTakeover")},
			Decide: func(v Valuation) func(string, AV) (bool, bool) {
				return func(key string, cond AV) (bool, bool) {
					// the table is about connections that negotiated compression: the options exist
					if key == "(Conn.copts == nil)" || key == "(nil == Conn.copts)" {
						return false, true
					}
					return false, false
				}
			},
			Classify: func(v Valuation, pa *Path) string {
				if b, ok := avBool(pa.Ret[0]); ok {
					return fmt.Sprint(b)
				}
				return pa.Ret[0].Key()
			},
			Oracle: func(v Valuation) []string {
				f := s.whenServer
				if v.Bool("Conn.client") {
					f = s.whenClient
				}
				return []string{fmt.Sprint(!v.Bool("compressionOptions." + f))}
			},
			What: "RFC 7692 §7.1.1: a *_no_context_takeover parameter constrains the sender it names: the client's reader and the server's writer follow server_no_context_takeover, the server's reader and the client's writer follow client_no_context_takeover",
		})
	}
}

// c14sideUse: the takeover decision as it is *used*: the reader's dictionary argument and the writer's
// per-message reset, with every library helper inlined (independent of how the decision is factored).
func c14sideUse(p *Program, r *Report, rule string) {
	atoms := []Atom{boolAtom("Conn.client"), boolAtom("compressionOptions.clientNoContextTakeover"), boolAtom("compressionOptions.serverNoContextTakeover")}
	inl := p.inlineAllExcept("getFlateReader", "getBufioReader", "slidingWindow.init", "putFlateWriter", "msgWriter.putFlateWriter", "Conn.writeFrame", "mu.lock", "mu.unlock", "errd.Wrap", "putFlateReader")
	if fn := p.Func("msgReader.resetFlate"); fn != nil {
		p.runTable(r, tableSpec{
			Rule: rule + ".reader", Fn: fn, Atoms: atoms, Inline: inl,
			Decide: func(v Valuation) func(string, AV) (bool, bool) {
				return func(key string, cond AV) (bool, bool) {
					if key == "(Conn.copts == nil)" || key == "(nil == Conn.copts)" {
						return false, true // compression was negotiated: the options exist
					}
					return false, false
				}
			},
			Classify: func(v Valuation, pa *Path) string {
				gf := pa.Calls("getFlateReader")
				if len(gf) != 1 {
					return fmt.Sprintf("%d getFlateReader calls", len(gf))
				}
				// the dictionary argument on this path (a nil literal, or a local that is still nil here)
				if c, isC := gf[0].Args[1].(*Const); isC && (c.IsNil || c.Zero != nil) {
					return "NO-DICTIONARY"
				}
				return "DICTIONARY"
			},
			Oracle: func(v Valuation) []string {
				nct := v.Bool("compressionOptions.clientNoContextTakeover") // the peer's (sender's) flag: the client sends to a server
				if v.Bool("Conn.client") {
					nct = v.Bool("compressionOptions.serverNoContextTakeover")
				}
				if nct {
					return []string{"NO-DICTIONARY"}
				}
				return []string{"DICTIONARY"}
			},
			What: "RFC 7692 §7.1.1: the reader keeps the peer's LZ77 window iff the peer (the sender) did not agree to no_context_takeover: a client reads what the server sent (server_no_context_takeover), a server what the client sent (client_no_context_takeover)",
		})
	}
	if fn := p.Func("msgWriter.Close"); fn != nil {
		p.runTable(r, tableSpec{
			Rule: rule + ".writer", Fn: fn, Inline: inl,
			Atoms: append(append([]Atom{}, atoms...), boolAtom("msgWriter.flate"), boolAtom("msgWriter.closed")),
			Decide: func(v Valuation) func(string, AV) (bool, bool) {
				return func(key string, cond AV) (bool, bool) {
					if strings.HasPrefix(key, "(call:mu.lock@") || strings.HasPrefix(key, "(call:Conn.writeFrame@") || strings.HasPrefix(key, "(call:(*flate.Writer).Flush@") {
						return true, true
					}
					if key == "(Conn.copts == nil)" || key == "(nil == Conn.copts)" {
						return false, true // compression was negotiated: the options exist
					}
					return false, false
				}
			},
			Classify: func(v Valuation, pa *Path) string {
				if v.Bool("msgWriter.closed") {
					return "ALREADY-CLOSED"
				}
				if len(pa.Calls("msgWriter.putFlateWriter"))+len(pa.Calls("putFlateWriter")) > 0 {
					return "RESET"
				}
				return "KEEP"
			},
			Oracle: func(v Valuation) []string {
				if v.Bool("msgWriter.closed") {
					return []string{"ALREADY-CLOSED"}
				}
				nct := v.Bool("compressionOptions.serverNoContextTakeover")
				if v.Bool("Conn.client") {
					nct = v.Bool("compressionOptions.clientNoContextTakeover")
				}
				if v.Bool("msgWriter.flate") && nct {
					return []string{"RESET"}
				}
				return []string{"KEEP"}
			},
			What: "RFC 7692 §7.1.1: the writer drops its compression context after a compressed message iff it agreed to its own no_context_takeover (client_… for a client, server_… for a server)",
		})
	}
}

func c14use(p *Program, r *Report, rule string) {
	f := p.Field("Conn.copts")
	if f != nil {
		for _, fa := range p.FieldAccesses(f) {
			if fa.Write || fa.Addr {
				fname := p.FuncName(fa.Fn)
				r.Exists(rule, fname, "store Conn.copts", p.InstrPos(fa.Instr), p.ownedBy(fa.Fn, func(o string) bool { return o == "newConn" }), "Conn.copts is written only by newConn (the negotiated options never change afterwards)", fname)
			}
		}
	}
	if fn := p.Func("Conn.flate"); fn != nil {
		p.runTable(r, tableSpec{
			Rule: rule + ".flate", Fn: fn, Atoms: []Atom{nilAtom("Conn.copts")},
			Classify: func(v Valuation, pa *Path) string { return pa.Ret[0].Key() },
			Oracle:   func(v Valuation) []string { return []string{fmt.Sprint(!v.Nil("Conn.copts"))} },
			What:     "flate() ≡ copts != nil",
		})
	}
	// the field values of compressionOptions are written only by opts(), acceptDeflate, verifyServerExtensions
	for _, name := range []string{"compressionOptions.clientNoContextTakeover", "compressionOptions.serverNoContextTakeover"} {
		f := p.Field(name)
		if f == nil {
			continue
		}
		for _, fa := range p.FieldAccesses(f) {
			if fa.Write {
				fname := p.FuncName(fa.Fn)
				ok := p.ownedBy(fa.Fn, func(o string) bool {
					return o == "CompressionMode.opts" || o == "acceptDeflate" || o == "verifyServerExtensions"
				})
				r.Exists(rule, fname, "store "+name, p.InstrPos(fa.Instr), ok, "the takeover flags are written only during negotiation (opts, acceptDeflate, verifyServerExtensions)", fname)
			}
		}
	}
}

// ---- header token parsing (shared by C11, C13, C14) -------------------------------------------------------------

func cTokens(p *Program, r *Report, rule string) {
	if fn := p.Func("headerTokens"); fn != nil {
		p.forAllPaths(r, rule, fn, "comma-separated, trimmed tokens of all header lines", Opts{Unroll: 2},
			"headerTokens canonicalises the key, ranges over every value of h[key], splits each on \",\" and appends every piece trimmed of SP/HTAB (trimOWS)",
			func(pa *Path) (bool, string) {
				// all lines of the header under its canonical key: h[CanonicalMIMEHeaderKey(key)] or h.Values(key), which does the same
				ck := pa.Calls("textproto.CanonicalMIMEHeaderKey")
				vals := pa.Calls("(http.Header).Values")
				byValues := len(ck) == 0 && len(vals) == 1 && argKey(vals[0], 0) == "param:h" && argKey(vals[0], 1) == "param:key"
				if !byValues && (len(ck) != 1 || argKey(ck[0], 0) != "param:key") {
					return false, "key not canonicalised"
				}
				for _, sp := range pa.Calls("strings.Split") {
					if argKey(sp, 1) != `","` {
						return false, "split on " + argKey(sp, 1)
					}
					src := expandCalls(pa, argKey(sp, 0))
					if byValues {
						if !strings.Contains(src, "(http.Header).Values(param:h,param:key)") {
							return false, "splits " + src
						}
						continue
					}
					if !strings.Contains(src, "lookup:") || !strings.Contains(src, "param:h,textproto.CanonicalMIMEHeaderKey(param:key)") {
						return false, "splits " + src
					}
				}
				for _, ap := range pa.Calls("builtin append") {
					va := varargsOf(pa, ap)
					if len(va) != 1 || !strings.HasPrefix(expandCalls(pa, va[0].Key()), trimFn+"(elem(strings.Split(") {
						return false, "appends " + func() string {
							if len(va) > 0 {
								return expandCalls(pa, va[0].Key())
							}
							return "?"
						}()
					}
				}
				return true, ""
			})
	}
	if fn := p.Func("headerContainsTokenIgnoreCase"); fn != nil {
		p.forAllPaths(r, rule, fn, "case-insensitive token membership", Opts{Unroll: 2},
			"headerContainsTokenIgnoreCase returns true exactly when some token of headerTokens(h, key) is equal to the wanted token under ASCII case folding (asciiEqualFold), false after exhausting them",
			func(pa *Path) (bool, string) {
				ht := pa.Calls("headerTokens")
				if len(ht) != 1 || argKey(ht[0], 0) != "param:h" || argKey(ht[0], 1) != "param:key" {
					return false, "tokens not taken from headerTokens(h, key)"
				}
				eqs := pa.Calls(foldFn)
				for _, e := range eqs {
					if !strings.HasPrefix(argKey(e, 0), "elem("+ht[0].Res.Key()+")[") || argKey(e, 1) != "param:token" {
						return false, "compares " + argKey(e, 0) + " with " + argKey(e, 1)
					}
				}
				if pa.End != "return" {
					return true, ""
				}
				b, ok := avBool(pa.Ret[0])
				if !ok {
					return false, "returns " + pa.Ret[0].Key()
				}
				if b {
					if len(eqs) == 0 {
						return false, "true without a match"
					}
					if v, k := pa.Decided(eqs[len(eqs)-1].Res.Key()); !k || !v {
						return false, "true without a match"
					}
				} else {
					for _, e := range eqs {
						if v, k := pa.Decided(e.Res.Key()); k && v {
							return false, "false although a token matched"
						}
					}
				}
				return true, ""
			})
	}
}

func c14parse(p *Program, r *Report, rule string) {
	fn := p.Func("websocketExtensions")
	if fn == nil {
		return
	}
	p.forAllPaths(r, rule, fn, "extension list parsing", Opts{Unroll: 2},
		"websocketExtensions takes the tokens of Sec-WebSocket-Extensions, skips empty ones, splits each on \";\", trims every piece, and records name = first piece, params = the rest",
		func(pa *Path) (bool, string) {
			ht := pa.Calls("headerTokens")
			if len(ht) != 1 || argKey(ht[0], 0) != "param:h" || argKey(ht[0], 1) != `"Sec-WebSocket-Extensions"` {
				return false, "not the tokens of Sec-WebSocket-Extensions"
			}
			for _, sp := range pa.Calls("strings.Split") {
				if argKey(sp, 1) != `";"` || !strings.HasPrefix(argKey(sp, 0), "elem("+ht[0].Res.Key()+")[") {
					return false, "splits " + argKey(sp, 0) + " on " + argKey(sp, 1)
				}
			}
			for _, e := range pa.Events {
				if e.Kind == "store" && strings.HasSuffix(e.AddrK, ".name") {
					n := expandCalls(pa, e.Val.Key())
					if !(strings.HasPrefix(n, "elem(strings.Split(") || strings.HasPrefix(n, trimFn+"(elem(strings.Split(")) || !strings.Contains(n, ")[0]") {
						return false, "name = " + n
					}
				}
				if e.Kind == "store" && strings.HasSuffix(e.AddrK, ".params") {
					sl, ok := e.Val.(*Expr)
					if !ok || sl.Op != "slice" || keyOf(sl.Args[1]) != "1" || sl.Args[2] != nil {
						return false, "params = " + e.Val.Key()
					}
				}
				if e.Kind == "store" && strings.HasPrefix(e.AddrK, "elem(call:strings.Split") && !keyIs(e.Val, "call:"+trimFn+"@@") {
					return false, "piece not trimmed: " + e.Val.Key()
				}
			}
			return true, ""
		})
}
