package main

// E4 — path-sensitive abstract interpretation of SSA over a finite predicate domain.
//
// The interpreter never executes library code. It walks the SSA control-flow graph of
// one function (optionally inlining small library callees), keeps every value as a
// *symbolic expression* (or a constant when the source says so or when the rule's
// valuation fixes an atom), follows an `If` when its condition is decided by constants,
// by the valuation, or by interval/equality constraints accumulated on the path, and
// forks otherwise. Loops are cut at the back edge (a block is entered at most `Unroll`
// times per frame). The result is the complete set of abstract paths with their
// decisions (the cube) and events (calls, stores, channel operations, returns).
// Rules classify paths and compare the resulting decision table with an oracle.

import (
	"strconv"
	"math/bits"
	"fmt"
	"go/constant"
	"go/token"
	"go/types"
	"regexp"
	"sort"
	"strings"

	"golang.org/x/tools/go/ssa"
)

// ---- abstract values ------------------------------------------------------------------

type AV interface{ Key() string }

// Const is a known constant (or nil).
type Const struct {
	V     constant.Value
	IsNil bool
	Zero  types.Type // zero value of an aggregate type
}

func (c *Const) Key() string {
	if c.IsNil {
		return "nil"
	}
	if c.Zero != nil {
		return "zero(" + typeShort(c.Zero) + ")"
	}
	return c.V.ExactString()
}

// Expr is a symbolic value.
type Expr struct {
	Op   string // param, load, field, call, extract, binop, unop, slice, len, cap, index, lookup, alloc, make, closure, typeassert, convert, phi?, select, recv, builtin, unknown
	Name string // operator / callee / field alias
	Args []AV
	T    types.Type
	k    string
}

func (e *Expr) Key() string {
	if e.k != "" {
		return e.k
	}
	var sb strings.Builder
	switch e.Op {
	case "param":
		sb.WriteString("param:" + e.Name)
	case "load":
		sb.WriteString(e.Name)
	case "field":
		sb.WriteString(e.Args[0].Key() + "." + lastDot(e.Name))
	case "call":
		sb.WriteString("call:" + e.Name)
	case "extract":
		sb.WriteString(e.Args[0].Key() + "#" + e.Name)
	case "binop":
		sb.WriteString("(" + e.Args[0].Key() + " " + e.Name + " " + e.Args[1].Key() + ")")
	case "unop":
		sb.WriteString(e.Name + e.Args[0].Key())
	default:
		sb.WriteString(e.Op)
		if e.Name != "" {
			sb.WriteString(":" + e.Name)
		}
		if len(e.Args) > 0 {
			sb.WriteString("(")
			for i, a := range e.Args {
				if i > 0 {
					sb.WriteString(",")
				}
				if a == nil {
					sb.WriteString("_")
				} else {
					sb.WriteString(a.Key())
				}
			}
			sb.WriteString(")")
		}
	}
	e.k = sb.String()
	return e.k
}

func lastDot(s string) string {
	if i := strings.LastIndex(s, "."); i >= 0 {
		return s[i+1:]
	}
	return s
}

// Addr is an abstract address.
type Addr struct {
	K string
	// Grp: the address of a transparent grouping field (see resolveFieldGroups); K is the enclosing struct's path
	Grp types.Type
}

func (a *Addr) Key() string { return "&" + a.K }

type Tuple struct{ Elems []AV }

func (t *Tuple) Key() string {
	var s []string
	for _, e := range t.Elems {
		s = append(s, e.Key())
	}
	return "<" + strings.Join(s, ",") + ">"
}

type Closure struct {
	Fn   *ssa.Function
	Bind []AV
}

func (c *Closure) Key() string { return "closure:" + c.Fn.Name() }

type FuncV struct{ Fn *ssa.Function }

func (f *FuncV) Key() string { return "func:" + f.Fn.String() }

// StructV is a struct value assembled field by field.
type StructV struct {
	T      types.Type
	Fields []AV
}

func (s *StructV) Key() string {
	var fs []string
	for _, f := range s.Fields {
		if f == nil {
			fs = append(fs, "_")
		} else {
			fs = append(fs, f.Key())
		}
	}
	return typeShort(s.T) + "{" + strings.Join(fs, ",") + "}"
}

func cBool(b bool) *Const   { return &Const{V: constant.MakeBool(b)} }
func cInt(i int64) *Const   { return &Const{V: constant.MakeInt64(i)} }
func cStr(s string) *Const  { return &Const{V: constant.MakeString(s)} }
func cNil() *Const          { return &Const{IsNil: true} }
func isConst(a AV) (*Const, bool) { c, ok := a.(*Const); return c, ok }

func constInt64(v constant.Value) (int64, bool) {
	if v == nil || v.Kind() != constant.Int {
		return 0, false
	}
	return constant.Int64Val(v)
}

func avInt(a AV) (int64, bool) {
	if c, ok := a.(*Const); ok && !c.IsNil && c.V != nil {
		return constInt64(constant.ToInt(c.V))
	}
	return 0, false
}

func avBool(a AV) (bool, bool) {
	if c, ok := a.(*Const); ok && !c.IsNil && c.V != nil && c.V.Kind() == constant.Bool {
		return constant.BoolVal(c.V), true
	}
	return false, false
}

func avStr(a AV) (string, bool) {
	if c, ok := a.(*Const); ok && !c.IsNil && c.V != nil && c.V.Kind() == constant.String {
		return constant.StringVal(c.V), true
	}
	return "", false
}

// ---- events -----------------------------------------------------------------------------

type Event struct {
	Kind     string // call, defer, rundefers, go, store, send, select, return, panic, mapupdate, inline-enter, inline-exit
	Callee   string
	Fn       *ssa.Function
	Args     []AV
	Res      AV
	AddrK    string
	Val      AV
	Instr    ssa.Instruction
	Deferred bool // a call executed by RunDefers
	Depth    int
	In       *ssa.Function
	// select
	Case     int
	Dir      types.ChanDir
	Chan     AV
	Blocking bool
	NDec     int // number of decisions taken before this event
	boolFlag bool // an atomic.Bool operation rendered as the 0/1 integer flag
}

type Decision struct {
	Key    string
	Val    bool
	Cond   AV
	Instr  ssa.Instruction
	Forked bool
	Depth  int
}

type Path struct {
	Events    []*Event
	Decisions []Decision
	End       string // return, loop, panic, limit
	Ret       []AV
	LoopTo    *ssa.BasicBlock
	Mem       map[string]AV
	ivals     map[string]*ival
}

// IntWithin reports whether the integer constraints collected on the path for the value whose key matches pattern
// (site wildcards allowed) confine it to [lo,hi], given that its type confines it to [baseLo,baseHi] (a small range).
func (p *Path) IntWithin(pattern string, baseLo, baseHi, lo, hi int64) bool {
	re := pat(pattern)
	for k, iv := range p.ivals {
		if !re.MatchString(k) {
			continue
		}
		ok := true
		for v := baseLo; v <= baseHi; v++ {
			if (iv.hasLo && v < iv.lo) || (iv.hasHi && v > iv.hi) || iv.ne[v] {
				continue
			}
			if v < lo || v > hi {
				ok = false
			}
		}
		if ok {
			return true
		}
	}
	return false
}

// IntAtMost reports whether the integer constraints collected on the path confine the value whose key matches
// pattern to values <= k.
func (p *Path) IntAtMost(pattern string, k int64) bool {
	re := pat(pattern)
	for key, iv := range p.ivals {
		if re.MatchString(key) && iv.hasHi && iv.hi <= k {
			return true
		}
	}
	return false
}

// IntAtLeast reports whether the integer constraints collected on the path confine the value whose key matches
// pattern to values >= k.
func (p *Path) IntAtLeast(pattern string, k int64) bool {
	re := pat(pattern)
	for key, iv := range p.ivals {
		if re.MatchString(key) && iv.hasLo && iv.lo >= k {
			return true
		}
	}
	return false
}

func (p *Path) Decided(key string) (bool, bool) {
	for _, d := range p.Decisions {
		if d.Key == key {
			return d.Val, true
		}
	}
	return false, false
}

// errorTextOf: a is the text of an error value, v.Error() through the interface or through a method of a concrete error
// type (corrupt.Error()); returns that error value.
func errorTextOf(a AV) (AV, bool) {
	x, ok := stripConvAll(a).(*Expr)
	if !ok || x.Op != "call" || len(x.Args) < 1 {
		return nil, false
	}
	name := x.Name
	if i := strings.Index(name, "@"); i >= 0 {
		name = name[:i]
	}
	if name == "invoke error.Error" || strings.HasSuffix(name, ").Error") || strings.HasSuffix(name, ".Error") && !strings.Contains(name, "invoke ") {
		return x.Args[0], true
	}
	return nil, false
}

// inlinedWriteError: the event is c.writeCloseCtx(ctx, code, err.Error()) / c.writeClose(code, err.Error()): writeError without the
// function around it.
func inlinedWriteError(e *Event) bool {
	if e.Kind != "call" || (e.Callee != "Conn.writeCloseCtx" && e.Callee != "Conn.writeClose") || len(e.Args) < 3 {
		return false
	}
	_, ok := errorTextOf(e.Args[len(e.Args)-1])
	return ok
}

// Calls returns the call events (executed, not merely deferred) to callee.
func (p *Path) Calls(callee string) []*Event {
	var out []*Event
	for _, e := range p.Events {
		// c.writeError(ctx, code, err): the context of the failing read comes first (F34); the rules read (code, err) as before and
		// find the context in Val
		if callee == "Conn.writeError" && e.Kind == "call" && e.Callee == callee && len(e.Args) == 4 {
			ne := *e
			ne.Args = []AV{e.Args[0], e.Args[2], e.Args[3]}
			ne.Val = e.Args[1]
			out = append(out, &ne)
			continue
		}
		if e.Kind == "call" && e.Callee == callee {
			out = append(out, e)
		}
		// the inlined spelling of the same: c.writeCloseCtx(ctx, code, err.Error())
		if callee == "Conn.writeError" && e.Kind == "call" && e.Callee == "Conn.writeCloseCtx" && len(e.Args) == 4 {
			if ev, ok := errorTextOf(e.Args[3]); ok {
				ne := *e
				ne.Callee = "Conn.writeError"
				ne.Args = []AV{e.Args[0], e.Args[2], ev}
				ne.Val = e.Args[1]
				out = append(out, &ne)
			}
		}
		// c.writeCloseCtx(ctx, code, reason) is writeClose bounded by the caller's context: it counts as writeClose(code, reason);
		// the context argument is kept in Val
		if callee == "Conn.writeClose" && e.Kind == "call" && e.Callee == "Conn.writeCloseCtx" && len(e.Args) == 4 {
			ne := *e
			ne.Callee = "Conn.writeClose"
			ne.Args = []AV{e.Args[0], e.Args[2], e.Args[3]}
			ne.Val = e.Args[1]
			out = append(out, &ne)
		}
		// c.writeError(code, err) is c.writeClose(code, err.Error()): the inlined spelling counts as the call
		if callee == "Conn.writeError" && e.Kind == "call" && e.Callee == "Conn.writeClose" && len(e.Args) == 3 {
			if x, ok := stripConvAll(e.Args[2]).(*Expr); ok && x.Op == "call" && strings.HasPrefix(x.Name, "invoke error.Error@") && len(x.Args) >= 1 {
				ne := *e
				ne.Callee = "Conn.writeError"
				ne.Args = []AV{e.Args[0], e.Args[1], x.Args[0]}
				out = append(out, &ne)
			}
		}
	}
	return out
}

func (p *Path) CubeString() string {
	var s []string
	for _, d := range p.Decisions {
		if d.Forked {
			if d.Val {
				s = append(s, d.Key)
			} else {
				s = append(s, "!"+d.Key)
			}
		}
	}
	return strings.Join(s, " ∧ ")
}

// ---- options ---------------------------------------------------------------------------

type Opts struct {
	Val      map[string]AV // valuation of atoms by key or alias
	Inline   func(fn *ssa.Function, depth int) bool
	MaxPaths int
	Unroll   int
	// Decide lets a rule fix the truth of an otherwise opaque condition.
	Decide func(key string, cond AV) (val bool, known bool)
	// CallResult lets a rule model the result of an opaque call.
	CallResult func(ev *Event) AV
	Args       []AV // optional bindings for the root function's parameters
}

type interp struct {
	prog  *Program
	opts  Opts
	paths []*Path
	limit bool
	steps int
	// the frame on top is a helper outside the reference tree (see seeThroughAt)
	calledFromNewHelper bool
}

type ival struct {
	lo, hi     int64
	hasLo, hasHi bool
	ne         map[int64]bool
}

func (iv *ival) clone() *ival {
	n := *iv
	if iv.ne != nil {
		n.ne = map[int64]bool{}
		for k := range iv.ne {
			n.ne[k] = true
		}
	}
	return &n
}

type strc struct {
	eq    *string
	ne    map[string]bool
}

type frame struct {
	fn      *ssa.Function
	env     map[ssa.Value]AV
	block   *ssa.BasicBlock
	prev    *ssa.BasicBlock
	idx     int
	visited map[*ssa.BasicBlock]int
	defers  []*Event
	call    ssa.Instruction // call instruction in the caller frame (inline)
	fromDefer bool
	pendingDefers []*Event // when running defers: remaining
	inRunDefers bool
}

type state struct {
	frames []*frame
	mem    map[string]AV
	events []*Event
	decs   []Decision
	decmap map[string]bool
	ivals  map[string]*ival
	strs   map[string]*strc
}

func (s *state) clone() *state {
	n := &state{mem: make(map[string]AV, len(s.mem)), decmap: make(map[string]bool, len(s.decmap)),
		ivals: make(map[string]*ival, len(s.ivals)), strs: make(map[string]*strc, len(s.strs))}
	for k, v := range s.mem {
		n.mem[k] = v
	}
	for k, v := range s.decmap {
		n.decmap[k] = v
	}
	for k, v := range s.ivals {
		n.ivals[k] = v.clone()
	}
	for k, v := range s.strs {
		c := &strc{eq: v.eq}
		if v.ne != nil {
			c.ne = map[string]bool{}
			for x := range v.ne {
				c.ne[x] = true
			}
		}
		n.strs[k] = c
	}
	n.events = append([]*Event(nil), s.events...)
	n.decs = append([]Decision(nil), s.decs...)
	for _, f := range s.frames {
		nf := *f
		nf.env = make(map[ssa.Value]AV, len(f.env))
		for k, v := range f.env {
			nf.env[k] = v
		}
		nf.visited = make(map[*ssa.BasicBlock]int, len(f.visited))
		for k, v := range f.visited {
			nf.visited[k] = v
		}
		nf.defers = append([]*Event(nil), f.defers...)
		nf.pendingDefers = append([]*Event(nil), f.pendingDefers...)
		n.frames = append(n.frames, &nf)
	}
	return n
}

func (s *state) top() *frame { return s.frames[len(s.frames)-1] }

// Explore enumerates the abstract paths of fn.
func (p *Program) Explore(fn *ssa.Function, opts Opts) ([]*Path, error) {
	if fn == nil || len(fn.Blocks) == 0 {
		return nil, fmt.Errorf("no body")
	}
	if opts.MaxPaths == 0 {
		opts.MaxPaths = 20000
	}
	if opts.Unroll == 0 {
		opts.Unroll = 1
	}
	it := &interp{prog: p, opts: opts}
	st := &state{mem: map[string]AV{}, decmap: map[string]bool{}, ivals: map[string]*ival{}, strs: map[string]*strc{}}
	fr := &frame{fn: fn, env: map[ssa.Value]AV{}, block: fn.Blocks[0], visited: map[*ssa.BasicBlock]int{}}
	for i, prm := range fn.Params {
		if i < len(opts.Args) && opts.Args[i] != nil {
			fr.env[prm] = opts.Args[i]
		} else if v := p.plumbedParam(fn, i); v != nil {
			fr.env[prm] = v
			if e, isE := v.(*Expr); isE {
				if x, ok := it.valLookup(e.Name); ok {
					fr.env[prm] = x // the rule's valuation of that field
				}
			}
		}
	}
	// a closure explored on its own: a captured variable that holds a plumbed parameter of the enclosing function (a hard-coded
	// value that became a parameter with one constant at every call site) holds that constant
	if par := fn.Parent(); par != nil {
		for _, fv := range fn.FreeVars {
			if v := p.capturedPlumbedConst(par, fn, fv); v != nil {
				st.mem["FV:"+paramName(fv)] = v
			}
		}
	}
	fr.visited[fr.block] = 1
	st.frames = []*frame{fr}
	it.run(st)
	if it.limit {
		return it.paths, fmt.Errorf("path limit %d exceeded in %s", opts.MaxPaths, p.rawName(fn))
	}
	return it.paths, nil
}

// capturedPlumbedConst: fv of closure cl (made in par) is the spilled copy of a parameter of par that plumbedParam resolves
// to a constant, and nothing else is ever stored into that copy.
func (p *Program) capturedPlumbedConst(par, cl *ssa.Function, fv *ssa.FreeVar) AV {
	idx := -1
	for i, f := range cl.FreeVars {
		if f == fv {
			idx = i
		}
	}
	if idx < 0 {
		return nil
	}
	var cell *ssa.Alloc
	for _, b := range par.Blocks {
		for _, in := range b.Instrs {
			if mc, ok := in.(*ssa.MakeClosure); ok && mc.Fn == cl && idx < len(mc.Bindings) {
				if a, ok := mc.Bindings[idx].(*ssa.Alloc); ok {
					cell = a
				}
			}
		}
	}
	if cell == nil {
		return nil
	}
	var src *ssa.Parameter
	for _, ref := range *cell.Referrers() {
		st, ok := ref.(*ssa.Store)
		if !ok || st.Addr != cell {
			continue
		}
		prm, isP := st.Val.(*ssa.Parameter)
		if !isP || src != nil {
			return nil
		}
		src = prm
	}
	if src == nil {
		return nil
	}
	for i, q := range par.Params {
		if q == src {
			if v := p.plumbedParam(par, i); v != nil {
				if _, isC := v.(*Const); isC {
					return v
				}
			}
		}
	}
	return nil
}

// plumbedParam: signature plumbing. A parameter that a reference function did not have in the reference tree and to which
// every call site passes the current value of one and the same field path rooted at a parameter or receiver
// (writeFramePayload(c.writeHeader.masked, …) instead of reading c.writeHeader.masked inside) stands for that field: the
// function is analysed as if it still read the field itself. nil when this does not apply.
func (p *Program) plumbedParam(fn *ssa.Function, idx int) AV {
	name := p.rawName(fn)
	if fn.Parent() != nil || !knownFuncs[name] || idx >= len(fn.Params) {
		return nil
	}
	ref := knownParams[name]
	if len(ref) == len(fn.Params) {
		return nil // same arity as in the reference tree: the ordinary rename resolution applies
	}
	prm := fn.Params[idx]
	for _, r := range ref {
		if strings.HasPrefix(r, prm.Name()+"|") {
			return nil // a parameter the reference function already had
		}
	}
	sites := p.CallersOf(fn)
	if len(sites) == 0 {
		return nil
	}
	// every call site passes the same constant (a hard-coded value that became a parameter)
	var konst *ssa.Const
	allConst := true
	for _, cs := range sites {
		args := cs.Instr.Common().Args
		if idx >= len(args) {
			return nil
		}
		c, ok := args[idx].(*ssa.Const)
		if !ok || c.Value == nil || (konst != nil && !constant.Compare(konst.Value, token.EQL, c.Value)) {
			allConst = false
			break
		}
		konst = c
	}
	if allConst && konst != nil {
		p.RenameNotes = append(p.RenameNotes, fmt.Sprintf("parameter %s of %s is new; every call site passes the constant %s, which it stands for", prm.Name(), name, konst.Value))
		return &Const{V: konst.Value}
	}
	key := ""
	for _, cs := range sites {
		args := cs.Instr.Common().Args
		if idx >= len(args) {
			return nil
		}
		av := args[idx]
		for {
			if ct, ok := av.(*ssa.ChangeType); ok { // chan T handed over as <-chan T, a named type as its underlying type
				av = ct.X
				continue
			}
			break
		}
		u, ok := av.(*ssa.UnOp)
		if !ok || u.Op != token.MUL {
			return nil
		}
		k := ""
		var walk func(v ssa.Value) bool
		walk = func(v ssa.Value) bool {
			switch x := v.(type) {
			case *ssa.FieldAddr:
				if !walk(x.X) {
					return false
				}
				stt, ok := derefType(x.X.Type()).Underlying().(*types.Struct)
				if !ok {
					return false
				}
				if k == "" {
					k = typeShort(x.X.Type())
				}
				k = joinField(k, fieldName(stt.Field(x.Field)))
				return true
			case *ssa.Parameter, *ssa.FreeVar, *ssa.Alloc:
				return true // (an Alloc: the object under construction, e.g. c in newConn at the go statement)
			case *ssa.UnOp:
				// a pointer field on the way (c.msgWriter.flate): continue from the pointee's type
				if x.Op == token.MUL {
					if _, ok := x.X.(*ssa.FieldAddr); ok && walk(x.X) {
						k = ""
						return true
					}
					if _, ok := x.X.(*ssa.Alloc); ok {
						return true // a parameter or receiver spilled to a local (functions with defers or closures)
					}
				}
			}
			return false
		}
		if !walk(u.X) || k == "" {
			return nil
		}
		if key != "" && key != k {
			return nil
		}
		key = k
	}
	p.RenameNotes = append(p.RenameNotes, fmt.Sprintf("parameter %s of %s is new; every call site passes the current value of %s, which it stands for", prm.Name(), name, key))
	return &Expr{Op: "load", Name: key, T: prm.Type()}
}

func (it *interp) finish(st *state, end string, ret []AV, loopTo *ssa.BasicBlock) {
	if len(it.paths) >= it.opts.MaxPaths {
		it.limit = true
		return
	}
	it.paths = append(it.paths, &Path{Events: st.events, Decisions: st.decs, End: end, Ret: ret, LoopTo: loopTo, Mem: st.mem, ivals: st.ivals})
}

func (it *interp) siteID(in ssa.Instruction) string {
	b := in.Block()
	for i, x := range b.Instrs {
		if x == in {
			return fmt.Sprintf("%s.b%di%d", it.prog.rawName(b.Parent()), b.Index, i)
		}
	}
	return "?"
}

// run executes st until all of its continuations finished.
func (it *interp) run(st *state) {
	for {
		if it.limit {
			return
		}
		it.steps++
		if it.steps > 5_000_000 {
			it.limit = true
			return
		}
		fr := st.top()
		if fr.inRunDefers {
			// continue running deferred calls of this frame
			if len(fr.pendingDefers) == 0 {
				fr.inRunDefers = false
				continue
			}
			d := fr.pendingDefers[len(fr.pendingDefers)-1]
			fr.pendingDefers = fr.pendingDefers[:len(fr.pendingDefers)-1]
			if it.execDeferred(st, fr, d) {
				// a frame was pushed; loop continues in it
			}
			continue
		}
		if fr.idx >= len(fr.block.Instrs) {
			it.finish(st, "fallthrough", nil, nil)
			return
		}
		in := fr.block.Instrs[fr.idx]
		fr.idx++
		switch in := in.(type) {
		case *ssa.If:
			cond := it.eval(st, fr, in.Cond)
			val, known, key, neg := it.decide(st, cond)
			if known {
				st.decs = append(st.decs, Decision{Key: key, Val: val != neg, Cond: cond, Instr: in, Depth: len(st.frames) - 1})
				if !it.jump(st, fr, succ(fr.block, val)) {
					return
				}
				continue
			}
			// fork
			for _, v := range []bool{true, false} {
				ns := st.clone()
				if !it.assume(ns, cond, v) {
					continue
				}
				ns.decs = append(ns.decs, Decision{Key: key, Val: v != neg, Cond: cond, Instr: in, Forked: true, Depth: len(ns.frames) - 1})
				nfr := ns.top()
				if it.jump(ns, nfr, succ(nfr.block, v)) {
					it.run(ns)
				}
			}
			return
		case *ssa.Jump:
			if !it.jump(st, fr, fr.block.Succs[0]) {
				return
			}
		case *ssa.Return:
			var rets []AV
			for _, r := range in.Results {
				rets = append(rets, it.eval(st, fr, r))
			}
			if len(st.frames) == 1 {
				st.events = append(st.events, &Event{Kind: "return", Args: rets, Instr: in, In: fr.fn, NDec: len(st.decs)})
				it.finish(st, "return", rets, nil)
				return
			}
			// pop inlined frame
			st.frames = st.frames[:len(st.frames)-1]
			caller := st.top()
			st.events = append(st.events, &Event{Kind: "inline-exit", Callee: it.prog.rawName(fr.fn), Fn: fr.fn, Args: rets, Instr: in, Depth: len(st.frames), In: fr.fn, NDec: len(st.decs)})
			if fr.fromDefer {
				// result discarded; continue caller's RunDefers
				continue
			}
			if v, ok := fr.call.(ssa.Value); ok {
				switch len(rets) {
				case 0:
				case 1:
					caller.env[v] = rets[0]
				default:
					caller.env[v] = &Tuple{Elems: rets}
				}
			}
		case *ssa.Panic:
			st.events = append(st.events, &Event{Kind: "panic", Args: []AV{it.eval(st, fr, in.X)}, Instr: in, In: fr.fn, NDec: len(st.decs)})
			it.finish(st, "panic", nil, nil)
			return
		case *ssa.RunDefers:
			st.events = append(st.events, &Event{Kind: "rundefers", Instr: in, In: fr.fn, Depth: len(st.frames) - 1, NDec: len(st.decs)})
			fr.pendingDefers = append([]*Event(nil), fr.defers...)
			fr.defers = nil
			fr.inRunDefers = true
		case *ssa.Select:
			it.doSelect(st, fr, in)
			return
		default:
			if !it.step(st, fr, in) {
				return
			}
		}
	}
}

func succ(b *ssa.BasicBlock, cond bool) *ssa.BasicBlock {
	if cond {
		return b.Succs[0]
	}
	return b.Succs[1]
}

func (it *interp) jump(st *state, fr *frame, to *ssa.BasicBlock) bool {
	if fr.visited[to] >= it.opts.Unroll {
		// back edge: end of one iteration
		// a loop of the explored function, or of a helper extracted from it (every frame above the root is see-through)
		transparent := true
		for _, f := range st.frames[1:] {
			if knownFuncs[it.prog.rawName(f.fn)] || f.fn.Parent() != nil {
				transparent = false
			}
		}
		if len(st.frames) == 1 || transparent {
			st.events = append(st.events, &Event{Kind: "loop", Instr: to.Instrs[0], In: fr.fn, NDec: len(st.decs)})
			it.finish(st, "loop", nil, to)
		} else {
			it.finish(st, "loop-in-inline", nil, to)
		}
		return false
	}
	fr.visited[to]++
	fr.prev = fr.block
	fr.block = to
	fr.idx = 0
	// evaluate phis simultaneously
	var phis []*ssa.Phi
	for _, in := range to.Instrs {
		if ph, ok := in.(*ssa.Phi); ok {
			phis = append(phis, ph)
		} else {
			break
		}
	}
	if len(phis) > 0 {
		pi := -1
		for i, pb := range to.Preds {
			if pb == fr.prev {
				pi = i
			}
		}
		vals := make([]AV, len(phis))
		for i, ph := range phis {
			if pi >= 0 {
				vals[i] = it.eval(st, fr, ph.Edges[pi])
			} else {
				vals[i] = &Expr{Op: "unknown", Name: "phi"}
			}
		}
		for i, ph := range phis {
			fr.env[ph] = vals[i]
		}
		fr.idx = len(phis)
	}
	return true
}

// ---- decisions ----------------------------------------------------------------------------

// normCmp decomposes a comparison into (subject, op ∈ {==,<,>}, constant, negated).
func normCmp(cond AV) (subj AV, op string, c *Const, neg bool, ok bool) {
	e, isE := cond.(*Expr)
	if !isE || e.Op != "binop" {
		return
	}
	a, b := e.Args[0], e.Args[1]
	o := e.Name
	if ca, isC := a.(*Const); isC {
		if _, isC2 := b.(*Const); isC2 {
			return
		}
		// swap
		a, b = b, ca
		switch o {
		case "<":
			o = ">"
		case ">":
			o = "<"
		case "<=":
			o = ">="
		case ">=":
			o = "<="
		}
	}
	cb, isC := b.(*Const)
	if !isC {
		return
	}
	switch o {
	case "==":
		return a, "==", cb, false, true
	case "!=":
		return a, "==", cb, true, true
	case "<":
		return a, "<", cb, false, true
	case ">":
		return a, ">", cb, false, true
	case ">=":
		return a, "<", cb, true, true
	case "<=":
		return a, ">", cb, true, true
	}
	return
}

// decide returns the truth value of cond when it is determined (val, known), the key of
// the normalised atom it tests, and whether cond is the negation of that atom.
func (it *interp) decide(st *state, cond AV) (val, known bool, key string, neg bool) {
	if b, ok := avBool(cond); ok {
		return b, true, cond.Key(), false
	}
	for {
		if e, ok := cond.(*Expr); ok && e.Op == "unop" && e.Name == "!" {
			neg = !neg
			cond = e.Args[0]
			continue
		}
		break
	}
	if subj, op, c, n2, ok := normCmp(cond); ok {
		key = "(" + subj.Key() + " " + op + " " + c.Key() + ")"
		neg = neg != n2
		if v, ok := st.decmap[key]; ok {
			return v != neg, true, key, neg
		}
		if ci, isInt := avInt(c); isInt {
			if iv := st.ivals[subj.Key()]; iv != nil {
				if v, ok := ivalDecide(iv, op, ci); ok {
					return v != neg, true, key, neg
				}
			}
		} else if cs, isStr := avStr(c); isStr && op == "==" {
			if sc := st.strs[subj.Key()]; sc != nil {
				if sc.eq != nil {
					return (*sc.eq == cs) != neg, true, key, neg
				}
				if sc.ne[cs] {
					return false != neg, true, key, neg
				}
			}
		}
		if it.opts.Decide != nil {
			if v, ok := it.opts.Decide(key, cond); ok {
				return v != neg, true, key, neg
			}
		}
		if c != nil && c.IsNil && op == "==" {
			if it.neverNil(st, subj) {
				return false != neg, true, key, neg
			}
		}
		return false, false, key, neg
	}
	key = cond.Key()
	if v, ok := st.decmap[key]; ok {
		return v != neg, true, key, neg
	}
	if it.opts.Decide != nil {
		if v, ok := it.opts.Decide(key, cond); ok {
			return v != neg, true, key, neg
		}
	}
	return false, false, key, neg
}

// neverNil: subj is a field that only constructors set, to fresh objects (and no constructor is on the stack), or the
// result of a library function that returns a fresh object on every path.
func (it *interp) neverNil(st *state, subj AV) bool {
	e, ok := stripConvAll(subj).(*Expr)
	if !ok {
		return false
	}
	switch e.Op {
	case "lookup":
		// an element that was found (comma-ok true on this path) in a map into which only fresh objects are stored
		if v, ok := st.decmap["lookupok:"+e.Name]; ok && v && len(e.Args) > 0 {
			if m, ok := stripConvAll(e.Args[0]).(*Expr); ok && (m.Op == "load" || m.Op == "field") {
				return it.prog.mapElemNeverNil(m.Name)
			}
		}
		return false
	case "load", "field":
		ctors, ok := it.prog.neverNilFields()[e.Name]
		if !ok {
			return false
		}
		for _, f := range st.frames {
			if ctors[f.fn] {
				return false
			}
		}
		return true
	case "call", "extract":
		idx := 0
		ce := e
		if e.Op == "extract" {
			i, err := strconv.Atoi(e.Name)
			inner, isE := e.Args[0].(*Expr)
			if err != nil || !isE || inner.Op != "call" {
				return false
			}
			idx, ce = i, inner
		}
		name := ce.Name
		if i := strings.Index(name, "@"); i >= 0 {
			name = name[:i]
		}
		if fn := it.prog.FuncOpt(name); fn != nil && it.prog.isLib(fn) {
			return it.prog.neverNilResult(fn, idx, 0)
		}
	}
	return false
}

func ivalDecide(iv *ival, op string, c int64) (bool, bool) {
	switch op {
	case "==":
		if iv.hasLo && iv.hasHi && iv.lo == iv.hi {
			return iv.lo == c, true
		}
		if (iv.hasLo && c < iv.lo) || (iv.hasHi && c > iv.hi) || iv.ne[c] {
			return false, true
		}
	case "<":
		if iv.hasHi && iv.hi < c {
			return true, true
		}
		if iv.hasLo && iv.lo >= c {
			return false, true
		}
	case ">":
		if iv.hasLo && iv.lo > c {
			return true, true
		}
		if iv.hasHi && iv.hi <= c {
			return false, true
		}
	}
	return false, false
}

// assume records cond==v on the path; false if infeasible.
func (it *interp) assume(st *state, cond AV, v bool) bool {
	for {
		if e, ok := cond.(*Expr); ok && e.Op == "unop" && e.Name == "!" {
			v = !v
			cond = e.Args[0]
			continue
		}
		break
	}
	if subj, op, c, neg, ok := normCmp(cond); ok {
		key := "(" + subj.Key() + " " + op + " " + c.Key() + ")"
		tv := v != neg
		st.decmap[key] = tv
		if ci, isInt := avInt(c); isInt {
			sk := subj.Key()
			iv := st.ivals[sk]
			if iv == nil {
				iv = &ival{}
				// len/cap are never negative
				if e, ok := subj.(*Expr); ok && (e.Op == "len" || e.Op == "cap") {
					iv.hasLo, iv.lo = true, 0
				}
				st.ivals[sk] = iv
			}
			switch {
			case op == "==" && tv:
				if (iv.hasLo && ci < iv.lo) || (iv.hasHi && ci > iv.hi) || iv.ne[ci] {
					return false
				}
				iv.hasLo, iv.hasHi, iv.lo, iv.hi = true, true, ci, ci
			case op == "==" && !tv:
				if iv.hasLo && iv.hasHi && iv.lo == iv.hi && iv.lo == ci {
					return false
				}
				if iv.ne == nil {
					iv.ne = map[int64]bool{}
				}
				iv.ne[ci] = true
				for iv.hasLo && iv.ne[iv.lo] {
					iv.lo++
				}
				for iv.hasHi && iv.ne[iv.hi] {
					iv.hi--
				}
			case op == "<" && tv:
				if !iv.hasHi || iv.hi > ci-1 {
					iv.hasHi, iv.hi = true, ci-1
				}
			case op == "<" && !tv:
				if !iv.hasLo || iv.lo < ci {
					iv.hasLo, iv.lo = true, ci
				}
			case op == ">" && tv:
				if !iv.hasLo || iv.lo < ci+1 {
					iv.hasLo, iv.lo = true, ci+1
				}
			case op == ">" && !tv:
				if !iv.hasHi || iv.hi > ci {
					iv.hasHi, iv.hi = true, ci
				}
			}
			if iv.hasLo && iv.hasHi && iv.lo > iv.hi {
				return false
			}
		} else if cs, isStr := avStr(c); isStr && op == "==" {
			sk := subj.Key()
			sc := st.strs[sk]
			if sc == nil {
				sc = &strc{}
				st.strs[sk] = sc
			}
			if tv {
				if sc.eq != nil && *sc.eq != cs || sc.ne[cs] {
					return false
				}
				sc.eq = &cs
			} else {
				if sc.eq != nil && *sc.eq == cs {
					return false
				}
				if sc.ne == nil {
					sc.ne = map[string]bool{}
				}
				sc.ne[cs] = true
			}
		}
		return true
	}
	st.decmap[cond.Key()] = v
	return true
}

// ---- select ---------------------------------------------------------------------------------

func (it *interp) doSelect(st *state, fr *frame, in *ssa.Select) {
	n := len(in.States)
	cases := make([]int, 0, n+1)
	for i := 0; i < n; i++ {
		cases = append(cases, i)
	}
	if !in.Blocking {
		cases = append(cases, -1)
	}
	for _, ci := range cases {
		ns := st.clone()
		nfr := ns.top()
		ev := &Event{Kind: "select", Case: ci, Instr: in, In: nfr.fn, Blocking: in.Blocking, Depth: len(ns.frames) - 1, NDec: len(ns.decs)}
		elems := []AV{cInt(int64(ci)), &Expr{Op: "recvok", Name: it.siteID(in)}}
		for i, sst := range in.States {
			if sst.Dir == types.RecvOnly {
				elems = append(elems, &Expr{Op: "recv", Name: it.siteID(in) + fmt.Sprint(i), Args: []AV{it.eval(ns, nfr, sst.Chan)}})
			}
		}
		for _, sst := range in.States {
			ev.Args = append(ev.Args, it.eval(ns, nfr, sst.Chan))
		}
		if ci >= 0 {
			sst := in.States[ci]
			ev.Dir = sst.Dir
			ev.Chan = it.eval(ns, nfr, sst.Chan)
			if sst.Send != nil {
				ev.Val = it.eval(ns, nfr, sst.Send)
			}
		}
		ns.events = append(ns.events, ev)
		ns.decs = append(ns.decs, Decision{Key: "select@" + it.siteID(in) + "=" + fmt.Sprint(ci), Val: true, Instr: in, Forked: true, Depth: len(ns.frames) - 1})
		nfr.env[in] = &Tuple{Elems: elems}
		it.run(ns)
	}
}

// ---- instruction step ----------------------------------------------------------------------

func (it *interp) step(st *state, fr *frame, in ssa.Instruction) bool {
	switch in := in.(type) {
	case *ssa.DebugRef:
	case *ssa.Store:
		a := it.eval(st, fr, in.Addr)
		v := it.eval(st, fr, in.Val)
		it.store(st, a, v, in, fr)
	case *ssa.MapUpdate:
		st.events = append(st.events, &Event{Kind: "mapupdate", Args: []AV{it.eval(st, fr, in.Map), it.eval(st, fr, in.Key), it.eval(st, fr, in.Value)}, Instr: in, In: fr.fn, NDec: len(st.decs)})
	case *ssa.Send:
		st.events = append(st.events, &Event{Kind: "send", Chan: it.eval(st, fr, in.Chan), Val: it.eval(st, fr, in.X), Instr: in, In: fr.fn, Blocking: true, NDec: len(st.decs)})
	case *ssa.Go:
		ev := it.callEvent(st, fr, &in.Call, in)
		ev.Kind = "go"
		st.events = append(st.events, ev)
	case *ssa.Defer:
		ev := it.callEvent(st, fr, &in.Call, in)
		ev.Kind = "defer"
		st.events = append(st.events, ev)
		fr.defers = append(fr.defers, ev)
	case *ssa.Call:
		return it.doCall(st, fr, in)
	case ssa.Value:
		fr.env[in] = it.evalInstr(st, fr, in)
	default:
		// unknown non-value instruction: ignore
	}
	return true
}

func (it *interp) store(st *state, a AV, v AV, in ssa.Instruction, fr *frame) {
	ad, ok := a.(*Addr)
	k := ""
	if ok && ad.Grp != nil {
		// a whole group of fields is assigned at once: one store per field, under the fields' reference names
		if gst, isSt := ad.Grp.Underlying().(*types.Struct); isSt {
			for j := 0; j < gst.NumFields(); j++ {
				fn := fieldName(gst.Field(j))
				var fv AV
				if sv, isSV := v.(*StructV); isSV && j < len(sv.Fields) && sv.Fields[j] != nil {
					fv = sv.Fields[j]
				} else if _, isSV := v.(*StructV); isSV {
					fv = zeroOf(gst.Field(j).Type())
				} else {
					fv = it.project(v, fn, gst.Field(j).Type())
				}
				sub := &Addr{K: joinField(ad.K, fn)}
				if fn == "" {
					sub.Grp = gst.Field(j).Type()
				}
				it.store(st, sub, fv, in, fr)
			}
			return
		}
	}
	if ok {
		k = ad.K
	} else {
		k = "?" + a.Key()
	}
	st.events = append(st.events, &Event{Kind: "store", AddrK: k, Val: v, Instr: in, In: fr.fn, Depth: len(st.frames) - 1, NDec: len(st.decs)})
	it.memStore(st, k, v)
}

func (it *interp) memStore(st *state, k string, v AV) {
	// drop stale sub-entries
	pre := k + "."
	for mk := range st.mem {
		if strings.HasPrefix(mk, pre) {
			delete(st.mem, mk)
		}
	}
	if sv, ok := v.(*StructV); ok {
		if stt, ok := sv.T.Underlying().(*types.Struct); ok {
			st.mem[k] = &Const{Zero: sv.T}
			for i := 0; i < stt.NumFields() && i < len(sv.Fields); i++ {
				if sv.Fields[i] != nil {
					if fieldName(stt.Field(i)) == "" {
						// a transparent grouping field: its fields live directly under k
						if sub, ok := sv.Fields[i].(*StructV); ok {
							if sst, ok := sub.T.Underlying().(*types.Struct); ok {
								for j := 0; j < sst.NumFields() && j < len(sub.Fields); j++ {
									if sub.Fields[j] != nil {
										it.memStore(st, joinField(k, fieldName(sst.Field(j))), sub.Fields[j])
									}
								}
							}
						}
						continue
					}
					it.memStore(st, joinField(k, fieldName(stt.Field(i))), sv.Fields[i])
				}
			}
		}
		return
	}
	st.mem[k] = v
}

var siteRe = regexp.MustCompile(`@[^#, ()]*`)

// stripSites removes call-site ids from a key ("call:f@fn.b1i2#0" → "call:f#0").
func stripSites(k string) string { return siteRe.ReplaceAllString(k, "") }

func (it *interp) valLookup(keys ...string) (AV, bool) {
	if len(it.opts.Val) == 0 {
		return nil, false
	}
	for _, k := range keys {
		if v, ok := it.opts.Val[k]; ok {
			return v, true
		}
	}
	for _, k := range keys {
		if strings.Contains(k, "@") {
			if v, ok := it.opts.Val[stripSites(k)]; ok {
				return v, true
			}
		}
	}
	return nil, false
}

func aggType(a AV) types.Type {
	switch b := a.(type) {
	case *Expr:
		return b.T
	case *StructV:
		return b.T
	case *Const:
		return b.Zero
	}
	return nil
}

func fieldType(t types.Type, f string) types.Type {
	if t == nil {
		return nil
	}
	if stt, ok := derefType(t).Underlying().(*types.Struct); ok {
		for i := 0; i < stt.NumFields(); i++ {
			if fieldName(stt.Field(i)) == f {
				return stt.Field(i).Type()
			}
		}
		for i := 0; i < stt.NumFields(); i++ {
			if fieldName(stt.Field(i)) == "" {
				if ft := fieldType(stt.Field(i).Type(), f); ft != nil {
					return ft
				}
			}
		}
	}
	return nil
}

func (it *interp) load(st *state, ad *Addr, t types.Type) AV {
	k := ad.K
	if stt, ok := t.Underlying().(*types.Struct); ok {
		// assemble if any field was stored individually
		has := false
		pre := k + "."
		for mk := range st.mem {
			if strings.HasPrefix(mk, pre) {
				has = true
				break
			}
		}
		if has {
			sv := &StructV{T: t, Fields: make([]AV, stt.NumFields())}
			for i := 0; i < stt.NumFields(); i++ {
				sv.Fields[i] = it.load(st, &Addr{K: joinField(k, fieldName(stt.Field(i)))}, stt.Field(i).Type())
			}
			return sv
		}
	}
	if v, ok := st.mem[k]; ok {
		return v
	}
	// field (path) of a stored aggregate
	for i := strings.LastIndex(k, "."); i > 0; i = strings.LastIndex(k[:i], ".") {
		base, ok := st.mem[k[:i]]
		if !ok {
			continue
		}
		comps := strings.Split(k[i+1:], ".")
		cur := base
		for ci, f := range comps {
			ft := fieldType(aggType(cur), f)
			if ci == len(comps)-1 {
				ft = t
			}
			if ft == nil {
				cur = nil
				break
			}
			cur = it.project(cur, f, ft)
		}
		if cur != nil {
			return cur
		}
		break
	}
	if v, ok := it.valLookup(k); ok {
		return v
	}
	return &Expr{Op: "load", Name: k, T: t}
}

// project takes field f of an aggregate value.
func (it *interp) project(base AV, f string, ft types.Type) AV {
	switch b := base.(type) {
	case *StructV:
		if stt, ok := b.T.Underlying().(*types.Struct); ok {
			for i := 0; i < stt.NumFields(); i++ {
				if fieldName(stt.Field(i)) == f && b.Fields[i] != nil {
					return b.Fields[i]
				}
			}
			if f != "" {
				for i := 0; i < stt.NumFields(); i++ {
					if fieldName(stt.Field(i)) == "" && b.Fields[i] != nil {
						if sub, ok := b.Fields[i].(*StructV); ok {
							if ft2 := fieldType(sub.T, f); ft2 != nil {
								return it.project(sub, f, ft)
							}
						}
					}
				}
			}
		}
	case *Const:
		if b.Zero != nil {
			return zeroOf(ft)
		}
	}
	alias := f
	var bt types.Type
	switch b := base.(type) {
	case *Expr:
		bt = b.T
	case *StructV:
		bt = b.T
	}
	if bt != nil {
		alias = typeShort(bt) + "." + f
	}
	e := &Expr{Op: "field", Name: alias, Args: []AV{base}, T: ft}
	if v, ok := it.valLookup(e.Key(), alias); ok {
		return v
	}
	return e
}

func zeroOf(t types.Type) AV {
	switch u := t.Underlying().(type) {
	case *types.Basic:
		switch {
		case u.Info()&types.IsBoolean != 0:
			return cBool(false)
		case u.Info()&types.IsInteger != 0:
			return cInt(0)
		case u.Info()&types.IsString != 0:
			return cStr("")
		case u.Info()&types.IsFloat != 0:
			return &Const{V: constant.MakeFloat64(0)}
		}
	case *types.Pointer, *types.Slice, *types.Map, *types.Chan, *types.Interface, *types.Signature:
		return cNil()
	case *types.Struct, *types.Array:
		return &Const{Zero: t}
	}
	return &Expr{Op: "unknown", Name: "zero", T: t}
}

// ---- evaluation ------------------------------------------------------------------------------

func (it *interp) eval(st *state, fr *frame, v ssa.Value) AV {
	if a, ok := fr.env[v]; ok {
		return a
	}
	switch v := v.(type) {
	case *ssa.Const:
		if v.Value == nil {
			t := v.Type()
			switch t.Underlying().(type) {
			case *types.Struct, *types.Array:
				return &Const{Zero: t}
			case *types.Basic:
				return zeroOf(t)
			}
			return cNil()
		}
		return &Const{V: v.Value}
	case *ssa.Parameter:
		e := &Expr{Op: "param", Name: paramName(v), T: v.Type()}
		if x, ok := it.valLookup(e.Key()); ok {
			return x
		}
		return e
	case *ssa.FreeVar:
		return &Addr{K: "FV:" + paramName(v)}
	case *ssa.Global:
		return &Addr{K: "G:" + v.Pkg.Pkg.Name() + "." + memberName(v)}
	case *ssa.Function:
		return &FuncV{Fn: v}
	case *ssa.Builtin:
		return &Expr{Op: "builtin", Name: v.Name()}
	}
	// an instruction value not yet in env (e.g. defined in an unvisited block): unknown
	return &Expr{Op: "unknown", Name: v.Name(), T: v.Type()}
}

func (it *interp) allocKey(a *ssa.Alloc) string {
	fn := a.Parent()
	idx := 0
	for i, l := range fn.Locals {
		if l == a {
			idx = i
		}
	}
	if a.Heap {
		n := 0
	outer:
		for _, b := range fn.Blocks {
			for _, in := range b.Instrs {
				if x, ok := in.(*ssa.Alloc); ok && x.Heap {
					if x == a {
						idx = n
						break outer
					}
					n++
				}
			}
		}
		return fmt.Sprintf("H:%s:%s:%d", it.prog.rawName(fn), a.Comment, idx)
	}
	return fmt.Sprintf("L:%s:%s:%d", it.prog.rawName(fn), a.Comment, idx)
}

func derefType(t types.Type) types.Type {
	if p, ok := t.Underlying().(*types.Pointer); ok {
		return p.Elem()
	}
	return t
}

func (it *interp) evalInstr(st *state, fr *frame, in ssa.Value) AV {
	switch v := in.(type) {
	case *ssa.Alloc:
		k := it.allocKey(v)
		// fresh zero value
		it.memStore(st, k, zeroOf(derefType(v.Type())))
		return &Addr{K: k}
	case *ssa.FieldAddr:
		base := it.eval(st, fr, v.X)
		stt := derefType(v.X.Type()).Underlying().(*types.Struct)
		fname := fieldName(stt.Field(v.Field))
		var grp types.Type
		if fname == "" {
			grp = stt.Field(v.Field).Type()
		}
		if ad, ok := base.(*Addr); ok {
			return &Addr{K: joinField(ad.K, fname), Grp: grp}
		}
		return &Addr{K: joinField(typeShort(v.X.Type()), fname), Grp: grp}
	case *ssa.Field:
		base := it.eval(st, fr, v.X)
		stt := v.X.Type().Underlying().(*types.Struct)
		return it.project(base, fieldName(stt.Field(v.Field)), v.Type())
	case *ssa.IndexAddr:
		base := it.eval(st, fr, v.X)
		idx := it.eval(st, fr, v.Index)
		if ad, ok := base.(*Addr); ok {
			if ci, ok := avInt(idx); ok {
				return &Addr{K: fmt.Sprintf("%s[%d]", ad.K, ci)}
			}
			return &Addr{K: ad.K + "[" + idx.Key() + "]"}
		}
		return &Addr{K: "elem(" + base.Key() + ")[" + idx.Key() + "]"}
	case *ssa.Index:
		return &Expr{Op: "index", Args: []AV{it.eval(st, fr, v.X), it.eval(st, fr, v.Index)}, T: v.Type()}
	case *ssa.Lookup:
		e := &Expr{Op: "lookup", Name: it.siteID(v), Args: []AV{it.eval(st, fr, v.X), it.eval(st, fr, v.Index)}, T: v.Type()}
		if v.CommaOk {
			return &Tuple{Elems: []AV{e, &Expr{Op: "lookupok", Name: it.siteID(v)}}}
		}
		return e
	case *ssa.UnOp:
		x := it.eval(st, fr, v.X)
		switch v.Op {
		case token.MUL:
			if ad, ok := x.(*Addr); ok {
				return it.load(st, ad, v.Type())
			}
			return &Expr{Op: "load", Name: "*" + x.Key(), Args: []AV{x}, T: v.Type()}
		case token.NOT:
			if b, ok := avBool(x); ok {
				return cBool(!b)
			}
			if e, ok := x.(*Expr); ok && e.Op == "unop" && e.Name == "!" {
				return e.Args[0]
			}
			return &Expr{Op: "unop", Name: "!", Args: []AV{x}, T: v.Type()}
		case token.SUB:
			if i, ok := avInt(x); ok {
				return cInt(-i)
			}
			return &Expr{Op: "unop", Name: "-", Args: []AV{x}, T: v.Type()}
		case token.ARROW:
			ev := &Event{Kind: "recv", Chan: x, Instr: v, In: fr.fn, Blocking: true, NDec: len(st.decs)}
			st.events = append(st.events, ev)
			e := &Expr{Op: "recv", Name: it.siteID(v), Args: []AV{x}, T: v.Type()}
			if v.CommaOk {
				return &Tuple{Elems: []AV{e, &Expr{Op: "recvok", Name: it.siteID(v)}}}
			}
			return e
		case token.XOR:
			return &Expr{Op: "unop", Name: "^", Args: []AV{x}, T: v.Type()}
		}
		return &Expr{Op: "unop", Name: v.Op.String(), Args: []AV{x}, T: v.Type()}
	case *ssa.BinOp:
		return it.binop(v.Op, it.eval(st, fr, v.X), it.eval(st, fr, v.Y), v.Type())
	case *ssa.Phi:
		// phis are evaluated at jump; reaching here means entry block phi (impossible)
		return &Expr{Op: "unknown", Name: "phi"}
	case *ssa.Extract:
		t := it.eval(st, fr, v.Tuple)
		if tp, ok := t.(*Tuple); ok && v.Index < len(tp.Elems) {
			return tp.Elems[v.Index]
		}
		e := &Expr{Op: "extract", Name: fmt.Sprint(v.Index), Args: []AV{t}, T: v.Type()}
		alias := e.Key()
		if ce, ok := t.(*Expr); ok && ce.Op == "call" {
			if i := strings.Index(ce.Name, "@"); i >= 0 {
				alias = "call:" + ce.Name[:i] + "#" + fmt.Sprint(v.Index)
			}
		}
		if x, ok := it.valLookup(e.Key(), alias); ok {
			return x
		}
		return e
	case *ssa.ChangeType:
		return it.eval(st, fr, v.X)
	case *ssa.ChangeInterface:
		return it.eval(st, fr, v.X)
	case *ssa.MakeInterface:
		return it.eval(st, fr, v.X)
	case *ssa.Convert:
		x := it.eval(st, fr, v.X)
		if c, ok := x.(*Const); ok && !c.IsNil && c.V != nil {
			return convertConst(c, v.Type())
		}
		// string(b) / []byte(s) / numeric conversions: keep operand identity but mark
		return &Expr{Op: "convert", Name: types.TypeString(v.Type(), func(p *types.Package) string { return p.Name() }), Args: []AV{x}, T: v.Type()}
	case *ssa.SliceToArrayPointer, *ssa.MultiConvert:
		return &Expr{Op: "convert", Name: "multi", T: v.Type()}
	case *ssa.Slice:
		x := it.eval(st, fr, v.X)
		var lo, hi, mx AV
		if v.Low != nil {
			lo = it.eval(st, fr, v.Low)
		}
		if v.High != nil {
			hi = it.eval(st, fr, v.High)
		}
		if v.Max != nil {
			mx = it.eval(st, fr, v.Max)
		}
		return &Expr{Op: "slice", Args: []AV{x, lo, hi, mx}, T: v.Type()}
	case *ssa.MakeClosure:
		c := &Closure{Fn: v.Fn.(*ssa.Function)}
		for _, b := range v.Bindings {
			c.Bind = append(c.Bind, it.eval(st, fr, b))
		}
		return c
	case *ssa.MakeChan:
		return &Expr{Op: "makechan", Name: it.siteID(v), Args: []AV{it.eval(st, fr, v.Size)}, T: v.Type()}
	case *ssa.MakeMap:
		return &Expr{Op: "makemap", Name: it.siteID(v), T: v.Type()}
	case *ssa.MakeSlice:
		return &Expr{Op: "makeslice", Name: it.siteID(v), Args: []AV{it.eval(st, fr, v.Len), it.eval(st, fr, v.Cap)}, T: v.Type()}
	case *ssa.TypeAssert:
		x := it.eval(st, fr, v.X)
		e := &Expr{Op: "typeassert", Name: types.TypeString(v.AssertedType, func(p *types.Package) string { return p.Name() }), Args: []AV{x}, T: v.AssertedType}
		if v.CommaOk {
			return &Tuple{Elems: []AV{e, &Expr{Op: "assertok", Name: it.siteID(v), Args: []AV{x}}}}
		}
		return e
	case *ssa.Range:
		return &Expr{Op: "range", Name: it.siteID(v), Args: []AV{it.eval(st, fr, v.X)}}
	case *ssa.Next:
		return &Tuple{Elems: []AV{&Expr{Op: "nextok", Name: it.siteID(v)}, &Expr{Op: "nextkey", Name: it.siteID(v)}, &Expr{Op: "nextval", Name: it.siteID(v)}}}
	}
	return &Expr{Op: "unknown", Name: in.Name(), T: in.Type()}
}

func convertConst(c *Const, t types.Type) AV {
	b, ok := t.Underlying().(*types.Basic)
	if !ok {
		return c
	}
	if b.Info()&types.IsInteger != 0 && c.V.Kind() == constant.Int {
		i, exact := constant.Int64Val(c.V)
		if !exact {
			return c
		}
		switch b.Kind() {
		case types.Uint8:
			return cInt(int64(uint8(i)))
		case types.Uint16:
			return cInt(int64(uint16(i)))
		case types.Uint32:
			return cInt(int64(uint32(i)))
		case types.Int8:
			return cInt(int64(int8(i)))
		case types.Int16:
			return cInt(int64(int16(i)))
		case types.Int32:
			return cInt(int64(int32(i)))
		}
		return c
	}
	return c
}

var tokOp = map[token.Token]string{
	token.ADD: "+", token.SUB: "-", token.MUL: "*", token.QUO: "/", token.REM: "%",
	token.AND: "&", token.OR: "|", token.XOR: "^", token.SHL: "<<", token.SHR: ">>", token.AND_NOT: "&^",
	token.EQL: "==", token.NEQ: "!=", token.LSS: "<", token.LEQ: "<=", token.GTR: ">", token.GEQ: ">=",
}

func (it *interp) binop(op token.Token, x, y AV, t types.Type) AV {
	cx, okx := x.(*Const)
	cy, oky := y.(*Const)
	if okx && oky {
		// nil comparisons
		if cx.IsNil || cy.IsNil {
			if op == token.EQL {
				return cBool(cx.IsNil && cy.IsNil)
			}
			if op == token.NEQ {
				return cBool(!(cx.IsNil && cy.IsNil))
			}
		} else if cx.V != nil && cy.V != nil {
			switch op {
			case token.EQL, token.NEQ, token.LSS, token.LEQ, token.GTR, token.GEQ:
				if cx.V.Kind() == cy.V.Kind() || (cx.V.Kind() != constant.String && cx.V.Kind() != constant.Bool) {
					return cBool(constant.Compare(cx.V, op, cy.V))
				}
			case token.SHL, token.SHR:
				if s, ok := constInt64(cy.V); ok && cx.V.Kind() == constant.Int {
					return convertConst(&Const{V: constant.Shift(cx.V, op, uint(s))}, t)
				}
			case token.QUO:
				if cx.V.Kind() == constant.Int && cy.V.Kind() == constant.Int {
					if constant.Sign(cy.V) != 0 {
						return &Const{V: constant.BinaryOp(cx.V, token.QUO_ASSIGN, cy.V)}
					}
				}
			default:
				if cx.V.Kind() == cy.V.Kind() {
					return convertConst(&Const{V: constant.BinaryOp(cx.V, op, cy.V)}, t)
				}
			}
		}
	}
	// x & c  and  x &^ ^c  are the same mask: keep the spelling whose constant has fewer bits set (tie: "&")
	if (op == token.AND || op == token.AND_NOT) && oky && !okx && !cy.IsNil && cy.V != nil && cy.V.Kind() == constant.Int {
		if bt, ok := t.Underlying().(*types.Basic); ok && bt.Info()&types.IsUnsigned != 0 {
			width := map[types.BasicKind]uint{types.Uint8: 8, types.Uint16: 16, types.Uint32: 32, types.Uint64: 64}[bt.Kind()]
			if c, ok := constant.Uint64Val(cy.V); ok && width > 0 {
				full := ^uint64(0) >> (64 - width)
				comp := ^c & full
				nc, ncomp := bits.OnesCount64(c&full), bits.OnesCount64(comp)
				flip := false
				if op == token.AND && ncomp < nc {
					flip = true
				}
				if op == token.AND_NOT && ncomp <= nc {
					flip = true
				}
				if flip {
					nop := token.AND
					if op == token.AND {
						nop = token.AND_NOT
					}
					return &Expr{Op: "binop", Name: tokOp[nop], Args: []AV{x, &Const{V: constant.MakeUint64(comp)}}, T: t}
				}
			}
		}
	}
	// algebraic identities (x+0, x-0, x|0, x^0, x*1, x<<0)
	if oky && !cy.IsNil && cy.V != nil && cy.V.Kind() == constant.Int {
		if v, ok := constant.Int64Val(cy.V); ok {
			switch {
			case v == 0 && (op == token.ADD || op == token.SUB || op == token.OR || op == token.XOR || op == token.SHL || op == token.SHR):
				return x
			case v == 1 && (op == token.MUL || op == token.QUO):
				return x
			}
		}
	}
	if okx && !cx.IsNil && cx.V != nil && cx.V.Kind() == constant.Int {
		if v, ok := constant.Int64Val(cx.V); ok {
			switch {
			case v == 0 && (op == token.ADD || op == token.OR || op == token.XOR):
				return y
			case v == 1 && op == token.MUL:
				return y
			}
		}
	}
	// comparing an address / closure / fresh allocation with nil
	if op == token.EQL || op == token.NEQ {
		nonnil := func(a AV) bool {
			switch a := a.(type) {
			case *Addr, *Closure, *FuncV, *StructV:
				return true
			case *Expr:
				if a.Op == "call" && (strings.HasPrefix(a.Name, "fmt.Errorf@") || strings.HasPrefix(a.Name, "errors.New@")) {
					return true
				}
				// exported error variables of other packages (io.EOF, net.ErrClosed, context.Canceled …) are never nil
				if a.Op == "load" && strings.HasPrefix(a.Name, "G:") && !strings.HasPrefix(a.Name, "G:websocket.") && a.T != nil && a.T.String() == "error" {
					return true
				}
				return a.Op == "makechan" || a.Op == "makemap" || a.Op == "makeslice"
			}
			return false
		}
		if oky && cy.IsNil && nonnil(x) || okx && cx.IsNil && nonnil(y) {
			return cBool(op == token.NEQ)
		}
		if x.Key() == y.Key() {
			if _, isE := x.(*Expr); isE {
				// same symbolic value
				return cBool(op == token.EQL)
			}
		}
	}
	// (x & c) == c  with single-bit c  ≡  (x & c) != 0
	if (op == token.EQL || op == token.NEQ) && oky && !cy.IsNil && cy.V != nil {
		if xe, ok := x.(*Expr); ok && xe.Op == "binop" && xe.Name == "&" {
			if m, ok := avInt(xe.Args[1]); ok {
				if c, ok := avInt(y); ok && c == m && m > 0 && m&(m-1) == 0 {
					nop := token.NEQ
					if op == token.NEQ {
						nop = token.EQL
					}
					return &Expr{Op: "binop", Name: tokOp[nop], Args: []AV{x, cInt(0)}, T: t}
				}
			}
		}
	}
	// canonical form of comparisons between two symbolic values: only "==" and "<", operands of "==" ordered
	if !okx && !oky {
		neg := func(e AV) AV { return &Expr{Op: "unop", Name: "!", Args: []AV{e}, T: t} }
		mk := func(o string, a, b AV) AV { return &Expr{Op: "binop", Name: o, Args: []AV{a, b}, T: t} }
		switch op {
		case token.EQL, token.NEQ:
			a, b := x, y
			if a.Key() > b.Key() {
				a, b = b, a
			}
			e := mk("==", a, b)
			if op == token.NEQ {
				return neg(e)
			}
			return e
		case token.LSS:
			return mk("<", x, y)
		case token.GTR:
			return mk("<", y, x)
		case token.GEQ:
			return neg(mk("<", x, y))
		case token.LEQ:
			return neg(mk("<", y, x))
		}
	}
	return &Expr{Op: "binop", Name: tokOp[op], Args: []AV{x, y}, T: t}
}

// ---- calls ------------------------------------------------------------------------------------

func (it *interp) calleeName(st *state, fr *frame, cc *ssa.CallCommon) (string, *ssa.Function, AV) {
	if cc.IsInvoke() {
		recv := it.eval(st, fr, cc.Value)
		// devirtualise when the receiver's dynamic value is known
		name := "invoke " + typeString(cc.Value.Type()) + "." + cc.Method.Name()
		return name, nil, recv
	}
	switch v := cc.Value.(type) {
	case *ssa.Function:
		return it.fnName(v), v, nil
	case *ssa.Builtin:
		return "builtin " + v.Name(), nil, nil
	}
	fv := it.eval(st, fr, cc.Value)
	switch f := fv.(type) {
	case *Closure:
		return it.fnName(f.Fn), f.Fn, fv
	case *FuncV:
		return it.fnName(f.Fn), f.Fn, nil
	}
	return "dyn " + fv.Key(), nil, fv
}

func typeString(t types.Type) string {
	return refTypeString(t)
}

// fnName: library functions get the short name; others the qualified SSA name.
func (it *interp) fnName(fn *ssa.Function) string {
	if it.prog.isLib(fn) {
		if fn.Parent() != nil {
			return it.prog.FuncName(fn) // closures keep the name of the function their code belongs to
		}
		return it.prog.rawName(fn)
	}
	return qualName(fn)
}

func qualName(fn *ssa.Function) string {
	if fn.Signature.Recv() != nil {
		return "(" + typeString(fn.Signature.Recv().Type()) + ")." + fn.Name()
	}
	if fn.Pkg != nil {
		return fn.Pkg.Pkg.Name() + "." + fn.Name()
	}
	if fn.Object() != nil && fn.Object().Pkg() != nil {
		return fn.Object().Pkg().Name() + "." + fn.Name()
	}
	return fn.Name()
}

func (it *interp) callEvent(st *state, fr *frame, cc *ssa.CallCommon, in ssa.Instruction) *Event {
	name, fn, recv := it.calleeName(st, fr, cc)
	ev := &Event{Kind: "call", Callee: name, Fn: fn, Instr: in, In: fr.fn, Depth: len(st.frames) - 1, NDec: len(st.decs)}
	if cc.IsInvoke() {
		ev.Args = append(ev.Args, recv)
	} else if cl, ok := recv.(*Closure); ok {
		ev.Val = cl
	} else if recv != nil {
		ev.Val = recv
	}
	for _, a := range cc.Args {
		ev.Args = append(ev.Args, it.eval(st, fr, a))
	}
	canonAtomic(ev)
	return ev
}

// canonAtomic: the typed values of sync/atomic (atomic.Int32/Int64/Bool, Go 1.19) are the function forms on a plain integer:
// x.Store(v) ≡ atomic.StoreInt64(&x, v), x.Load() ≡ atomic.LoadInt64(&x), x.Add(d) ≡ atomic.AddInt64(&x, d); a Bool is the
// flag 0/1 (Store(true) ≡ StoreInt64(&x, 1); Load() ≡ LoadInt64(&x) == 1, see doCall).
func canonAtomic(ev *Event) {
	const pre = "(*sync/atomic."
	if !strings.HasPrefix(ev.Callee, pre) && !strings.HasPrefix(ev.Callee, "(*atomic.") {
		return
	}
	rest := strings.TrimPrefix(strings.TrimPrefix(ev.Callee, pre), "(*atomic.")
	i := strings.Index(rest, ").")
	if i < 0 {
		return
	}
	typ, meth := rest[:i], rest[i+2:]
	switch meth {
	case "Store", "Load", "Add", "Swap", "CompareAndSwap":
	default:
		return
	}
	switch typ {
	case "Int32", "Int64", "Uint32", "Uint64":
		ev.Callee = "atomic." + meth + typ
	case "Bool":
		if meth != "Store" && meth != "Load" {
			return
		}
		ev.Callee = "atomic." + meth + "Int64"
		ev.boolFlag = true
		if meth == "Store" && len(ev.Args) == 2 {
			if b, ok := avBool(ev.Args[1]); ok {
				if b {
					ev.Args[1] = cInt(1)
				} else {
					ev.Args[1] = cInt(0)
				}
			}
		}
	}
}

func (it *interp) doCall(st *state, fr *frame, in *ssa.Call) bool {
	cc := &in.Call
	// builtins
	if b, ok := cc.Value.(*ssa.Builtin); ok {
		var args []AV
		for _, a := range cc.Args {
			args = append(args, it.eval(st, fr, a))
		}
		switch b.Name() {
		case "len", "cap":
			if s, ok := avStr(args[0]); ok && b.Name() == "len" {
				fr.env[in] = cInt(int64(len(s)))
				return true
			}
			if c, ok := args[0].(*Const); ok && c.IsNil {
				fr.env[in] = cInt(0) // len and cap of a nil slice / map / channel
				return true
			}
			if e, ok := args[0].(*Expr); ok && e.Op == "slice" {
				// len(x[lo:hi]) with constant bounds
				if hi, ok := avInt(e.Args[2]); ok && e.Args[2] != nil {
					lo := int64(0)
					if e.Args[1] != nil {
						if l, ok := avInt(e.Args[1]); ok {
							lo = l
						} else {
							goto symbolic
						}
					}
					if b.Name() == "len" {
						fr.env[in] = cInt(hi - lo)
						return true
					}
				}
			}
		symbolic:
			e := &Expr{Op: b.Name(), Args: []AV{args[0]}, T: in.Type()}
			keys := []string{e.Key()}
			// the length of a call result may be valued per constant string argument of the call:
			// len(call:(http.Header).Values["Sec-WebSocket-Key"]) is only that header's line count
			if ce, ok := args[0].(*Expr); ok && ce.Op == "call" {
				if i := strings.Index(ce.Name, "@"); i >= 0 {
					for _, a := range ce.Args {
						if sv, ok := avStr(a); ok {
							keys = append([]string{b.Name() + "(call:" + ce.Name[:i] + "[" + strconv.Quote(sv) + "])"}, keys...)
						}
					}
				}
			}
			if v, ok := it.valLookup(keys...); ok {
				fr.env[in] = v
			} else {
				fr.env[in] = e
			}
			return true
		default:
			ev := &Event{Kind: "call", Callee: "builtin " + b.Name(), Args: args, Instr: in, In: fr.fn, Depth: len(st.frames) - 1, NDec: len(st.decs)}
			ev.Res = &Expr{Op: "call", Name: "builtin " + b.Name() + "@" + it.siteID(in), Args: args, T: in.Type()}
			st.events = append(st.events, ev)
			fr.env[in] = ev.Res
			return true
		}
	}
	ev := it.callEvent(st, fr, cc, in)
	if ev.Fn != nil && len(ev.Fn.Blocks) > 0 && (it.opts.Inline != nil && it.opts.Inline(ev.Fn, len(st.frames)) || it.seeThroughAt(st, ev.Fn, len(st.frames))) {
		it.pushFrame(st, ev, in, false)
		return true
	}
	if ev.Callee == "strings.Join" && len(ev.Args) == 2 {
		if sep, ok := avStr(ev.Args[1]); ok {
			if parts, ok := it.strList(st, ev.Args[0], 0); ok {
				folded := cStr(strings.Join(parts, sep))
				ev.Res = folded
				st.events = append(st.events, ev)
				fr.env[in] = folded
				return true
			}
		}
	}
	if folded := foldPure(ev); folded != nil {
		ev.Res = folded
		st.events = append(st.events, ev)
		fr.env[in] = folded
		return true
	}
	res := AV(&Expr{Op: "call", Name: ev.Callee + "@" + it.siteID(in), Args: ev.Args, T: in.Type()})
	if x, ok := it.valLookup(res.Key(), "call:"+ev.Callee); ok {
		res = x
	}
	if ev.boolFlag && ev.Callee == "atomic.LoadInt64" {
		// an atomic.Bool read as the integer flag it replaces
		if c, ok := avInt(res); ok {
			res = cBool(c == 1)
		} else {
			res = &Expr{Op: "binop", Name: "==", Args: []AV{res, cInt(1)}, T: in.Type()}
		}
	}
	ev.Res = res
	// havoc: a pointer to a local/heap allocation that escapes into an opaque callee may be written there
	for _, a := range ev.Args {
		if ad, ok := a.(*Addr); ok && (strings.HasPrefix(ad.K, "H:") || strings.HasPrefix(ad.K, "L:")) && ev.Callee != "errd.Wrap" {
			pre := ad.K + "."
			for mk := range st.mem {
				if mk == ad.K || strings.HasPrefix(mk, pre) {
					delete(st.mem, mk)
				}
			}
		}
	}
	// havoc of heap fields: values this path stored into type.field locations are forgotten when an
	// opaque library callee may (transitively) store the same field
	if ev.Fn != nil && it.prog.isLib(ev.Fn) {
		for f := range it.prog.mayStore(ev.Fn) {
			pre := f + "."
			for mk := range st.mem {
				if mk == f || strings.HasPrefix(mk, pre) || strings.HasPrefix(f, mk+".") {
					delete(st.mem, mk)
				}
			}
		}
	}
	if it.opts.CallResult != nil {
		if r := it.opts.CallResult(ev); r != nil {
			ev.Res = r
		}
	}
	st.events = append(st.events, ev)
	fr.env[in] = ev.Res
	return true
}

func (it *interp) pushFrame(st *state, ev *Event, call ssa.Instruction, fromDefer bool) {
	fn := ev.Fn
	nf := &frame{fn: fn, env: map[ssa.Value]AV{}, block: fn.Blocks[0], visited: map[*ssa.BasicBlock]int{fn.Blocks[0]: 1}, call: call, fromDefer: fromDefer}
	for i, prm := range fn.Params {
		if i < len(ev.Args) {
			nf.env[prm] = ev.Args[i]
		}
	}
	if cl, ok := ev.Val.(*Closure); ok {
		for i, fv := range fn.FreeVars {
			if i < len(cl.Bind) {
				nf.env[fv] = cl.Bind[i]
			}
		}
	}
	ie := *ev
	ie.Kind = "inline-enter"
	ie.Deferred = fromDefer
	st.events = append(st.events, &ie)
	st.frames = append(st.frames, nf)
}

// execDeferred runs one deferred call at RunDefers.
func (it *interp) execDeferred(st *state, fr *frame, d *Event) bool {
	it.calledFromNewHelper = false
	if d.Fn != nil && len(d.Fn.Blocks) > 0 && (it.opts.Inline != nil && it.opts.Inline(d.Fn, len(st.frames)) || it.seeThrough(d.Fn, len(st.frames))) {
		it.pushFrame(st, d, d.Instr, true)
		return true
	}
	ev := *d
	ev.Kind = "call"
	ev.Deferred = true
	ev.NDec = len(st.decs)
	ev.Res = &Expr{Op: "call", Name: ev.Callee + "@deferred:" + it.siteID(d.Instr), Args: ev.Args}
	st.events = append(st.events, &ev)
	return false
}

// mayStore: type.field keys that fn may store, transitively through static library calls and the
// frozen dynamic-dispatch / re-entry tables.
func (p *Program) mayStore(fn *ssa.Function) map[string]bool {
	if p.storeCache == nil {
		p.storeCache = map[*ssa.Function]map[string]bool{}
		direct := map[*ssa.Function]map[string]bool{}
		for _, f := range p.Funcs {
			m := map[string]bool{}
			for _, b := range f.Blocks {
				for _, in := range b.Instrs {
					st, ok := in.(*ssa.Store)
					if !ok {
						continue
					}
					// key of the stored address when it is a (nested) field of a non-local base
					var parts []string
					v := st.Addr
					for {
						fa, ok := v.(*ssa.FieldAddr)
						if !ok {
							break
						}
						parts = append([]string{fieldName(fieldOf(fa))}, parts...)
						if inner, ok := fa.X.(*ssa.FieldAddr); ok {
							v = inner
							continue
						}
						if _, isAlloc := fa.X.(*ssa.Alloc); !isAlloc {
							parts = append([]string{typeShort(fa.X.Type())}, parts...)
							m[strings.Join(parts, ".")] = true
						}
						break
					}
				}
			}
			direct[f] = m
		}
		cg := buildCallGraph(p)
		for _, f := range p.Funcs {
			p.storeCache[f] = map[string]bool{}
			for k := range direct[f] {
				p.storeCache[f][k] = true
			}
		}
		for changed := true; changed; {
			changed = false
			for _, f := range p.Funcs {
				for _, e := range cg.Edges[f] {
					if e.Async {
						continue
					}
					for k := range p.storeCache[e.To] {
						if !p.storeCache[f][k] {
							p.storeCache[f][k] = true
							changed = true
						}
					}
				}
			}
		}
	}
	return p.storeCache[fn]
}

// seeThrough: a library function that is not an anchor of the reference tree (an extracted helper) is
// transparent: it is inlined when it is loop-free and the inline depth is small.
func (it *interp) seeThroughAt(st *state, fn *ssa.Function, depth int) bool {
	it.calledFromNewHelper = false
	if n := len(st.frames); n > 1 {
		top := st.frames[n-1].fn
		it.calledFromNewHelper = top.Parent() == nil && !knownFuncs[it.prog.rawName(top)] && it.prog.isLib(top)
	}
	return it.seeThrough(fn, depth)
}

func (it *interp) seeThrough(fn *ssa.Function, depth int) bool {
	if depth > 4 || !it.prog.isLib(fn) {
		return false
	}
	if knownFuncs[it.prog.rawName(fn)] {
		return false
	}
	if fn.Parent() != nil {
		// a closure the reference tree does not have, handed to a higher-order helper that is itself new (containsFunc(xs,
		// func(x) bool {…})): the predicate is new code of the function that wrote it and is looked through where the helper calls it
		return it.calledFromNewHelper
	}
	// loops of the helper are cut and unrolled like those of the function it was extracted from (per frame)
	return true
}

// ---- helpers for rules ------------------------------------------------------------------------

// mentions reports whether the expression tree of a contains a sub-expression satisfying pred.
func mentions(a AV, pred func(AV) bool) bool {
	if a == nil {
		return false
	}
	if pred(a) {
		return true
	}
	switch x := a.(type) {
	case *Expr:
		for _, s := range x.Args {
			if mentions(s, pred) {
				return true
			}
		}
	case *Tuple:
		for _, s := range x.Elems {
			if mentions(s, pred) {
				return true
			}
		}
	case *StructV:
		for _, s := range x.Fields {
			if mentions(s, pred) {
				return true
			}
		}
	case *Closure:
		for _, s := range x.Bind {
			if mentions(s, pred) {
				return true
			}
		}
	}
	return false
}

func mentionsKey(a AV, key string) bool {
	return mentions(a, func(x AV) bool { return x.Key() == key })
}

// stripConv removes conversions.
func stripConv(a AV) AV {
	for {
		if e, ok := a.(*Expr); ok && e.Op == "convert" && len(e.Args) == 1 {
			a = e.Args[0]
			continue
		}
		return a
	}
}

// isNilErr classifies an abstract error value: +1 definitely non-nil, -1 definitely nil, 0 unknown.
func nilness(a AV, p *Path) int {
	if c, ok := a.(*Const); ok {
		if c.IsNil {
			return -1
		}
		return 1
	}
	// decided on the path?
	if p != nil {
		k := "(" + a.Key() + " == nil)"
		if v, ok := p.Decided(k); ok {
			if v {
				return -1
			}
			return 1
		}
	}
	if e, ok := a.(*Expr); ok && e.Op == "call" {
		n := e.Name
		if strings.HasPrefix(n, "fmt.Errorf@") || strings.HasPrefix(n, "errors.New@") {
			return 1
		}
	}
	if _, ok := a.(*StructV); ok {
		return 1
	}
	return 0
}

func sortedKeys(m map[string]bool) []string {
	var s []string
	for k := range m {
		s = append(s, k)
	}
	sort.Strings(s)
	return s
}

// strList resolves a []string value built on this path from constant strings: a slice over a local array whose
// elements were stored constants (a composite literal or a variadic argument list), nil, and append(list, list...).
func (it *interp) strList(st *state, a AV, depth int) ([]string, bool) {
	if depth > 8 {
		return nil, false
	}
	switch x := a.(type) {
	case *Const:
		if x.IsNil {
			return nil, true
		}
	case *Expr:
		switch {
		case x.Op == "slice" && len(x.Args) == 4:
			ad, ok := x.Args[0].(*Addr)
			if !ok || !isLocalAllocKey(ad.K) {
				return nil, false
			}
			limit := int64(-1)
			if x.Args[2] != nil {
				if limit, ok = avInt(x.Args[2]); !ok {
					return nil, false
				}
			}
			if x.Args[1] != nil {
				if lo, ok := avInt(x.Args[1]); !ok || lo != 0 {
					return nil, false
				}
			}
			var out []string
			for i := 0; limit < 0 || int64(i) < limit; i++ {
				v, ok := st.mem[fmt.Sprintf("%s[%d]", ad.K, i)]
				if !ok {
					v, ok = st.mem[fmt.Sprintf("elem(%s)[%d]", x.Key(), i)]
				}
				if !ok {
					if limit >= 0 {
						return nil, false // an element of the literal is unknown
					}
					break
				}
				s, isS := avStr(v)
				if !isS {
					return nil, false
				}
				out = append(out, s)
			}
			return out, true
		case x.Op == "call" && strings.HasPrefix(x.Name, "builtin append@") && len(x.Args) == 2:
			l, ok1 := it.strList(st, x.Args[0], depth+1)
			r, ok2 := it.strList(st, x.Args[1], depth+1)
			if ok1 && ok2 {
				return append(append([]string{}, l...), r...), true
			}
		}
	}
	return nil, false
}

// foldPure folds calls of a few pure standard-library string predicates on constant arguments.
func foldPure(ev *Event) AV {
	if len(ev.Args) != 2 {
		if len(ev.Args) == 1 {
			if a, ok := avStr(ev.Args[0]); ok {
				switch ev.Callee {
				case "strings.ToLower":
					return cStr(strings.ToLower(a))
				case "strings.TrimSpace":
					return cStr(strings.TrimSpace(a))
				}
			}
		}
		return nil
	}
	a, ok1 := avStr(ev.Args[0])
	b, ok2 := avStr(ev.Args[1])
	if !ok1 || !ok2 {
		return nil
	}
	switch ev.Callee {
	case "strings.HasPrefix":
		return cBool(strings.HasPrefix(a, b))
	case "strings.HasSuffix":
		return cBool(strings.HasSuffix(a, b))
	case "strings.Contains":
		return cBool(strings.Contains(a, b))
	case "strings.EqualFold":
		return cBool(strings.EqualFold(a, b))
	case "strings.TrimPrefix":
		return cStr(strings.TrimPrefix(a, b))
	case "strings.TrimSuffix":
		return cStr(strings.TrimSuffix(a, b))
	case "strings.Trim":
		return cStr(strings.Trim(a, b))
	}
	return nil
}
