package main

import (
	"sort"
	"fmt"
	"go/token"
	"go/types"
	"strings"

	"golang.org/x/tools/go/ssa"
)

func init() {
	register("C03", propInfo{
		Explanation: "Static decision of the structural clauses of C03 (inbound decoding, rejection, no panic): the accept/reject/dispatch decision of readLoop, handleControl, reader, msgReader.read, readFrameHeader and parseClosePayload is extracted from the SSA as a total decision table over all values of the header fields, role and negotiation state (finite predicate abstraction, regions cut at every constant the code compares with) and compared row by row with an oracle table transcribed from RFC 6455 §5.2/§5.5/§7.4 and RFC 7692 §6; every read of frame bytes is a full read; peer-controlled integers reach slice bounds only under a dominating check. No library code is executed.",
		Decides: []string{
			"C03.echo.bytesErr (= C02.close.bytesErr): whatever parseClosePayload accepts can be marshalled for the echo",
			"C03.loop: readLoop rejects rsv2/rsv3, rsv1 unless negotiated and opcode∈{1,2}, masked==client (wrong masking for the role), unknown opcodes; dispatches 8/9/10 to handleControl; delivers 0/1/2",
			"C03.ctl: handleControl rejects payloadLength∉[0,125] and !fin with 1002 before reading; payload is read into readControlBuf[:payloadLength]",
			"C03.seq: reader requires previous message finished and opcode≠continuation; msgReader.read requires continuation; violations answered with 1002",
			"C03.hdr: readFrameHeader bit masks, 7/16/64-bit length selection with big-endian decoding, negative length rejected, mask key read iff masked",
			"C03.closepayload: parseClosePayload: empty→1005, 1 byte→reject, code big-endian, invalid wire code→reject",
			"C03.full: every read of frame bytes from Conn.br is ReadByte or io.ReadFull",
			"C03.taint: slice bounds / indices derived from wire integers are dominated by a bound check; no allocation is sized by a wire integer",
		},
		NotDecided: []string{"equality of delivered content with the sender's messages", "BFINAL=1 endings and behaviour of compress/flate and bufio on hostile bytes (trusted)", "every-chunking equivalence beyond full reads"},
		Trusted:    []string{"go/types, go/ssa (x/tools v0.29.0)", "bufio.Reader.ReadByte / io.ReadFull contracts", "oracle tables from RFC 6455 §5.2, §5.5, §7.4; RFC 7692 §6"},
		Assumptions: []string{"instance-insensitive field identity: one Conn per object graph (checked at constructors by C05)"},
	}, runC03)
}

func runC03(p *Program, r *Report) {
	c03loop(p, r, "C03.loop")
	c03ctl(p, r, "C03.ctl")
	c03fail(p, r, "C03.fail")
	c04eom(p, r, "C03.eom")
	c03seq(p, r, "C03.seq")
	c03hdr(p, r, "C03.hdr")
	c03closepayload(p, r, "C03.closepayload")
	c03full(p, r, "C03.full")
	c03taint(p, r, "C03.taint")
	c01dict(p, r, "C03.flate")
	c14side(p, r, "C03.side")
	c14sideUse(p, r, "C03.side.use")
	c04state(p, r, "C03.state")
	cReasons(p, r, "C03.reasons")
	c03flatefail(p, r, "C03.fail.flate")
	// the echo of a received close frame is marshalled by bytesErr: whatever parseClosePayload accepts must be sendable (seed C03-M)
	shareAs(r, "C03.echo.bytesErr", "C03.echo.bytesErr", func(sub *Report) { c02close(p, sub, "C03.echo") })
	// frames that arrive in the same packet as the handshake (server side)
	sub := newReport(r.Prop, r.Tier)
	c11gate(p, sub, "C03.handoff")
	for _, o := range sub.Obls {
		if o.Rule == "C11.buf" {
			o.Rule = "C03.handoff"
			o.Key = strings.Replace(o.Key, "C11.buf", "C03.handoff", 1)
			r.add(o)
		}
	}
}

// opcodeCandidates: regions of the opcode line cut at every constant compared in the functions.
func opcodeCandidates(fns ...*ssa.Function) []int64 {
	return candidates(intConstsCompared(fns...), 0, 1, 2, 3, 7, 8, 9, 10, 11, 15)
}

func c03loop(p *Program, r *Report, rule string) {
	fn := p.Func("Conn.readLoop")
	rsvIll := p.FuncOpt("Conn.readRSV1Illegal")
	flate := p.FuncOpt("Conn.flate")
	if fn == nil {
		return
	}
	ops := []int64{}
	for _, o := range opcodeCandidates(fn, rsvIll) {
		if o >= 0 && o <= 16 {
			ops = append(ops, o)
		}
	}
	atoms := []Atom{boolAtom("header.rsv1"), boolAtom("header.rsv2"), boolAtom("header.rsv3"),
		nilAtom("Conn.copts"), boolAtom("Conn.client"), boolAtom("header.masked"), intAtom("header.opcode", ops)}
	p.runTable(r, tableSpec{
		Rule: rule, Fn: fn, Atoms: atoms,
		Inline: p.inlineSet("Conn.readRSV1Illegal", "Conn.flate"),
		Decide: func(v Valuation) func(string, AV) (bool, bool) {
			return func(key string, cond AV) (bool, bool) {
				// the frame header was read successfully
				if keyIs(cond, "(call:Conn.readFrameHeader@@#1 == nil)") || key == "(call:Conn.readFrameHeader#1 == nil)" || strings.HasPrefix(key, "(call:Conn.readFrameHeader@") {
					return true, true
				}
				return false, false
			}
		},
		Classify: func(v Valuation, pa *Path) string {
			if hc := pa.Calls("Conn.handleControl"); len(hc) > 0 {
				ok, known := pa.Decided("(" + hc[0].Res.Key() + " == nil)")
				if known && ok && pa.End != "loop" {
					return "CONTROL-THEN-" + pa.End // a handled control frame must not end the loop (it would be delivered as data)
				}
				if known && !ok && (pa.End != "return" || retErr(pa) != "nonnil") {
					return "CONTROL-ERROR-SWALLOWED"
				}
				return "CONTROL"
			}
			if pa.End == "loop" {
				return "SKIP"
			}
			if pa.End != "return" {
				return pa.End
			}
			switch retErr(pa) {
			case "nil":
				// delivered: the returned header must be the one just read
				if keyHas(pa.Ret[0], "call:Conn.readFrameHeader@") {
					return "DELIVER"
				}
				return "DELIVER-OTHER-HEADER"
			case "nonnil":
				return "REJECT"
			}
			return "UNKNOWN-ERR"
		},
		Oracle: func(v Valuation) []string {
			negotiated := !v.Nil("Conn.copts")
			op := v.Int("header.opcode")
			if v.Bool("header.rsv2") || v.Bool("header.rsv3") {
				return []string{"REJECT"}
			}
			if v.Bool("header.rsv1") && !(negotiated && (op == 1 || op == 2)) {
				return []string{"REJECT"}
			}
			if v.Bool("header.masked") == v.Bool("Conn.client") {
				return []string{"REJECT"}
			}
			switch op {
			case 0, 1, 2:
				return []string{"DELIVER"}
			case 8, 9, 10:
				return []string{"CONTROL"}
			}
			return []string{"REJECT"}
		},
		What: "RFC 6455 §5.2/§5.5, RFC 7692 §6 accept/reject/dispatch decision of one received frame header",
	})
	_ = flate

	// rejects for reserved bits and unknown opcodes are answered with a 1002 close
	p.forAllPaths(r, rule+".1002", fn, "rsv/opcode rejections send 1002", Opts{Inline: p.inlineSet("Conn.readRSV1Illegal", "Conn.flate")},
		"every rejection for reserved bits or an unknown opcode calls writeError(StatusProtocolError)", func(pa *Path) (bool, string) {
			for _, e := range pa.Calls("Conn.writeError") {
				if i, ok := avInt(e.Args[1]); !ok || i != 1002 {
					return false, "writeError with code " + argKey(e, 1)
				}
			}
			return true, ""
		})
}

// c03fail: a rejected frame fails the connection (RFC 6455 §7.1.7): the header of the frame was consumed, its payload
// was not, so nothing that follows on the transport may be parsed as frames.
func c03fail(p *Program, r *Report, rule string) {
	if fn := p.FuncOpt("Conn.writeError"); fn == nil {
		// writeError was inlined into its callers: each inlined site is writeClose(code, err.Error()) followed by closing the transport
		for _, name := range []string{"Conn.readLoop", "Conn.handleControl", "Conn.reader", "msgReader.read", "limitReader.Read"} {
			cf := p.FuncOpt(name)
			if cf == nil {
				continue
			}
			p.forAllPaths(r, rule+".close", cf, "close frame, then the transport (inlined writeError)", Opts{Unroll: 1}, "every failure close written by "+name+" (writeClose(code, err.Error())) is followed by closing the transport", func(pa *Path) (bool, string) {
				for _, we := range pa.Calls("Conn.writeError") {
					idx := eventIndex(pa, 0, func(e *Event) bool { return e.Instr == we.Instr })
					ok := false
					if idx >= 0 {
						for _, e := range pa.Events[idx+1:] {
							if isCall(e, "Conn.closeTransport", "Conn.close") {
								ok = true
							}
						}
					}
					if !ok {
						return false, "a failure close is not followed by closing the transport"
					}
				}
				return true, ""
			})
		}
	} else {
		p.forAllPaths(r, rule+".close", fn, "close frame, then the transport", Opts{},
			"writeError writes the close frame (writeClose(code, err.Error())) and then closes the transport on every path: after a failure close the next read cannot parse the rejected frame's payload as frames", func(pa *Path) (bool, string) {
				wc := eventIndex(pa, 0, func(e *Event) bool { return isCall(e, "Conn.writeClose", "Conn.writeCloseCtx") })
				ct := eventIndex(pa, 0, func(e *Event) bool { return isCall(e, "Conn.closeTransport", "Conn.close") })
				if wc < 0 {
					return false, "no close frame"
				}
				if ct < 0 || ct < wc {
					return false, "the transport is not closed after the close frame: the connection stays readable"
				}
				return true, ""
			})
	}
	if fn := p.Func("Conn.readLoop"); fn != nil {
		p.forAllPaths(r, rule+".reject", fn, "every rejection of a received header fails the connection", Opts{Unroll: 1, Inline: p.inlineSet("Conn.readRSV1Illegal", "Conn.flate")},
			"after readFrameHeader succeeded, readLoop returns an error it created itself (reserved bits, wrong masking for the role, unknown opcode) only after writeError: the rejected frame's payload is still unread", func(pa *Path) (bool, string) {
				if pa.End != "return" || retErr(pa) != "nonnil" {
					return true, ""
				}
				ok, known := decidedLike(pa, "call:Conn.readFrameHeader@@#1 == nil")
				if !known || !ok {
					return true, "" // the header read failed: Conn.readFrameHeader closes the transport (C03.fail.header)
				}
				// errors passed on from handleControl are handleControl's business (C03.ctl)
				if len(pa.Calls("Conn.handleControl")) > 0 {
					return true, ""
				}
				if len(pa.Calls("Conn.writeError")) == 0 && len(pa.Calls("Conn.closeTransport")) == 0 && len(pa.Calls("Conn.close")) == 0 {
					return false, "a frame is rejected (" + pa.Ret[1].Key() + ") without failing the connection"
				}
				return true, ""
			})
	}
	if fn := p.Func("Conn.readFramePayload"); fn != nil {
		p.forAllPaths(r, rule+".payload", fn, "a transport failure in the middle of a payload closes the transport", Opts{},
			"when io.ReadFull of a frame payload fails for a reason other than the connection being closed or the context ending, Conn.readFramePayload closes the transport before returning the error (blocked calls such as a pending Ping return)", func(pa *Path) (bool, string) {
				if pa.End != "return" || retErr(pa) != "nonnil" {
					return true, ""
				}
				ok, known := decidedLike(pa, "call:io.ReadFull@@#1 == nil")
				if !known || ok {
					return true, ""
				}
				for _, e := range pa.Events {
					if e.Kind == "select" && !e.Blocking && e.Case == -1 {
						if len(pa.Calls("Conn.closeTransport")) == 0 && len(pa.Calls("Conn.close")) == 0 {
							return false, "the payload error is passed on with the transport left open"
						}
					}
				}
				return true, ""
			})
	}
	if fn := p.Func("Conn.readFrameHeader"); fn != nil {
		p.forAllPaths(r, rule+".header", fn, "an unreadable or invalid header closes the transport", Opts{},
			"when readFrameHeader fails for a reason other than the connection being closed or the context ending (transport error, length with the top bit set), Conn.readFrameHeader closes the transport before returning the error", func(pa *Path) (bool, string) {
				if pa.End != "return" || retErr(pa) != "nonnil" {
					return true, ""
				}
				ok, known := decidedLike(pa, "call:readFrameHeader@@#1 == nil")
				if !known || ok {
					return true, ""
				}
				// which case of the classifying select was taken: the default one passes the error on
				for _, e := range pa.Events {
					if e.Kind == "select" && !e.Blocking && e.Case == -1 {
						if len(pa.Calls("Conn.closeTransport")) == 0 && len(pa.Calls("Conn.close")) == 0 {
							return false, "the header error is passed on with the transport left open"
						}
					}
				}
				return true, ""
			})
	}
}

func c03ctl(p *Program, r *Report, rule string) {
	fn := p.Func("Conn.handleControl")
	if fn == nil {
		return
	}
	lens := candidates(intConstsCompared(fn), 0, 125, 126)
	atoms := []Atom{intAtom("header.payloadLength", lens), boolAtom("header.fin"), intAtom("header.opcode", []int64{8, 9, 10})}
	p.runTable(r, tableSpec{
		Rule: rule, Fn: fn, Atoms: atoms,
		Classify: func(v Valuation, pa *Path) string {
			reads := pa.Calls("Conn.readFramePayload")
			if len(reads) == 0 {
				if retErr(pa) == "nonnil" {
					we := pa.Calls("Conn.writeError")
					if len(we) == 1 {
						if c, ok := avInt(we[0].Args[1]); ok && c == 1002 {
							return "REJECT-1002-BEFORE-READ"
						}
					}
					return "REJECT-WITHOUT-1002"
				}
				return "NO-READ-" + retErr(pa)
			}
			// the payload buffer must be readControlBuf[:payloadLength]
			buf := reads[0].Args[2]
			e, ok := buf.(*Expr)
			if !ok || e.Op != "slice" || e.Args[0].Key() != "&Conn.readControlBuf" || e.Args[1] != nil {
				return "READ-INTO-" + buf.Key()
			}
			if hi, ok := avInt(e.Args[2]); !ok || hi != v.Int("header.payloadLength") {
				return "READ-BOUND-" + e.Args[2].Key()
			}
			return "READ"
		},
		Oracle: func(v Valuation) []string {
			n := v.Int("header.payloadLength")
			if n > 125 || !v.Bool("header.fin") {
				return []string{"REJECT-1002-BEFORE-READ"}
			}
			if n < 0 {
				// a negative length never reaches handleControl: readFrameHeader rejects it (C03.hdr / C04.hdr decide that);
				// a second test here is allowed, not required
				return []string{"REJECT-1002-BEFORE-READ", "READ"}
			}
			return []string{"READ"}
		},
		What: "RFC 6455 §5.5: control frames are ≤125 bytes and not fragmented; checked before the payload is read into the fixed 125-byte buffer",
	})
	// type-level bound of the buffer
	if f := p.Field("Conn.readControlBuf"); f != nil {
		arr, ok := f.Type().Underlying().(*types.Array)
		r.Exists(rule+".buf", "Conn", "readControlBuf", "-", ok && arr.Len() >= 125, "Conn.readControlBuf is a fixed array of at least 125 bytes", fmt.Sprintf("type %s", f.Type()))
	}
}

func c03seq(p *Program, r *Report, rule string) {
	// reader: new message only when previous finished and first frame is not a continuation
	if fn := p.Func("Conn.reader"); fn != nil {
		ops := opcodeCandidates(fn)
		p.runTable(r, tableSpec{
			Rule: rule + ".reader", Fn: fn,
			// payloadLength: what is left of the frame being read (0, 1 byte, more): a final frame whose payload was not
			// read to its end is not a finished message (F35)
			Atoms: []Atom{boolAtom("msgReader.fin"), intAtom("msgReader.payloadLength", []int64{0, 1, 290, 1 << 40}), intAtom("header.opcode", []int64{ops[0], 0, 1, 2})},
			Decide: func(v Valuation) func(string, AV) (bool, bool) {
				return func(key string, cond AV) (bool, bool) {
					if strings.HasPrefix(key, "(call:mu.lock@") || strings.HasPrefix(key, "(call:Conn.readLoop@") {
						return true, true // lock acquired, header obtained
					}
					return false, false
				}
			},
			Classify: func(v Valuation, pa *Path) string {
				reset := len(pa.Calls("msgReader.reset")) > 0
				we := pa.Calls("Conn.writeError")
				switch retErr(pa) {
				case "nil":
					if reset {
						return "DELIVER"
					}
					return "DELIVER-WITHOUT-RESET"
				case "nonnil":
					if reset {
						return "REJECT-AFTER-RESET"
					}
					if len(we) > 0 {
						if c, ok := avInt(we[0].Args[1]); ok && c == 1002 {
							return "REJECT-1002"
						}
					}
					if len(pa.Calls("Conn.readLoop")) == 0 {
						return "REJECT-BEFORE-READ"
					}
					return "REJECT"
				}
				return retErr(pa)
			},
			Oracle: func(v Valuation) []string {
				if !v.Bool("msgReader.fin") || v.Int("msgReader.payloadLength") > 0 {
					return []string{"REJECT-BEFORE-READ"}
				}
				if v.Int("header.opcode") == 0 {
					return []string{"REJECT-1002"}
				}
				return []string{"DELIVER"}
			},
			What: "a new message may start only after the previous one finished - its final frame arrived and was read in full - and not with a continuation frame (RFC 6455 §5.4)",
		})
	}
	// msgReader.read: at a frame boundary inside a message only a continuation frame is accepted
	if fn := p.Func("msgReader.read"); fn != nil {
		p.runTable(r, tableSpec{
			Rule: rule + ".read", Fn: fn,
			Atoms: []Atom{intAtom("msgReader.payloadLength", []int64{0}), boolAtom("msgReader.fin"), intAtom("header.opcode", []int64{0, 1, 2})},
			Args:  func(v Valuation) []AV { return nil },
			Decide: func(v Valuation) func(string, AV) (bool, bool) {
				return func(key string, cond AV) (bool, bool) {
					if strings.HasPrefix(key, "(call:Conn.readLoop@") {
						return true, true
					}
					return false, false
				}
			},
			Inline: p.inlineSet("msgReader.setFrame"),
			Classify: func(v Valuation, pa *Path) string {
				// the new frame is installed: fin, payloadLength and maskKey are stored from the header just read
				got := map[string]bool{}
				for _, e := range pa.Events {
					if e.Kind == "store" && strings.HasPrefix(e.AddrK, "msgReader.") && keyHas(e.Val, "call:Conn.readLoop@") {
						got[e.AddrK] = true
					}
				}
				set := got["msgReader.fin"] && got["msgReader.payloadLength"] && got["msgReader.maskKey"]
				if pa.End == "loop" && set {
					return "NEXT-FRAME"
				}
				if pa.End == "return" {
					if len(pa.Calls("Conn.readLoop")) == 0 {
						return "END-OF-MESSAGE"
					}
					if !set && retErr(pa) == "nonnil" {
						we := pa.Calls("Conn.writeError")
						if len(we) > 0 {
							if c, ok := avInt(we[0].Args[1]); ok && c == 1002 {
								return "REJECT-1002"
							}
						}
						return "REJECT"
					}
				}
				return "OTHER-" + pa.End
			},
			Oracle: func(v Valuation) []string {
				if v.Bool("msgReader.fin") {
					return []string{"END-OF-MESSAGE"}
				}
				if v.Int("header.opcode") != 0 {
					return []string{"REJECT-1002"}
				}
				return []string{"NEXT-FRAME"}
			},
			What: "inside a fragmented message the next data frame must be a continuation frame (RFC 6455 §5.4)",
		})
	}
}

func c03hdr(p *Program, r *Report, rule string) {
	fn := p.Func("readFrameHeader")
	if fn == nil {
		return
	}
	r.UseFunc("readFrameHeader")
	paths, err := p.Explore(fn, Opts{})
	r.Evaluations += len(paths)
	if err != nil {
		r.Undecide("%s: %v", rule, err)
		return
	}
	pos := p.FuncPos(fn)
	const b0 = "call:(*bufio.Reader).ReadByte@@#0"
	// success paths
	nsucc := 0
	okBits, okLen7, okLen16, okLen64, okNeg, okMask, okUnmasked := true, false, false, false, true, false, false
	var detail []string
	for _, pa := range paths {
		if retErr(pa) != "nil" {
			continue
		}
		nsucc++
		hv, ok := pa.Ret[0].(*StructV)
		if !ok {
			okBits = false
			detail = append(detail, "success path does not return an assembled header: "+pa.Ret[0].Key())
			continue
		}
		get := func(name string) AV {
			st := hv.T.Underlying().(*types.Struct)
			for i := 0; i < st.NumFields(); i++ {
				if fieldName(st.Field(i)) == name {
					return hv.Fields[i]
				}
			}
			return nil
		}
		for name, mask := range map[string]int{"fin": 128, "rsv1": 64, "rsv2": 32, "rsv3": 16} {
			if !keyIs(get(name), fmt.Sprintf("((%s & %d) != 0)", b0, mask)) {
				okBits = false
				detail = append(detail, fmt.Sprintf("%s = %s", name, get(name).Key()))
			}
		}
		if !keyIs(get("opcode"), "convert:websocket.opcode(("+b0+" & 15))") {
			okBits = false
			detail = append(detail, "opcode = "+get("opcode").Key())
		}
		if !keyIs(get("masked"), "(("+b0+" & 128) != 0)") || get("masked").Key() == get("fin").Key() {
			okBits = false
			detail = append(detail, "masked = "+get("masked").Key())
		}
		pl := get("payloadLength").Key()
		rf := pa.Calls("io.ReadFull")
		// a success path has seen every one of its reads succeed
		for _, e := range append(append([]*Event{}, rf...), pa.Calls("(*bufio.Reader).ReadByte")...) {
			if v, known := pa.Decided("(" + e.Res.Key() + "#1 == nil)"); !known || !v {
				okBits = false
				detail = append(detail, "header returned although the error of "+e.Callee+" at "+p.InstrPos(e.Instr)+" was not found nil (a failed read is ignored)")
			}
		}
		marker := "(" + b0 + " &^ 128)"
		switch {
		case keyIs(get("payloadLength"), "convert:int64("+marker+")"):
			if v, ok := decidedLike(pa, marker+" < 126"); ok && v || pa.IntWithin(marker, 0, 127, 0, 125) {
				okLen7 = true
			} else {
				detail = append(detail, "7-bit length used outside marker<126")
				okBits = false
			}
		case keyIs(get("payloadLength"), "convert:int64(call:(binary.bigEndian).Uint16@@)"):
			good := false
			if v, ok := decidedLike(pa, marker+" == 126"); ok && v || pa.IntWithin(marker, 0, 127, 126, 126) {
				for _, e := range rf {
					if keyIs(e.Args[1], "slice(param:readBuf,_,2,_)") {
						good = true
					}
				}
			}
			if good {
				okLen16 = true
			} else {
				okBits = false
				detail = append(detail, "16-bit length without marker==126 and a full read of 2 bytes")
			}
		case keyIs(get("payloadLength"), "convert:int64(call:(binary.bigEndian).Uint64@@)"):
			good := false
			if v, ok := decidedLike(pa, marker+" == 127"); ok && v || pa.IntWithin(marker, 0, 127, 127, 127) {
				for _, e := range rf {
					if keyIs(e.Args[1], "param:readBuf") {
						good = true
					}
				}
			}
			if good {
				okLen64 = true
			} else {
				okBits = false
				detail = append(detail, "64-bit length without marker==127 and a full read of 8 bytes")
			}
		default:
			// marker > 127 is infeasible for a 7-bit value; payloadLength stays 0 — only on that (dead) path
			_, isZero := avInt(get("payloadLength"))
			lt, k1 := decidedLike(pa, marker+" < 126")
			e6, k2 := decidedLike(pa, marker+" == 126")
			e7, k3 := decidedLike(pa, marker+" == 127")
			if !isZero || !((k1 && !lt && k2 && !e6 && k3 && !e7) || pa.IntWithin(marker, 0, 127, 1, 0)) {
				okBits = false
				detail = append(detail, "payloadLength = "+pl+" on a path with a valid length marker")
			}
		}
		// negative length must have been excluded where it can occur: only the conversion of the 64-bit length can be negative
		// (a 7-bit marker and a 16-bit length are non-negative after conversion to int64)
		if keyIs(get("payloadLength"), "convert:int64(call:(binary.bigEndian).Uint64@@)") {
			if v, ok := decidedLike(pa, get("payloadLength").Key()+" < 0"); !ok || v {
				okNeg = false
			}
		}
		// mask key
		mk := get("maskKey")
		if v, ok := decidedLike(pa, "("+b0+" & 128) == 0"); ok && !v {
			// masked
			good := false
			for _, e := range rf {
				if keyIs(e.Args[1], "slice(param:readBuf,_,4,_)") {
					good = true
				}
			}
			if good && keyIs(mk, "call:(binary.littleEndian).Uint32@@") {
				okMask = true
			} else {
				okBits = false
				detail = append(detail, "masked frame: maskKey = "+mk.Key())
			}
		} else if ok && v {
			if z, isZ := avInt(mk); isZ && z == 0 {
				okUnmasked = true
			}
		}
	}
	d := strings.Join(detail, "; ")
	r.Check(rule, "readFrameHeader", "bit masks", pos, okBits && nsucc > 0, "fin/rsv1/rsv2/rsv3 = first byte & 0x80/0x40/0x20/0x10, opcode = first byte & 0x0f, masked = second byte & 0x80 (RFC 6455 §5.2)", fmt.Sprintf("%d success path(s); %s", nsucc, d))
	r.Check(rule, "readFrameHeader", "length classes", pos, okLen7 && okLen16 && okLen64, "marker <126 ↦ itself; 126 ↦ 2 bytes via io.ReadFull + BigEndian.Uint16; 127 ↦ 8 bytes via io.ReadFull + BigEndian.Uint64", fmt.Sprintf("7-bit:%v 16-bit:%v 64-bit:%v %s", okLen7, okLen16, okLen64, d))
	r.Check(rule, "readFrameHeader", "negative length", pos, okNeg && nsucc > 0, "every success path passed the test payloadLength < 0 on its false edge (top bit of a 64-bit length rejected)", fmt.Sprintf("ok=%v", okNeg))
	r.Check(rule, "readFrameHeader", "mask key", pos, okMask && okUnmasked, "masked ⇒ 4 bytes via io.ReadFull and LittleEndian.Uint32 (same byte order as writeFrame); unmasked ⇒ key stays 0", fmt.Sprintf("masked:%v unmasked:%v", okMask, okUnmasked))
	// error returns carry the zero header
	for _, pa := range paths {
		if retErr(pa) == "nonnil" {
			if c, ok := pa.Ret[0].(*Const); !ok || c.Zero == nil {
				r.Check(rule, "readFrameHeader", "error returns zero header", pos, false, "error paths return header{}", pa.Ret[0].Key())
			}
		}
	}
}

// decidedLike finds a decision whose key matches "(<pattern>)" and returns its value.
func decidedLike(pa *Path, pattern string) (bool, bool) {
	re := pat("(" + pattern + ")")
	re2 := pat(pattern)
	for _, d := range pa.Decisions {
		if re.MatchString(d.Key) || re2.MatchString(d.Key) {
			return d.Val, true
		}
	}
	return false, false
}

// nonEmpty: whether the path found the string or slice key non-empty, however the source spells the test:
// len(x) > 0, len(x) != 0, len(x) == 0, x != "", x == "", len(x) >= 1 …
func nonEmpty(pa *Path, key string) (bool, bool) {
	if v, ok := decidedLike(pa, "len("+key+") > 0"); ok {
		return v, true
	}
	if v, ok := decidedLike(pa, "len("+key+") == 0"); ok {
		return !v, true
	}
	if v, ok := decidedLike(pa, key+` == ""`); ok {
		return !v, true
	}
	if v, ok := decidedLike(pa, `"" == `+key); ok {
		return !v, true
	}
	if v, ok := decidedLike(pa, key+" == nil"); ok {
		return !v, true
	}
	if pa.IntWithin("len("+key+")", 0, 4, 1, 4) {
		return true, true
	}
	if pa.IntWithin("len("+key+")", 0, 4, 0, 0) {
		return false, true
	}
	return false, false
}

// c03flatefail: a compressed payload that is not a DEFLATE stream (flate.CorruptInputError) fails the connection with
// 1007 like every other payload the reader cannot accept; returning the error alone leaves the rest of the payload in
// the stream and the connection open (F40).
func c03flatefail(p *Program, r *Report, rule string) {
	fn := p.Func("msgReader.Read")
	if fn == nil {
		return
	}
	seen := 0
	p.forAllPaths(r, rule, fn, "undecodable DEFLATE fails the connection", Opts{Inline: p.inlineSet("msgReader.discardRest"), Unroll: 1},
		"when the error of a compressed message's reader is a flate.CorruptInputError (errors.As), msgReader.Read calls writeError(ctx, StatusInvalidFramePayloadData, …) before returning the error", func(pa *Path) (bool, string) {
			if pa.End != "return" {
				return true, ""
			}
			for _, as := range pa.Calls("errors.As") {
				call, ok := as.Instr.(*ssa.Call)
				if !ok || len(call.Call.Args) != 2 {
					continue
				}
				tgt := call.Call.Args[1]
				if mi, ok := tgt.(*ssa.MakeInterface); ok {
					tgt = mi.X
				}
				pt, ok := tgt.Type().(*types.Pointer)
				if !ok || !strings.HasSuffix(pt.Elem().String(), "compress/flate.CorruptInputError") {
					continue
				}
				is, known := pa.Decided(as.Res.Key())
				if !known || !is {
					continue
				}
				seen++
				we := pa.Calls("Conn.writeError")
				if len(we) != 1 {
					return false, "corrupt DEFLATE input recognised but the connection is not failed"
				}
				if c, ok := avInt(we[0].Args[1]); !ok || c != 1007 {
					return false, "fails the connection with " + argKey(we[0], 1)
				}
				if retErr(pa) != "nonnil" {
					return false, "no error returned"
				}
			}
			return true, ""
		})
	r.Check(rule, "msgReader.Read", "the inflater's error is looked for", p.FuncPos(fn), seen > 0, "msgReader.Read asks errors.As for a flate.CorruptInputError on its error path", fmt.Sprintf("%d path(s) recognise it", seen))
}

func c03closepayload(p *Program, r *Report, rule string) {
	fn := p.Func("parseClosePayload")
	if fn == nil {
		return
	}
	p.runTable(r, tableSpec{
		Rule: rule, Fn: fn,
		Atoms: []Atom{intAtom("len(param:p)", candidates(intConstsCompared(fn), 0, 1, 2, 125)), boolAtom("call:validWireCloseCode")},
		Classify: func(v Valuation, pa *Path) string {
			switch retErr(pa) {
			case "nonnil":
				return "REJECT"
			case "nil":
				sv, ok := pa.Ret[0].(*StructV)
				if !ok {
					return "OK-" + pa.Ret[0].Key()
				}
				code, reason := sv.Fields[0], sv.Fields[1]
				if c, ok := avInt(code); ok && c == 1005 {
					if s, ok := avStr(reason); ok && s == "" {
						return "NOSTATUS"
					}
				}
				if keyIs(code, "convert:websocket.StatusCode(call:(binary.bigEndian).Uint16@@)") && keyIs(reason, "convert:string(slice(param:p,2,_,_))") {
					vc := pa.Calls("validWireCloseCode")
					if len(vc) == 1 && vc[0].Args[0].Key() == code.Key() {
						return "PARSED"
					}
					return "PARSED-UNVALIDATED"
				}
				return "OK-" + sv.Key()
			}
			return retErr(pa)
		},
		Oracle: func(v Valuation) []string {
			n := v.Int("len(param:p)")
			switch {
			case n < 0:
				return []string{"NOSTATUS", "REJECT", "PARSED"} // infeasible region
			case n == 0:
				return []string{"NOSTATUS"}
			case n == 1:
				return []string{"REJECT"}
			}
			if v.Bool("call:validWireCloseCode") {
				return []string{"PARSED"}
			}
			return []string{"REJECT"}
		},
		What: "RFC 6455 §5.5.1/§7.4: empty close payload ↦ 1005; 1 byte ↦ malformed; else big-endian code validated by validWireCloseCode, reason = rest",
	})
	c02closeCodes(p, r, rule+".codes")
}

// c02closeCodes: accepted set of validWireCloseCode as a table over all integers.
func c02closeCodes(p *Program, r *Report, rule string) {
	fn := p.Func("validWireCloseCode")
	if fn == nil {
		return
	}
	cands := candidates(intConstsCompared(fn), 0, 999, 1000, 1003, 1004, 1005, 1006, 1007, 1014, 1015, 1016, 2999, 3000, 4999, 5000, 65535, 65536, -1)
	// every code of the first block exhaustively (a set or table lookup has no comparison constants to cut the line at),
	// and representatives that alias an accepted code when a narrower integer or an index is computed from the code:
	// v ± 256, v ± 65536, v + 2^32 for accepted v, plus multiples of the block sizes
	seen := map[int64]bool{}
	for _, c := range cands {
		seen[c] = true
	}
	add := func(c int64) {
		if !seen[c] {
			seen[c] = true
			cands = append(cands, c)
		}
	}
	for c := int64(990); c <= 1030; c++ {
		add(c)
	}
	for _, v := range []int64{1000, 1001, 1003, 1007, 1011, 1014, 3000, 4000, 4999} {
		for _, d := range []int64{256, 512, 1024, 2048, 4096, 65536, 1 << 32} {
			add(v + d)
			add(v - d)
		}
	}
	sort.Slice(cands, func(i, j int) bool { return cands[i] < cands[j] })
	p.runTable(r, tableSpec{
		Rule: rule, Fn: fn, Atoms: []Atom{intAtom("param:code", cands)},
		Classify: func(v Valuation, pa *Path) string {
			if b, ok := avBool(pa.Ret[0]); ok {
				if b {
					return "VALID"
				}
				return "INVALID"
			}
			return "UNKNOWN"
		},
		Oracle: func(v Valuation) []string {
			c := v.Int("param:code")
			valid := (c >= 1000 && c <= 1003) || (c >= 1007 && c <= 1014) || (c >= 3000 && c <= 4999)
			if valid {
				return []string{"VALID"}
			}
			return []string{"INVALID"}
		},
		What: "status codes that may appear on the wire: [1000,1003] ∪ [1007,1014] ∪ [3000,4999] (RFC 6455 §7.4, IANA registry as documented by the library)",
	})
}

// c03full: every read from Conn.br (or the *bufio.Reader parameter of readFrameHeader) is a full read.
func c03full(p *Program, r *Report, rule string) {
	br := p.Field("Conn.br")
	if br == nil {
		return
	}
	n := 0
	for _, cs := range p.CallSites() {
		cc := cs.Instr.Common()
		// receiver / first argument derived from Conn.br or from readFrameHeader's r parameter
		var operands []ssa.Value
		if cc.IsInvoke() {
			operands = append(operands, cc.Value)
		}
		operands = append(operands, cc.Args...)
		uses := false
		for _, o := range operands {
			if derivesFromField(o, br) || isParamOf(o, p.FuncOpt("readFrameHeader"), "r") {
				uses = true
			}
		}
		if !uses {
			continue
		}
		fname := p.FuncName(cs.Fn)
		r.UseFunc(fname)
		ok := false
		switch cs.Name {
		case "(*bufio.Reader).ReadByte", "io.ReadFull", "readFrameHeader", "putBufioReader", "(*bufio.Reader).Reset":
			ok = true
		}
		if !ok && cs.Callee != nil && !knownFuncs[p.rawName(cs.Callee)] && p.isLib(cs.Callee) {
			ok = true // the reader is handed to an extracted helper; the helper's own sites are checked
		}
		if strings.HasPrefix(cs.Name, "newConn") {
			ok = true
		}
		n++
		r.Check(rule, fname, cs.Name, p.InstrPos(cs.Instr), ok, "frame bytes are read from the connection's bufio.Reader only with ReadByte / io.ReadFull (a bare Read may return short counts, making decoding depend on transport chunking)", "call "+cs.Name)
	}
	r.Floor(rule, 4)
}

func derivesFromField(v ssa.Value, f *types.Var) bool {
	return derivesFromFieldD(v, f, 0)
}

func derivesFromFieldD(v ssa.Value, f *types.Var, depth int) bool {
	for i := 0; i < 8; i++ {
		switch x := v.(type) {
		case *ssa.Parameter:
			// a parameter of a helper outside the reference tree stands for what its call sites pass
			p := curProg
			if p == nil || depth > 3 || x.Parent() == nil || x.Parent().Parent() != nil || !p.isLib(x.Parent()) || knownFuncs[p.rawName(x.Parent())] {
				return false
			}
			idx := -1
			for k, prm := range x.Parent().Params {
				if prm == x {
					idx = k
				}
			}
			for _, cs := range p.CallersOf(x.Parent()) {
				if args := cs.Instr.Common().Args; idx >= 0 && idx < len(args) && derivesFromFieldD(args[idx], f, depth+1) {
					return true
				}
			}
			return false
		case *ssa.UnOp:
			if x.Op == token.MUL {
				if fa, ok := x.X.(*ssa.FieldAddr); ok && fieldOf(fa) == f {
					return true
				}
			}
			return false
		case *ssa.ChangeInterface:
			v = x.X
		case *ssa.MakeInterface:
			v = x.X
		case *ssa.ChangeType:
			v = x.X
		case *ssa.Slice:
			v = x.X
		case *ssa.FieldAddr:
			return fieldOf(x) == f
		default:
			return false
		}
	}
	return false
}

func isParamOf(v ssa.Value, fn *ssa.Function, name string) bool {
	for i := 0; i < 4; i++ {
		switch x := v.(type) {
		case *ssa.Parameter:
			return fn != nil && x.Parent() == fn && paramName(x) == name
		case *ssa.MakeInterface:
			v = x.X
		case *ssa.ChangeInterface:
			v = x.X
		default:
			return false
		}
	}
	return false
}

// c03taint: wire-derived integers (header.payloadLength, msgReader.payloadLength, lengths decoded in
// readFrameHeader) must not size an allocation and may bound a slice only under a dominating comparison.
func c03taint(p *Program, r *Report, rule string) {
	hpl := p.Field("header.payloadLength")
	mpl := p.Field("msgReader.payloadLength")
	if hpl == nil || mpl == nil {
		return
	}
	// Interprocedural, context-insensitive: a library function whose result derives from a wire length hands the taint to its
	// call sites, a tainted integer argument taints the callee's parameter (fixpoint).
	taintedRet := map[*ssa.Function]map[int]bool{}
	taintedParam := map[*ssa.Parameter]bool{}
	// an integer field that is assigned a wire length anywhere (a size hint remembered for later) carries it
	taintedField := map[*types.Var]bool{}
	var tainted func(v ssa.Value) bool
	tainted = func(v ssa.Value) bool {
		return valueDerives(v, func(x ssa.Value) bool {
			switch y := x.(type) {
			case *ssa.UnOp:
				if y.Op == token.MUL {
					if fa, ok := y.X.(*ssa.FieldAddr); ok && (fieldOf(fa) == hpl || fieldOf(fa) == mpl || taintedField[fieldOf(fa)]) {
						return true
					}
				}
			case *ssa.Field:
				return fieldOf(y) == hpl || taintedField[fieldOf(y)]
			case *ssa.Parameter:
				return taintedParam[y]
			case *ssa.Call:
				if cal := y.Call.StaticCallee(); cal != nil && taintedRet[cal][0] && cal.Signature.Results().Len() == 1 {
					return true
				}
			case *ssa.Extract:
				if c, ok := y.Tuple.(*ssa.Call); ok {
					if cal := c.Call.StaticCallee(); cal != nil && taintedRet[cal][y.Index] {
						return true
					}
				}
			}
			return false
		}, 6)
	}
	isInt := func(t types.Type) bool {
		b, ok := t.Underlying().(*types.Basic)
		return ok && b.Info()&types.IsInteger != 0
	}
	for changed, round := true, 0; changed && round < 8; round++ {
		changed = false
		for _, fn := range p.Funcs {
			for _, b := range fn.Blocks {
				for _, in := range b.Instrs {
					switch x := in.(type) {
					case *ssa.Store:
						if fa, ok := x.Addr.(*ssa.FieldAddr); ok && isInt(x.Val.Type()) {
							if f := fieldOf(fa); f != nil && f != hpl && f != mpl && !taintedField[f] && !isFrameStateField(p, f) && tainted(x.Val) {
								taintedField[f] = true
								changed = true
							}
						}
					case *ssa.Return:
						for i, res := range x.Results {
							if isInt(res.Type()) && !taintedRet[fn][i] && tainted(res) {
								if taintedRet[fn] == nil {
									taintedRet[fn] = map[int]bool{}
								}
								taintedRet[fn][i] = true
								changed = true
							}
						}
					case ssa.CallInstruction:
						cal := x.Common().StaticCallee()
						if cal == nil || len(cal.Blocks) == 0 || !p.isLib(cal) {
							continue
						}
						args := x.Common().Args
						for i, a := range args {
							if i < len(cal.Params) && isInt(a.Type()) && !taintedParam[cal.Params[i]] && tainted(a) {
								taintedParam[cal.Params[i]] = true
								changed = true
							}
						}
					}
				}
			}
		}
	}
	n := 0
	for _, fn := range p.Funcs {
		fname := p.FuncName(fn)
		for _, b := range fn.Blocks {
			for _, in := range b.Instrs {
				switch x := in.(type) {
				case *ssa.MakeSlice:
					if tainted(x.Len) || tainted(x.Cap) {
						n++
						r.Check(rule, fname, "make sized by wire length", p.InstrPos(x), false, "no allocation is sized by a peer-declared length", "make([]T, <wire length>)")
					}
				case *ssa.Slice:
					for _, bnd := range []ssa.Value{x.Low, x.High, x.Max} {
						if bnd != nil && tainted(bnd) {
							n++
							r.UseFunc(fname)
							ok, why := boundGuarded(p, fn, x, bnd)
							r.Check(rule, fname, "slice bound from wire length: "+sliceBaseName(x), p.InstrPos(x), ok,
								"a slice bound derived from a peer-declared length is dominated by a comparison that bounds it (or the base is the fixed control buffer checked by C03.ctl)", why)
						}
					}
				case *ssa.IndexAddr:
					if tainted(x.Index) {
						n++
						r.Check(rule, fname, "index from wire length", p.InstrPos(x), false, "no index is derived from a peer-declared length", "index")
					}
				}
			}
		}
	}
	r.Floor(rule, 2)
	// no call that grows memory by a wire length
	for _, cs := range p.CallSites() {
		switch cs.Name {
		case "(*bytes.Buffer).Grow", "io.CopyN", "io.LimitReader":
			for _, a := range cs.Instr.Common().Args {
				if tainted(a) {
					r.Check(rule, p.FuncName(cs.Fn), cs.Name+" sized by wire length", p.InstrPos(cs.Instr), false, "no buffer growth sized by a peer-declared length", cs.Name)
				}
			}
		}
	}
}

// isFrameStateField: the reader's own bookkeeping of the frame position (limitReader.n is a budget, not a wire length;
// header.payloadLength and msgReader.payloadLength are the roots themselves).
func isFrameStateField(p *Program, f *types.Var) bool {
	for _, n := range []string{"limitReader.n", "header.payloadLength", "msgReader.payloadLength"} {
		if p.FieldOpt(n) == f {
			return true
		}
	}
	return false
}

func sliceBaseName(x *ssa.Slice) string {
	switch b := x.X.(type) {
	case *ssa.FieldAddr:
		return fieldName(fieldOf(b))
	case *ssa.Parameter:
		return "param " + paramName(b)
	case *ssa.Phi:
		return "local " + b.Comment
	}
	return x.X.Name()
}

// valueDerives follows value-preserving/arithmetical operators backwards.
func valueDerives(v ssa.Value, pred func(ssa.Value) bool, depth int) bool {
	if v == nil || depth < 0 {
		return false
	}
	if pred(v) {
		return true
	}
	switch x := v.(type) {
	case *ssa.Convert:
		return valueDerives(x.X, pred, depth-1)
	case *ssa.ChangeType:
		return valueDerives(x.X, pred, depth-1)
	case *ssa.BinOp:
		return valueDerives(x.X, pred, depth-1) || valueDerives(x.Y, pred, depth-1)
	case *ssa.Phi:
		for _, e := range x.Edges {
			if e != v && valueDerives(e, pred, depth-1) {
				return true
			}
		}
	}
	return false
}

// boundGuarded: the slice instruction is guarded when (a) its base is Conn.readControlBuf and the
// function is handleControl (bound established by C03.ctl's table), or (b) a comparison between the
// bound (modulo conversions) and len(base)/a constant dominates the slice instruction.
func boundGuarded(p *Program, fn *ssa.Function, sl *ssa.Slice, bnd ssa.Value) (bool, string) {
	if fa, ok := sl.X.(*ssa.FieldAddr); ok && fieldName(fieldOf(fa)) == "readControlBuf" && p.FuncName(fn) == "Conn.handleControl" {
		return true, "base is the fixed control buffer; bound payloadLength∈[0,125] established by the C03.ctl table before this slice"
	}
	strip := func(v ssa.Value) ssa.Value {
		for {
			switch x := v.(type) {
			case *ssa.Convert:
				v = x.X
			case *ssa.ChangeType:
				v = x.X
			default:
				return v
			}
		}
	}
	sb := strip(bnd)
	sameLoad := func(a, b ssa.Value) bool {
		a, b = strip(a), strip(b)
		if a == b {
			return true
		}
		ua, ok1 := a.(*ssa.UnOp)
		ub, ok2 := b.(*ssa.UnOp)
		if ok1 && ok2 && ua.Op == token.MUL && ub.Op == token.MUL {
			fa, ok3 := ua.X.(*ssa.FieldAddr)
			fb, ok4 := ub.X.(*ssa.FieldAddr)
			return ok3 && ok4 && fieldOf(fa) == fieldOf(fb)
		}
		return false
	}
	// search dominating If conditions
	dom := sl.Block()
	for b := dom; b != nil; b = b.Idom() {
		idom := b.Idom()
		if idom == nil {
			break
		}
		iff, ok := idom.Instrs[len(idom.Instrs)-1].(*ssa.If)
		if !ok {
			continue
		}
		cmp, ok := iff.Cond.(*ssa.BinOp)
		if !ok {
			continue
		}
		switch cmp.Op {
		case token.GTR, token.LSS, token.GEQ, token.LEQ:
			if sameLoad(cmp.X, sb) || sameLoad(cmp.Y, sb) {
				return true, "dominated by comparison " + cmp.String() + " at " + p.InstrPos(cmp)
			}
		}
	}
	return false, "no dominating comparison of the bound found"
}

// decidedRel finds the decision about a relation between two symbolic values given by key patterns,
// independent of how the source spelled it (a != b, b == a, a >= b, b < a, ...).
func decidedRel(pa *Path, a, rel, b string) (bool, bool) {
	switch rel {
	case "==", "!=":
		for _, k := range []string{"(" + a + " == " + b + ")", "(" + b + " == " + a + ")"} {
			re := pat(k)
			for _, d := range pa.Decisions {
				if re.MatchString(d.Key) {
					return d.Val == (rel == "=="), true
				}
			}
		}
	case "<", ">", "<=", ">=":
		// a < b ; a > b ≡ b < a ; a >= b ≡ !(a < b) ; a <= b ≡ !(b < a)
		l, r, neg := a, b, false
		switch rel {
		case ">":
			l, r = b, a
		case ">=":
			neg = true
		case "<=":
			l, r, neg = b, a, true
		}
		re := pat("(" + l + " < " + r + ")")
		for _, d := range pa.Decisions {
			if re.MatchString(d.Key) {
				return d.Val != neg, true
			}
		}
		// the complementary atom: (r < l) false does not decide l < r; but (r < l) true decides l < r false
	}
	return false, false
}
