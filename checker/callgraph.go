package main

// E6 — library-only call graph with verified callback edges, and the callback ("funnel")
// table shared with E2. Calls that leave the library and come back through the standard
// library (flate/bufio/json calling our io.Reader / io.Writer implementations) are not
// resolved with a whole-program points-to analysis; instead the fields that hold the callback
// values are proven to be written only with known values (C07.funnel), and exactly those
// edges are added.

import (
	"go/types"
	"sort"
	"strings"

	"golang.org/x/tools/go/ssa"
)

// funnel describes one callback field: who may be stored into it and where it is invoked.
type funnelSpec struct {
	Field   string   // "limitReader.r"
	Targets []string // library functions that may run when the field's value is invoked
}

// buildCallbacks resolves the invoke / out-of-library call sites that re-enter the library.
func buildCallbacks(p *Program) map[ssa.CallInstruction][]*ssa.Function {
	cb := map[ssa.CallInstruction][]*ssa.Function{}
	mrRead := p.FuncOpt("msgReader.read")
	mwWrite := p.FuncOpt("msgWriter.write")
	twWrite := p.FuncOpt("trimLastFourBytesWriter.Write")
	lrR := p.FieldOpt("limitReader.r")
	twW := p.FieldOpt("trimLastFourBytesWriter.w")
	mwFW := p.FieldOpt("msgWriter.flateWriter")
	for _, cs := range p.CallSites() {
		cc := cs.Instr.Common()
		if cc.IsInvoke() {
			if lrR != nil && derivesFromField(cc.Value, lrR) && cc.Method.Name() == "Read" && mrRead != nil {
				cb[cs.Instr] = []*ssa.Function{mrRead}
			}
			if twW != nil && derivesFromField(cc.Value, twW) && cc.Method.Name() == "Write" && mwWrite != nil {
				cb[cs.Instr] = []*ssa.Function{mwWrite}
			}
			continue
		}
		if strings.HasPrefix(cs.Name, "(*flate.Writer).") && len(cc.Args) > 0 && mwFW != nil && derivesFromField(cc.Args[0], mwFW) && twWrite != nil {
			switch cs.Name {
			case "(*flate.Writer).Write", "(*flate.Writer).Flush", "(*flate.Writer).Close":
				cb[cs.Instr] = []*ssa.Function{twWrite}
			}
		}
	}
	return cb
}

// CallGraph is a library-only graph: static calls, closures created in a function (edges
// to the closure at its call/defer/go sites), interface calls resolved by CHA over library
// types, and callback edges.
type CallGraph struct {
	p     *Program
	Edges map[*ssa.Function][]cgEdge
	types []types.Type
}

type cgEdge struct {
	To    *ssa.Function
	Site  ssa.Instruction
	Async bool // go statement or timer callback: not synchronous
	Defer bool
}

func buildCallGraph(p *Program) *CallGraph {
	cg := &CallGraph{p: p, Edges: map[*ssa.Function][]cgEdge{}}
	cb := buildCallbacks(p)
	for _, fn := range p.Funcs {
		for _, b := range fn.Blocks {
			for _, in := range b.Instrs {
				ci, ok := in.(ssa.CallInstruction)
				if !ok {
					continue
				}
				_, isGo := in.(*ssa.Go)
				_, isDefer := in.(*ssa.Defer)
				cc := ci.Common()
				add := func(t *ssa.Function, async bool) {
					if t != nil && p.isLib(t) {
						cg.Edges[fn] = append(cg.Edges[fn], cgEdge{To: t, Site: in, Async: async || isGo, Defer: isDefer})
					}
				}
				byField := false
				if ts, ok := cb[ci]; ok {
					byField = true
					for _, t := range ts {
						add(t, false)
					}
				}
				if ts, known := resolveDynamic(p, fn, ci); known {
					for _, t := range ts {
						add(t, false)
					}
					continue
				}
				if cc.IsInvoke() {
					if byField {
						continue // resolved through the callback field it is invoked on
					}
					// a dynamic site that is in neither table (introduced after the reference tree): resolve it
					// conservatively by class hierarchy over the library's types
					if _, n := p.calleeOf(cc); !isExternalDynamic(p, fn, n) {
						if iface, ok := cc.Value.Type().Underlying().(*types.Interface); ok {
							for _, T := range cg.libTypes() {
								if types.Implements(T, iface) {
									if sel := p.SSA.MethodSets.MethodSet(T).Lookup(cc.Method.Pkg(), cc.Method.Name()); sel != nil {
										add(p.SSA.MethodValue(sel), false)
									}
								}
							}
						}
					}
					continue
				}
				switch v := cc.Value.(type) {
				case *ssa.Function:
					add(v, false)
					// closures / function values passed as arguments to non-library functions run later (async unless known)
					if !p.isLib(v) {
						for _, t := range reentry[p.FuncName(fn)+"|"+qualName(v)] {
							add(p.FuncOpt(t), false)
						}
						async := qualName(v) == "time.AfterFunc" || qualName(v) == "runtime.SetFinalizer"
						for _, a := range cc.Args {
							switch f := a.(type) {
							case *ssa.MakeClosure:
								add(f.Fn.(*ssa.Function), async)
							case *ssa.Function:
								add(f, async)
							}
						}
					}
				case *ssa.MakeClosure:
					add(v.Fn.(*ssa.Function), false)
				default:
					// dynamic call of a func value: ReaderFunc.Read / WriterFunc.Write wrappers
				}
				// function values passed to library functions (e.g. runtime.SetFinalizer is non-lib)
			}
		}
	}
	return cg
}

func (cg *CallGraph) libTypes() []types.Type {
	if cg.types != nil {
		return cg.types
	}
	for _, path := range libPatterns {
		for _, m := range cg.p.SSAPkgs[path].Members {
			if t, ok := m.(*ssa.Type); ok {
				cg.types = append(cg.types, t.Type(), types.NewPointer(t.Type()))
			}
		}
	}
	return cg.types
}

// Reach finds a synchronous path from 'from' to a function satisfying pred; returns the path.
func (cg *CallGraph) Reach(from *ssa.Function, pred func(*ssa.Function) bool, skip func(e cgEdge) bool) []*ssa.Function {
	type item struct {
		fn   *ssa.Function
		path []*ssa.Function
	}
	seen := map[*ssa.Function]bool{from: true}
	q := []item{{from, []*ssa.Function{from}}}
	for len(q) > 0 {
		it := q[0]
		q = q[1:]
		edges := cg.Edges[it.fn]
		sort.SliceStable(edges, func(i, j int) bool { return cg.p.FuncName(edges[i].To) < cg.p.FuncName(edges[j].To) })
		for _, e := range edges {
			if e.Async || (skip != nil && skip(e)) {
				continue
			}
			np := append(append([]*ssa.Function{}, it.path...), e.To)
			if pred(e.To) {
				return np
			}
			if !seen[e.To] {
				seen[e.To] = true
				q = append(q, item{e.To, np})
			}
		}
	}
	return nil
}

func (cg *CallGraph) PathString(path []*ssa.Function) string {
	var s []string
	for _, f := range path {
		s = append(s, cg.p.FuncName(f))
	}
	return strings.Join(s, " → ")
}

// dynamicTable resolves the interface-method and func-value call sites of the library that
// re-enter the library. Key: "<function>|<callee name as printed by calleeOf>". Confirmed by reading
// every such site (list printed by `wscheck -list`); a site that is in neither table makes the
// analyses that depend on the call graph undecided (see unresolvedDynamic).
var dynamicTable = map[string][]string{
	"limitReader.Read|invoke io.Reader.Read":              {"msgReader.read"},
	"trimLastFourBytesWriter.Write|invoke io.Writer.Write": {"msgWriter.write"},
	"Conn.write|invoke io.WriteCloser.Write":              {"msgWriterHandle.Write", "msgWriter.Write"}, // the handle forwards statically
	"Conn.write|invoke io.WriteCloser.Close":              {"msgWriterHandle.Close", "msgWriter.Close"},
	"netConn.read|invoke io.Reader.Read":                  {"msgReaderHandle.Read", "msgReader.Read"},
	"util.ReaderFunc.Read|dyn":                            {"msgReader.read"},
	"util.WriterFunc.Write|dyn":                           {"msgWriter.write", "wsjson.write$1"},
}

// externalDynamic: dynamic call sites whose targets are outside the library (transport, context,
// net/http, hash, user callbacks), one reason each.
var externalDynamic = map[string]string{
	"Conn.closeTransport|invoke io.ReadWriteCloser.Close": "the transport (hijacked net.Conn / response body)",
	"Conn.close|invoke io.ReadWriteCloser.Close":          "the transport (pre-repair layout)",
	"DialOptions.cloneWithDefaults$1|dyn":                 "user supplied CheckRedirect",
	"xsync.Go$1|dyn":                                      "xsync.Go has no library caller",
	"NetConn$1|dyn":                                       "context.CancelFunc",
	"NetConn$2|dyn":                                       "context.CancelFunc",
	"netConn.Close|dyn":                                   "context.CancelFunc",
	"getFlateReader|invoke flate.Resetter.Reset":          "compress/flate",
	"dial$1$1|invoke io.ReadCloser.Close":                 "HTTP response body",
	"dial$1|invoke io.ReadCloser.Close":                   "HTTP response body",
	"netConn.LocalAddr|invoke net.Conn.LocalAddr":         "the transport, when it is a net.Conn",
	"netConn.RemoteAddr|invoke net.Conn.RemoteAddr":       "the transport, when it is a net.Conn",
}

// reentry: calls to standard-library functions that call back into the library synchronously.
var reentry = map[string][]string{
	"Conn.Read|io.ReadAll":                     {"msgReaderHandle.Read", "msgReader.Read"},
	"wsjson.read|(*bytes.Buffer).ReadFrom":     {"msgReaderHandle.Read", "msgReader.Read"},
	"wsjson.write|(*json.Encoder).Encode":      {"wsjson.write$1"},
	"msgWriter.Write|(*flate.Writer).Write":    {"trimLastFourBytesWriter.Write"},
	"msgWriter.Close|(*flate.Writer).Flush":    {"trimLastFourBytesWriter.Write"},
	"limitReader.Read|invoke io.Reader.Read":   {"msgReader.read"},
	"msgReader.read|(*strings.Reader).Read":    {},
	"extractBufioWriterBuf|(*bufio.Writer).Flush": {"extractBufioWriterBuf$1"},
}

func resolveDynamic(p *Program, fn *ssa.Function, ci ssa.CallInstruction) ([]*ssa.Function, bool) {
	cc := ci.Common()
	_, name := p.calleeOf(cc)
	if !cc.IsInvoke() && name != "dyn" {
		return nil, false
	}
	// the site's own function, or (for a helper that is not part of the reference tree) the reference functions it was extracted from
	// a call through a parameter of function type inside a helper that is not part of the reference tree (a small
	// higher-order helper such as containsFunc): the callees are the function values its call sites pass, when every
	// one of them is a closure or a named function of the library
	if name == "dyn" {
		if prm, ok := cc.Value.(*ssa.Parameter); ok && !knownFuncs[p.rawName(fn)] && fn.Parent() == nil {
			idx := -1
			for i, q := range fn.Params {
				if q == prm {
					idx = i
				}
			}
			if idx >= 0 {
				var out []*ssa.Function
				all := true
				sites := 0
				for _, cs := range p.CallSites() {
					callee := cs.Instr.Common().StaticCallee()
					if callee == nil || (callee != fn && callee.Origin() != fn && fn.Origin() != callee) {
						continue
					}
					sites++
					args := cs.Instr.Common().Args
					if idx >= len(args) {
						all = false
						continue
					}
					switch a := args[idx].(type) {
					case *ssa.MakeClosure:
						if f, ok := a.Fn.(*ssa.Function); ok {
							out = append(out, f)
						} else {
							all = false
						}
					case *ssa.Function:
						out = append(out, a)
					default:
						all = false
					}
				}
				if all && sites > 0 {
					return out, true
				}
			}
		}
	}
	for _, owner := range dynOwners(p, fn) {
		if ts, ok := dynamicTable[owner+"|"+name]; ok {
			var out []*ssa.Function
			for _, t := range ts {
				if f := p.FuncOpt(t); f != nil {
					out = append(out, f)
				}
			}
			return out, true
		}
	}
	return nil, false
}

func dynOwners(p *Program, fn *ssa.Function) []string {
	name := p.rawName(fn)
	if knownFuncs[name] {
		return []string{name}
	}
	return append([]string{name, p.FuncName(fn)}, p.siteOwners(fn)...)
}

func isExternalDynamic(p *Program, fn *ssa.Function, callee string) bool {
	for _, owner := range dynOwners(p, fn) {
		if _, ok := externalDynamic[owner+"|"+callee]; ok {
			return true
		}
	}
	return false
}

// unresolvedDynamic lists dynamic call sites that are in neither table and could reach a library method.
func unresolvedDynamic(p *Program) []string {
	var out []string
	var libTypes []types.Type
	for _, path := range libPatterns {
		for _, m := range p.SSAPkgs[path].Members {
			if t, ok := m.(*ssa.Type); ok {
				libTypes = append(libTypes, t.Type(), types.NewPointer(t.Type()))
			}
		}
	}
	for _, cs := range p.CallSites() {
		cc := cs.Instr.Common()
		key := p.FuncName(cs.Fn) + "|" + cs.Name
		if _, ok := resolveDynamic(p, cs.Fn, cs.Instr); ok {
			continue
		}
		if isExternalDynamic(p, cs.Fn, cs.Name) {
			continue
		}
		if cc.IsInvoke() {
			iface, _ := cc.Value.Type().Underlying().(*types.Interface)
			impl := false
			for _, T := range libTypes {
				if iface != nil && types.Implements(T, iface) {
					impl = true
				}
			}
			// error.Error / context / http / hash: a library type may implement error (CloseError) — leaf, harmless
			_ = impl // interface sites outside the tables are resolved conservatively by class hierarchy in buildCallGraph
		} else if cs.Name == "dyn" {
			// func values: context.CancelFunc results are external
			if ex, ok := cc.Value.(*ssa.Extract); ok {
				if c, ok := ex.Tuple.(*ssa.Call); ok {
					if _, nm := p.calleeOf(&c.Call); strings.HasPrefix(nm, "context.With") || nm == "DialOptions.cloneWithDefaults" {
						continue
					}
				}
			}
			// a value of the named type context.CancelFunc comes from package context (or from the user) unless the
			// library itself converts one of its own functions to that type, which it never does (checked here)
			if cc.Value.Type().String() == "context.CancelFunc" && !libMakesCancelFunc(p) {
				continue
			}
			if u, ok := cc.Value.(*ssa.UnOp); ok {
				if fv, ok := u.X.(*ssa.FreeVar); ok && paramName(fv) == "cancel" {
					continue
				}
			}
			out = append(out, key+" at "+p.InstrPos(cs.Instr))
		}
	}
	sort.Strings(out)
	return out
}

// libMakesCancelFunc reports whether any library function converts a function value to context.CancelFunc.
func libMakesCancelFunc(p *Program) bool {
	for _, fn := range p.Funcs {
		for _, b := range fn.Blocks {
			for _, in := range b.Instrs {
				if ct, ok := in.(*ssa.ChangeType); ok && ct.Type().String() == "context.CancelFunc" {
					return true
				}
			}
		}
	}
	return false
}
