#!/bin/sh
# Builds the checker from files on disk only (vendored x/tools v0.29.0) and warms the
# export-data cache for /repo. Offline.
set -e
cd "$(dirname "$0")"
export GOFLAGS=-mod=vendor GOPROXY=off GOSUMDB=off GOTOOLCHAIN=local GOWORK=off
mkdir -p bin evidence
(cd checker && go build -o ../bin/wscheck . && go build -o ../bin/wrapgen ./wrapgen)
REPO="${VERIF_REPO:-/repo}"
(cd "$REPO" && GOFLAGS=-mod=mod go build ./... >/dev/null 2>&1 || true)
echo "setup ok"
