#!/bin/sh
# thorough.sh <Cxx> <repo> — after the three-architecture run: sensitivity corpus of the property
# (breaking mutants must be reported, behaviour-preserving edits must stay silent). Static only:
# scratch copies of the tree are type-checked and analysed, never executed. Results are merged into
# evidence/<Cxx>.json; they do not influence the exit code (a miss is a weakness of the checker, not
# a violation of the property).
PROP="$1"
cd "$(dirname "$0")"
[ -f evidence/$PROP.json ] || exit 0
VERIF_REPO="${2:-/repo}" python3 tools/mutants.py --prop "$PROP" --only-prop --write --jobs 14 > evidence/mutants.$PROP.log 2>&1 || true
python3 - "$PROP" <<'PY'
import json, sys, os
p = sys.argv[1]
ev = json.load(open("evidence/%s.json" % p))
try:
    m = json.load(open("evidence/mutants.%s.json" % p))
except Exception as e:
    m = {"error": str(e)}
seeds = {}
for d in sorted(os.listdir("seeded")) if os.path.isdir("seeded") else []:
    mp = os.path.join("seeded", d, "meta.json")
    if os.path.exists(mp):
        mm = json.load(open(mp))
        if p in (mm.get("caught_by") or {}):
            seeds[d] = mm["caught_by"][p]
ev["coverage"]["sensitivity"] = {
    "what": "scratch-copy variants of the tree, type-checked and analysed by this property's rules in a separate process (no library code executed)",
    "mutants_selected": m.get("selected"), "mutants_applicable": m.get("applicable"), "mutants_detected": m.get("detected"),
    "mutants_missed": m.get("missed"), "behaviour_preserving_edits_silent": m.get("benign_silent"), "false_alarms_on_behaviour_preserving_edits": m.get("false_alarms"),
    "results": [{k: r.get(k) for k in ("id", "status", "detail", "note")} for r in m.get("results", [])],
    "seeded_changes_reported_by_this_check (last tools/seedmatrix.py run)": seeds,
}
json.dump(ev, open("evidence/%s.json" % p, "w"), indent=1)
print("%s thorough: sensitivity corpus: %s applicable, %s detected, missed %s, benign silent %s, false alarms %s" % (p, m.get("applicable"), m.get("detected"), m.get("missed"), m.get("benign_silent"), m.get("false_alarms")))
PY
