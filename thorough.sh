#!/bin/sh
# thorough.sh <Cxx> <repo> — after the three-architecture run: sensitivity corpus of the property
# (breaking mutants must be reported, behaviour-preserving edits must stay silent). Static only:
# scratch copies of the tree are type-checked and analysed, never executed. Results are merged into
# evidence/<Cxx>.json; they do not influence the exit code (a miss is a weakness of the checker, not
# a violation of the property).
PROP="$1"
cd "$(dirname "$0")"
[ -x bin/wrapgen ] || (cd checker && GOFLAGS=-mod=vendor GOPROXY=off GOSUMDB=off GOTOOLCHAIN=local GOWORK=off go build -o ../bin/wrapgen ./wrapgen) || true
[ -f evidence/$PROP.json ] || exit 0
VERIF_REPO="${2:-/repo}" python3 tools/mutants.py --prop "$PROP" --only-prop --write --jobs 14 > evidence/mutants.$PROP.log 2>&1 || true
# behaviour-preserving corpora for this property: 120 refactorings written by independent agents (benign/) and the
# whole-body extraction of every function (bin/wrapgen); every one must leave this check silent
ONLY_PROP="$PROP" SUMMARY_JSON="evidence/benign.$PROP.tmp.json" VERIF_REPO="${2:-/repo}" python3 tools/benignmatrix.py > evidence/benign.$PROP.tmp.log 2>&1 || true
ONLY_PROP="$PROP" SUMMARY_JSON="evidence/wrap.$PROP.tmp.json" JOBS=14 VERIF_REPO="${2:-/repo}" python3 tools/wrapmatrix.py > evidence/wrap.$PROP.tmp.log 2>&1 || true
python3 - "$PROP" <<'PY'
import json, sys, os
p = sys.argv[1]
ev = json.load(open("evidence/%s.json" % p))
try:
    m = json.load(open("evidence/mutants.%s.json" % p))
except Exception as e:
    m = {"error": str(e)}
seeds = {}
for d in sorted(os.listdir("seeded")) if os.path.isdir("seeded") else []:
    mp = os.path.join("seeded", d, "meta.json")
    if os.path.exists(mp):
        mm = json.load(open(mp))
        if p in (mm.get("caught_by") or {}):
            seeds[d] = mm["caught_by"][p]
ev["coverage"]["sensitivity"] = {
    "what": "scratch-copy variants of the tree, type-checked and analysed by this property's rules in a separate process (no library code executed)",
    "mutants_selected": m.get("selected"), "mutants_applicable": m.get("applicable"), "mutants_detected": m.get("detected"),
    "mutants_missed": m.get("missed"), "behaviour_preserving_edits_silent": m.get("benign_silent"), "false_alarms_on_behaviour_preserving_edits": m.get("false_alarms"),
    "results": [{k: r.get(k) for k in ("id", "status", "detail", "note")} for r in m.get("results", [])],
    "seeded_changes_reported_by_this_check (last tools/seedmatrix.py run)": seeds,
}
for name, key in (("benign", "refactorings_by_independent_agents"), ("wrap", "whole_body_extraction_of_every_function")):
    try:
        ev["coverage"]["sensitivity"][key] = json.load(open("evidence/%s.%s.tmp.json" % (name, p)))
    except Exception as e:
        ev["coverage"]["sensitivity"][key] = {"error": str(e)}
    for ext in ("json", "log"):
        try:
            os.remove("evidence/%s.%s.tmp.%s" % (name, p, ext))
        except OSError:
            pass
json.dump(ev, open("evidence/%s.json" % p, "w"), indent=1)
b, w = ev["coverage"]["sensitivity"]["refactorings_by_independent_agents"], ev["coverage"]["sensitivity"]["whole_body_extraction_of_every_function"]
print("%s thorough: behaviour-preserving corpora: refactorings %s/%s silent, whole-body extractions %s/%s silent" % (p, b.get("silent"), b.get("changes"), w.get("silent"), w.get("functions")))
print("%s thorough: sensitivity corpus: %s applicable, %s detected, missed %s, benign silent %s, false alarms %s" % (p, m.get("applicable"), m.get("detected"), m.get("missed"), m.get("benign_silent"), m.get("false_alarms")))
PY
