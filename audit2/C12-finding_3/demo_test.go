package websocket_test

import (
	"bufio"
	"net"
	"net/http"
	"net/http/httptest"
	"strings"
	"testing"
	"time"

	"nhooyr.io/websocket"
)

// Origin hosts are compared with Unicode rules: patterns with
// strings.ToLower on both sides, the Host with strings.EqualFold. Non-ASCII
// letters whose Unicode lower case / fold is an ASCII letter therefore make a
// different host name pass for an authorised one:
//   U+0130 (I with dot above) -> ToLower -> "i"   (not even EqualFold-equal to "i")
//   U+212A (Kelvin sign)      -> "k"
//   U+017F (long s)           -> EqualFold-equal to "s"
func TestC12F3_UnicodeLowercasingAuthorisesOtherHost(t *testing.T) {
	send := func(t *testing.T, patterns []string, host, origin string) (statusLine string, upgraded bool) {
		t.Helper()
		done := make(chan bool, 1)
		s := httptest.NewServer(http.HandlerFunc(func(w http.ResponseWriter, r *http.Request) {
			c, err := websocket.Accept(w, r, &websocket.AcceptOptions{OriginPatterns: patterns})
			if c != nil {
				c.CloseNow()
			}
			done <- err == nil
		}))
		defer s.Close()

		nc, err := net.Dial("tcp", s.Listener.Addr().String())
		if err != nil {
			t.Fatal(err)
		}
		defer nc.Close()
		nc.SetDeadline(time.Now().Add(5 * time.Second))

		req := "GET / HTTP/1.1\r\n" +
			"Host: " + host + "\r\n" +
			"Connection: Upgrade\r\n" +
			"Upgrade: websocket\r\n" +
			"Sec-WebSocket-Version: 13\r\n" +
			"Sec-WebSocket-Key: dGhlIHNhbXBsZSBub25jZQ==\r\n" +
			"Origin: " + origin + "\r\n" +
			"\r\n"
		if _, err := nc.Write([]byte(req)); err != nil {
			t.Fatal(err)
		}
		line, err := bufio.NewReader(nc).ReadString('\n')
		if err != nil {
			t.Fatal(err)
		}
		select {
		case upgraded = <-done:
		case <-time.After(5 * time.Second):
			t.Fatal("handler did not finish")
		}
		return strings.TrimSpace(line), upgraded
	}

	// Sanity: strings.EqualFold itself does not consider these equal.
	if strings.EqualFold("shİp.example", "ship.example") {
		t.Fatal("unexpected: EqualFold folds U+0130 to i")
	}

	for _, tc := range []struct {
		name     string
		patterns []string
		host     string
		origin   string
	}{
		// IDNA maps U+0130 to "i" + U+0307: shİp.example is the domain xn--ship-... , not ship.example.
		{"patternDottedI", []string{"ship.example"}, "ws.example", "http://shİp.example"},
		{"patternKelvin", []string{"*.kiosk.example"}, "ws.example", "http://a.Kiosk.example"},
		{"hostKelvin", nil, "kiosk.example", "http://Kiosk.example"},
		{"hostLongS", nil, "site.example", "http://ſite.example"},
	} {
		status, up := send(t, tc.patterns, tc.host, tc.origin)
		if up || !strings.Contains(status, " 403 ") {
			t.Errorf("%s: Origin %q (Host %q, patterns %q) was answered %q, upgraded=%v; want 403 Forbidden and no upgrade",
				tc.name, tc.origin, tc.host, tc.patterns, status, up)
		}
	}
}
