//go:build !js

package websocket_test

import (
	"context"
	"errors"
	"testing"
	"time"

	"nhooyr.io/websocket"
	"nhooyr.io/websocket/internal/test/wstest"
)

// The net.Conn adapter documents "Close will close the *websocket.Conn with
// StatusNormalClosure" and does so by calling c.Close(StatusNormalClosure, "").
// With a Read pending on the net.Conn (the usual shape: one goroutine sits in Read, another
// one closes) the close handshake never happens: netConn.Close first cancels the context of
// the pending Read, which makes the timeout goroutine tear the transport down, and only
// then calls c.Close, which finds the connection gone, sends nothing and still returns nil.
// The peer's pending read fails with EOF instead of CloseError{1000}.
func TestNetConnCloseSendsCloseFrameWithPendingRead(t *testing.T) {
	a, b := wstest.Pipe(nil, nil)
	defer a.CloseNow()
	defer b.CloseNow()

	ctx, cancel := context.WithTimeout(context.Background(), 15*time.Second)
	defer cancel()

	nc := websocket.NetConn(ctx, a, websocket.MessageBinary)
	ncReadDone := make(chan struct{})
	go func() {
		defer close(ncReadDone)
		nc.Read(make([]byte, 16))
	}()

	peerErr := make(chan error, 1)
	go func() {
		_, _, err := b.Read(ctx)
		peerErr <- err
	}()

	// Let both reads block.
	time.Sleep(50 * time.Millisecond)

	err := nc.Close()
	if err != nil {
		t.Fatalf("nc.Close: %v", err)
	}
	<-ncReadDone

	err = <-peerErr
	if websocket.CloseStatus(err) != websocket.StatusNormalClosure {
		var ce websocket.CloseError
		t.Fatalf("Close(StatusNormalClosure, \"\") returned nil, but no close frame reached the peer: its pending read failed with %q (is CloseError: %v), want CloseError{Code: StatusNormalClosure}", err, errors.As(err, &ce))
	}
}
