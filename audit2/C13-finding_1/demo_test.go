package websocket_test

import (
	"context"
	"net/http"
	"net/http/httptest"
	"runtime"
	"sync/atomic"
	"testing"
	"time"

	"nhooyr.io/websocket"
)

// A server that answers every handshake request with a redirect never sends a
// valid handshake response, so Dial has to give up and return an error. An
// http.Client whose CheckRedirect is nil (http.DefaultClient included) stops
// after 10 redirects. Dial replaces CheckRedirect by a wrapper that returns nil
// when the caller had none, which removes that bound: Dial follows redirects
// for as long as its context lives, i.e. forever with context.Background().
func TestAudit2C13DialFollowsRedirectsWithoutBound(t *testing.T) {
	// Far beyond the 10 redirects of net/http's default policy.
	const giveUp = 200

	ctx, cancel := context.WithTimeout(context.Background(), 15*time.Second)
	defer cancel()

	var hits int64
	s := httptest.NewServer(http.HandlerFunc(func(w http.ResponseWriter, r *http.Request) {
		if atomic.AddInt64(&hits, 1) >= giveUp {
			// Stop the experiment. Without this Dial would go on until ctx expires
			// (and never return at all under context.Background()).
			cancel()
		}
		http.Redirect(w, r, "/again", http.StatusFound)
	}))
	tr := &http.Transport{}
	defer func() {
		// Leave no goroutine behind for the check in TestMain.
		tr.CloseIdleConnections()
		s.Close()
		for i := 0; i < 100 && runtime.NumGoroutine() > 2; i++ {
			time.Sleep(10 * time.Millisecond)
		}
	}()

	// The same as http.DefaultClient as far as redirects go: CheckRedirect is nil.
	opts := &websocket.DialOptions{HTTPClient: &http.Client{Transport: tr}}

	start := time.Now()
	c, _, err := websocket.Dial(ctx, s.URL, opts)
	n := atomic.LoadInt64(&hits)
	t.Logf("Dial returned after %v and %d handshake requests: conn=%v err=%v", time.Since(start), n, c != nil, err)
	if c != nil {
		c.CloseNow()
		t.Errorf("Dial returned a connection")
	}
	if err == nil {
		t.Errorf("Dial returned no error")
	}
	// 1 request + the 10 redirects net/http follows by default.
	if n > 11 {
		t.Errorf("Dial sent %d handshake requests and only stopped because its context was cancelled; "+
			"it has to return an error on its own after a bounded number of redirects (net/http's default is 10)", n)
	}
}
