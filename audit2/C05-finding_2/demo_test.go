//go:build !js

package websocket_test

import (
	"bytes"
	"context"
	"testing"
	"time"

	"nhooyr.io/websocket"
	"nhooyr.io/websocket/internal/test/wstest"
)

// CloseRead is documented as safe to call concurrently with a Read that is in progress.
//
// Schedule:
//  1. goroutine A is inside c.Read and waits for the next message (c is the client)
//  2. the test calls c.CloseRead
//  3. the peer (server) writes ONE binary message whose six payload bytes happen to look like a frame
//
// The Reader call inside CloseRead only checks msgReader.fin to decide that the previous
// message was read to completion. For a single frame message fin is true as soon as the header
// was read, so it goes on and parses the unread PAYLOAD of A's message as frame headers.
// A's Read then returns, with a nil error, a "message" the peer never wrote.
func TestC05CloseReadParsesPayloadOfReadInFlightAsFrames(t *testing.T) {
	c, peer := wstest.Pipe(nil, nil)
	defer c.CloseNow()
	defer peer.CloseNow()

	ctx, cancel := context.WithTimeout(context.Background(), 15*time.Second)
	defer cancel()

	// FIN|binary, unmasked, length 4, "EVIL"
	msg := []byte{0x82, 0x04, 'E', 'V', 'I', 'L'}

	type res struct {
		typ websocket.MessageType
		b   []byte
		err error
	}
	done := make(chan res, 1)
	go func() {
		typ, b, err := c.Read(ctx)
		done <- res{typ, b, err}
	}()

	time.Sleep(200 * time.Millisecond)
	c.CloseRead(ctx)
	time.Sleep(200 * time.Millisecond)

	go peer.Write(ctx, websocket.MessageBinary, msg)

	select {
	case r := <-done:
		if r.err != nil {
			t.Logf("Read failed, which is acceptable: %v", r.err)
			return
		}
		if bytes.Equal(r.b, msg) {
			t.Logf("Read returned the message, which is acceptable")
			return
		}
		t.Fatalf("Read returned nil error and %q: the only message the peer wrote is %q; its payload was parsed as a frame", r.b, msg)
	case <-time.After(12 * time.Second):
		t.Fatal("Read did not return")
	}
}
