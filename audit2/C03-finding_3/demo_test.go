//go:build !js

package websocket

import (
	"bufio"
	"bytes"
	"context"
	"io"
	"net"
	"testing"
	"time"
)

// c03f3Frame encodes one unmasked frame (server to client).
func c03f3Frame(fin, rsv1 bool, op byte, payload []byte) []byte {
	b0 := op
	if fin {
		b0 |= 0x80
	}
	if rsv1 {
		b0 |= 0x40
	}
	out := []byte{b0}
	switch {
	case len(payload) > 65535:
		panic("too large")
	case len(payload) > 125:
		out = append(out, 126, byte(len(payload)>>8), byte(len(payload)))
	default:
		out = append(out, byte(len(payload)))
	}
	return append(out, payload...)
}

// A compressed message whose payload is not DEFLATE data (its first block has the
// reserved block type 11) cannot be decoded. The read fails, but unlike after every
// other violation the connection is neither failed nor closed: no close frame is sent
// and the next read goes on with whatever follows in the transport. As the flate
// reader had consumed only the first 4096 bytes of the frame, what follows is the rest
// of the payload of the rejected frame, and it is parsed as frames: bytes that are
// data of the rejected frame are delivered as the message "SMUGGLED".
func TestC03Finding3UndecodableDeflateLeavesConnectionOpen(t *testing.T) {
	p1, p2 := net.Pipe()
	defer p2.Close()
	c := newConn(connConfig{
		rwc:    p1,
		client: true,
		copts:  &compressionOptions{},
		br:     bufio.NewReader(p1),
		bw:     bufio.NewWriter(p1),
	})
	defer c.CloseNow()

	payload := []byte{0x06}                                        // BFINAL=0, BTYPE=11 (reserved)
	payload = append(payload, bytes.Repeat([]byte{0x00}, 4095)...) // fills the 4096 byte buffer of the flate reader
	payload = append(payload, c03f3Frame(true, false, 0x1, []byte("SMUGGLED"))...)
	wire := c03f3Frame(true, true, 0x1, payload)
	wire = append(wire, c03f3Frame(true, false, 0x1, []byte("next message"))...)

	var sent bytes.Buffer
	peerDone := make(chan struct{})
	go func() {
		defer close(peerDone)
		go p2.Write(wire)
		io.Copy(&sent, p2)
	}()

	ctx, cancel := context.WithTimeout(context.Background(), 10*time.Second)
	defer cancel()

	_, _, err := c.Read(ctx)
	if err == nil {
		t.Fatal("the undecodable message was delivered")
	}
	t.Logf("first read: %v", err)

	_, b, err := c.Read(ctx)
	if err == nil {
		t.Errorf("after the undecodable message the connection was not failed: the next read delivered %q", b)
	}

	c.CloseNow()
	p2.Close()
	<-peerDone
	if sent.Len() == 0 {
		t.Errorf("no close frame was sent for the undecodable message")
	}
}
