package websocket_test

import (
	"context"
	"net/http"
	"net/http/httptest"
	"runtime"
	"sync"
	"testing"
	"time"

	"nhooyr.io/websocket"
)

// Dial follows redirects (RFC 6455 section 4.1 allows that), and every hop is a
// new opening handshake on a new connection, possibly to another host. The nonce
// in Sec-WebSocket-Key "MUST be selected randomly for each connection" (RFC 6455
// section 4.1, item 7 of the request requirements). Dial generates the key once
// and net/http copies the headers of the first request to every redirected
// request, so the second server is sent the key the first server has already seen.
func TestAudit2C13RedirectedHandshakeReusesKey(t *testing.T) {
	ctx, cancel := context.WithTimeout(context.Background(), 10*time.Second)
	defer cancel()

	var mu sync.Mutex
	var keys []string
	record := func(r *http.Request) {
		mu.Lock()
		keys = append(keys, r.Header.Get("Sec-WebSocket-Key"))
		mu.Unlock()
	}

	// The server the client ends up at. It completes the handshake.
	target := httptest.NewServer(http.HandlerFunc(func(w http.ResponseWriter, r *http.Request) {
		record(r)
		c, err := websocket.Accept(w, r, nil)
		if err != nil {
			return
		}
		c.Close(websocket.StatusNormalClosure, "")
	}))
	// Another host (another port, another TCP connection) that redirects there.
	first := httptest.NewServer(http.HandlerFunc(func(w http.ResponseWriter, r *http.Request) {
		record(r)
		http.Redirect(w, r, target.URL, http.StatusFound)
	}))
	tr := &http.Transport{}
	defer func() {
		// Leave no goroutine behind for the check in TestMain.
		tr.CloseIdleConnections()
		first.Close()
		target.Close()
		for i := 0; i < 100 && runtime.NumGoroutine() > 2; i++ {
			time.Sleep(10 * time.Millisecond)
		}
	}()

	c, _, err := websocket.Dial(ctx, first.URL, &websocket.DialOptions{HTTPClient: &http.Client{Transport: tr}})
	if err != nil {
		t.Fatalf("Dial through one redirect failed: %v", err)
	}
	c.Close(websocket.StatusNormalClosure, "")

	mu.Lock()
	defer mu.Unlock()
	t.Logf("keys sent: %q", keys)
	if len(keys) != 2 {
		t.Fatalf("expected 2 handshake requests, got %d", len(keys))
	}
	if keys[0] == keys[1] {
		t.Errorf("the handshake request sent to the second server carries the same Sec-WebSocket-Key %q "+
			"as the request sent to the first one; each attempt needs a fresh random key", keys[0])
	}
}
