//go:build !js

package websocket

import (
	"bufio"
	"errors"
	"fmt"
	"net"
	"net/http"
	"net/http/httptest"
	"testing"
	"time"
)

// c11f1Writer is a ResponseWriter wrapper (as middleware commonly installs)
// whose Hijack fails, e.g. because the wrapped writer cannot be hijacked.
type c11f1Writer struct {
	http.ResponseWriter
}

func (c11f1Writer) Hijack() (net.Conn, *bufio.ReadWriter, error) {
	return nil, nil, errors.New("hijacking is not supported")
}

// A valid handshake request arrives at a real net/http server, but the
// connection cannot be taken over. Accept returns an error, so the request was
// not upgraded; the client must therefore see an HTTP error status. Instead it
// sees a complete, correct "101 Switching Protocols" answer.
func TestC11F1_HijackFailureStillAnswers101(t *testing.T) {
	const key = "dGhlIHNhbXBsZSBub25jZQ=="

	accErr := make(chan error, 1)
	srv := httptest.NewServer(http.HandlerFunc(func(w http.ResponseWriter, r *http.Request) {
		c, err := Accept(c11f1Writer{w}, r, nil)
		if c != nil {
			c.CloseNow()
		}
		accErr <- err
	}))
	defer srv.Close()

	nc, err := net.Dial("tcp", srv.Listener.Addr().String())
	if err != nil {
		t.Fatal(err)
	}
	defer nc.Close()
	nc.SetDeadline(time.Now().Add(5 * time.Second))

	fmt.Fprintf(nc, "GET / HTTP/1.1\r\nHost: example.com\r\nConnection: Upgrade\r\nUpgrade: websocket\r\n"+
		"Sec-WebSocket-Version: 13\r\nSec-WebSocket-Key: %s\r\n\r\n", key)

	resp, err := http.ReadResponse(bufio.NewReader(nc), nil)
	if err != nil {
		t.Fatalf("no response: %v", err)
	}
	aerr := <-accErr
	if aerr == nil {
		t.Fatalf("Accept succeeded although Hijack failed")
	}
	t.Logf("Accept returned: %v", aerr)
	t.Logf("client received: %s %v", resp.Status, resp.Header)

	if resp.StatusCode == http.StatusSwitchingProtocols {
		t.Fatalf("Accept failed (%v) and did not take the connection over, but the client was answered %q with Sec-WebSocket-Accept %q; want an HTTP error status",
			aerr, resp.Status, resp.Header.Get("Sec-WebSocket-Accept"))
	}
	if resp.StatusCode < 400 {
		t.Fatalf("Accept failed but the client was answered %q; want an HTTP error status", resp.Status)
	}
}
