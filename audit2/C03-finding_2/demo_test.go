//go:build !js

package websocket

import (
	"bufio"
	"bytes"
	"context"
	"io"
	"net"
	"testing"
	"time"
)

// c03f2Frame encodes one unmasked frame (server to client).
func c03f2Frame(fin, rsv1 bool, op byte, payload []byte) []byte {
	b0 := op
	if fin {
		b0 |= 0x80
	}
	if rsv1 {
		b0 |= 0x40
	}
	out := []byte{b0}
	switch {
	case len(payload) > 65535:
		panic("too large")
	case len(payload) > 125:
		out = append(out, 126, byte(len(payload)>>8), byte(len(payload)))
	default:
		out = append(out, byte(len(payload)))
	}
	return append(out, payload...)
}

// The payload of a compressed message is a DEFLATE stream that stops in the middle
// of a block. This is not a valid permessage-deflate message: after the four bytes
// 00 00 ff ff are appended the data has to be a sequence of complete DEFLATE blocks
// (RFC 7692 section 7.2.2). A decoder has to fail the read, as the library does for
// any other invalid DEFLATE data ("flate: corrupt input"). Instead the library reports
// a complete message:
//   - a stored block that announces 100 bytes of which only 50 are there is delivered as
//     a 54 byte message that ends in 00 00 ff ff, the bytes the library itself appends
//     for the decompressor: data the peer never sent is handed out as message data;
//   - "Hello" in a fixed Huffman block (RFC 7692 section 7.2.3.1) cut after four of
//     its seven bytes is delivered as the complete message "Helh".
func TestC03Finding2TruncatedDeflateDelivered(t *testing.T) {
	stored := []byte{0x00, 100, 0, 0xff ^ 100, 0xff} // BFINAL=0 BTYPE=00, LEN=100, NLEN=^100
	stored = append(stored, bytes.Repeat([]byte("A"), 50)...)

	cases := []struct {
		name    string
		payload []byte
	}{
		{"stored block of 100 bytes with 50 bytes", stored},
		{"fixed huffman block cut short", []byte{0xf2, 0x48, 0xcd, 0xc9}}, // f2 48 cd c9 c9 07 00 is "Hello"
	}
	for _, tc := range cases {
		tc := tc
		t.Run(tc.name, func(t *testing.T) {
			p1, p2 := net.Pipe()
			defer p2.Close()
			c := newConn(connConfig{
				rwc:    p1,
				client: true,
				copts:  &compressionOptions{},
				br:     bufio.NewReader(p1),
				bw:     bufio.NewWriter(p1),
			})
			defer c.CloseNow()

			wire := c03f2Frame(true, true, 0x1, tc.payload)
			go func() {
				p2.Write(wire)
				io.Copy(io.Discard, p2)
			}()

			ctx, cancel := context.WithTimeout(context.Background(), 10*time.Second)
			defer cancel()
			typ, b, err := c.Read(ctx)
			if err == nil {
				t.Fatalf("a message whose DEFLATE stream is cut off inside a block was delivered as a complete %v message of %d bytes: %q", typ, len(b), b)
			}
			t.Logf("rejected: %v", err)
		})
	}
}
