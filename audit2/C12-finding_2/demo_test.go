package websocket_test

import (
	"bufio"
	"net"
	"net/http"
	"net/http/httptest"
	"strings"
	"testing"
	"time"

	"nhooyr.io/websocket"
)

// Accept refuses an Origin such as "evil.example" (no scheme, so url.Parse
// yields an empty host) with `request Origin "evil.example" is not a valid URL
// with a host` - but only after comparing the (empty) parsed host with r.Host.
// A legal HTTP/1.1 request with an empty Host header ("Host:") therefore gets
// the same Origin accepted: "" equals "".
func TestC12F2_HostlessOriginEqualsEmptyHost(t *testing.T) {
	send := func(t *testing.T, hostLine, originLine string) (statusLine string, upgraded bool) {
		t.Helper()
		done := make(chan bool, 1)
		s := httptest.NewServer(http.HandlerFunc(func(w http.ResponseWriter, r *http.Request) {
			c, err := websocket.Accept(w, r, nil) // default options: origin verification enabled
			if c != nil {
				c.CloseNow()
			}
			done <- err == nil
		}))
		defer s.Close()

		nc, err := net.Dial("tcp", s.Listener.Addr().String())
		if err != nil {
			t.Fatal(err)
		}
		defer nc.Close()
		nc.SetDeadline(time.Now().Add(5 * time.Second))

		req := "GET / HTTP/1.1\r\n" +
			hostLine +
			"Connection: Upgrade\r\n" +
			"Upgrade: websocket\r\n" +
			"Sec-WebSocket-Version: 13\r\n" +
			"Sec-WebSocket-Key: dGhlIHNhbXBsZSBub25jZQ==\r\n" +
			originLine +
			"\r\n"
		if _, err := nc.Write([]byte(req)); err != nil {
			t.Fatal(err)
		}
		line, err := bufio.NewReader(nc).ReadString('\n')
		if err != nil {
			t.Fatal(err)
		}
		select {
		case upgraded = <-done:
		case <-time.After(5 * time.Second):
			t.Fatal("handler did not finish")
		}
		return strings.TrimSpace(line), upgraded
	}

	// With a non-empty Host the library refuses this Origin (as its own test
	// TestAccept/badOrigin demands).
	if status, up := send(t, "Host: example.com\r\n", "Origin: evil.example\r\n"); up || !strings.Contains(status, " 403 ") {
		t.Fatalf("baseline broken: status %q upgraded %v", status, up)
	}

	for _, origin := range []string{"evil.example", "//", "http:///evil.example"} {
		status, up := send(t, "Host:\r\n", "Origin: "+origin+"\r\n")
		if up || !strings.Contains(status, " 403 ") {
			t.Errorf("Origin %q with an empty Host header and no patterns was answered %q, upgraded=%v; "+
				"want 403 Forbidden and no upgrade", origin, status, up)
		}
	}
}
