//go:build !js

package websocket

import (
	"bufio"
	"crypto/sha1"
	"encoding/base64"
	"net"
	"net/http"
	"net/http/httptest"
	"testing"
)

type c11f2Writer struct {
	http.ResponseWriter
	hijack func() (net.Conn, *bufio.ReadWriter, error)
}

func (w c11f2Writer) Hijack() (net.Conn, *bufio.ReadWriter, error) { return w.hijack() }

// verifyClientRequest validates the Sec-WebSocket-Key after removing leading
// and trailing white space ("The RFC states to remove any leading or trailing
// whitespace", and Test_verifyClientHandshake/successSecKeyExtraSpace demands
// that such a request is accepted), but accept() hashes the untrimmed header
// value. The request is upgraded with a Sec-WebSocket-Accept that is not
// base64(SHA-1(key + GUID)).
func TestC11F2_AcceptHashesUntrimmedKey(t *testing.T) {
	const key = "dGhlIHNhbXBsZSBub25jZQ==" // RFC 6455 section 1.3 sample
	const want = "s3pPLMBiTxaQ9kYGzzhZRbK+xOo=" // RFC 6455 section 1.3 sample
	sum := sha1.Sum([]byte(key + "258EAFA5-E914-47DA-95CA-C5AB0DC85B11"))
	if base64.StdEncoding.EncodeToString(sum[:]) != want {
		t.Fatal("test is wrong")
	}

	for _, hdr := range []string{" " + key, key + " ", "\t" + key + " \t"} {
		r := httptest.NewRequest("GET", "/", nil)
		r.Header.Set("Connection", "Upgrade")
		r.Header.Set("Upgrade", "websocket")
		r.Header.Set("Sec-WebSocket-Version", "13")
		r.Header.Set("Sec-WebSocket-Key", hdr)

		server, client := net.Pipe()
		defer client.Close()
		defer server.Close()
		hijacked := false
		rec := httptest.NewRecorder()
		w := c11f2Writer{ResponseWriter: rec, hijack: func() (net.Conn, *bufio.ReadWriter, error) {
			hijacked = true
			return server, bufio.NewReadWriter(bufio.NewReader(server), bufio.NewWriter(server)), nil
		}}

		c, err := Accept(w, r, nil)
		if c != nil {
			defer c.CloseNow()
		}
		got := rec.Header().Get("Sec-WebSocket-Accept")
		t.Logf("key header %q: err=%v status=%d hijacked=%v Sec-WebSocket-Accept=%q", hdr, err, rec.Code, hijacked, got)

		if err != nil && !hijacked && rec.Code >= 400 {
			continue // refusing the request would be consistent as well
		}
		if got != want {
			t.Errorf("key header %q: upgraded (status %d) with Sec-WebSocket-Accept %q, want %q = base64(SHA-1(key + GUID)) for the key %q that was validated",
				hdr, rec.Code, got, want, key)
		}
	}
}
