package websocket

import (
	"bytes"
	"context"
	"io"
	"net"
	"testing"
	"time"
)

// A legal peer (server role, raw frames over net.Pipe) sends the first fragment of a binary
// message ("abc", FIN=0) and then a close frame with status 1000 (control frames may be
// injected in the middle of a fragmented message, RFC 6455 section 5.4; nothing may follow
// a close frame, so the message is never finished). NetConn documents: "A received
// StatusNormalClosure or StatusGoingAway close frame will be translated to io.EOF when reading."
func TestC18NetConnNormalCloseBetweenFragmentsIsNotEOF(t *testing.T) {
	a, peer := net.Pipe()
	c := newConn(connConfig{rwc: a, client: true, br: getBufioReader(a), bw: getBufioWriter(a)})
	ctx, cancel := context.WithTimeout(context.Background(), 15*time.Second)
	defer cancel()
	nc := NetConn(ctx, c, MessageBinary)

	// The peer reads whatever the client sends (the close echo) and discards it.
	peerDone := make(chan struct{})
	go func() {
		io.Copy(io.Discard, peer)
		close(peerDone)
	}()
	go func() {
		peer.Write([]byte{0x02, 0x03, 'a', 'b', 'c'}) // binary, FIN=0, "abc"
		peer.Write([]byte{0x88, 0x02, 0x03, 0xe8})    // close, status 1000
	}()

	var got bytes.Buffer
	buf := make([]byte, 16)
	var err error
	for {
		var n int
		n, err = nc.Read(buf)
		got.Write(buf[:n])
		if err != nil {
			break
		}
	}

	status := CloseStatus(err)
	nc.Close()
	peer.Close()
	<-peerDone

	if got.String() != "abc" {
		t.Errorf("read %q, want %q", got.String(), "abc")
	}
	if err != io.EOF {
		t.Fatalf("the peer's close frame with status %v was reported as %q, want io.EOF", status, err)
	}
}
