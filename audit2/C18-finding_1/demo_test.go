package websocket_test

import (
	"context"
	"io"
	"testing"
	"time"

	"nhooyr.io/websocket"
	"nhooyr.io/websocket/internal/test/wstest"
)

// One side of a NetConn pair has a goroutine blocked in Read (the normal state of any
// proxy/tunnel built on a net.Conn) and then calls Close, which is documented to close
// the WebSocket with StatusNormalClosure. The other side must read that as io.EOF.
func TestC18NetConnCloseWithBlockedReadIsNotEOFForPeer(t *testing.T) {
	c1, c2 := wstest.Pipe(nil, nil)
	ctx, cancel := context.WithTimeout(context.Background(), 15*time.Second)
	defer cancel()

	n1 := websocket.NetConn(ctx, c1, websocket.MessageBinary)
	n2 := websocket.NetConn(ctx, c2, websocket.MessageBinary)

	// n1: a reader goroutine waits for data, as in io.Copy(dst, n1).
	n1ReadDone := make(chan error, 1)
	go func() {
		_, err := n1.Read(make([]byte, 16))
		n1ReadDone <- err
	}()
	time.Sleep(50 * time.Millisecond) // let the Read block

	// n1 is closed normally from another goroutine.
	n1CloseDone := make(chan error, 1)
	go func() { n1CloseDone <- n1.Close() }()

	// n2 must see a clean end of stream.
	_, err := n2.Read(make([]byte, 16))

	closeErr := <-n1CloseDone
	<-n1ReadDone
	n2.Close()

	t.Logf("n1.Close() returned %v", closeErr)
	if err != io.EOF {
		t.Fatalf("peer of a normally closed NetConn: Read returned %q, want io.EOF "+
			"(no close frame was ever sent: NetConn.Close cancelled the blocked Read's context first, "+
			"which made the timeout goroutine tear down the transport before the close handshake)", err)
	}
}
