package websocket

import (
	"bufio"
	"context"
	"errors"
	"io"
	"net"
	"sync/atomic"
	"testing"
	"time"
)

type c10FlakyTransport struct {
	net.Conn
	fail atomic.Bool
}

func (f *c10FlakyTransport) Write(p []byte) (int, error) {
	if f.fail.Load() {
		return 0, errors.New("transport write failure")
	}
	return f.Conn.Write(p)
}

// Write(ctx) fails because the transport reports a write error. The call has
// returned, but its context stays armed in timeoutLoop and the connection is left
// open: cancelling that context afterwards (the usual deferred cancel) closes the
// connection under a Read of another goroutine that has its own, live context.
// A context must bound only its own call: either the failed Write closes the
// connection itself (as documented for any error) or its context has no
// effect once the call has returned.
func TestC10ContextOfReturnedWriteStillBoundsConn(t *testing.T) {
	p1, p2 := net.Pipe()
	defer p2.Close()
	go io.Copy(io.Discard, p2)

	rwc := &c10FlakyTransport{Conn: p1}
	c := newConn(connConfig{
		rwc: rwc,
		br:  bufio.NewReader(rwc),
		bw:  bufio.NewWriterSize(rwc, 4096),
	})
	defer c.CloseNow()

	readDone := make(chan error, 1)
	go func() {
		_, _, err := c.Read(context.Background())
		readDone <- err
	}()
	time.Sleep(20 * time.Millisecond)

	rwc.fail.Store(true)
	ctx, cancel := context.WithCancel(context.Background())
	defer cancel()
	err := c.Write(ctx, MessageText, []byte("x"))
	if err == nil {
		t.Fatal("expected the write to fail")
	}
	t.Logf("Write returned: %v", err)

	select {
	case rerr := <-readDone:
		// The failed write closed the connection on its own: fine.
		t.Logf("connection closed by the failed write itself: %v", rerr)
		return
	case <-time.After(300 * time.Millisecond):
	}
	select {
	case <-c.closed:
		return
	default:
	}

	// The connection survived the failed Write. Its context must be irrelevant now.
	cancel()

	select {
	case rerr := <-readDone:
		t.Fatalf("cancelling the context of a Write that had already returned closed the connection; concurrent Read with context.Background() failed: %v", rerr)
	case <-time.After(300 * time.Millisecond):
	}
}
