package websocket_test

import (
	"bufio"
	"context"
	"io"
	"net"
	"net/http/httptest"
	"testing"
	"time"

	"nhooyr.io/websocket"
	"nhooyr.io/websocket/wsjson"
)

type c10Hijacker struct {
	*httptest.ResponseRecorder
	conn net.Conn
}

func (h c10Hijacker) Hijack() (net.Conn, *bufio.ReadWriter, error) {
	return h.conn, bufio.NewReadWriter(bufio.NewReader(h.conn), bufio.NewWriter(h.conn)), nil
}

// wsjson.Read is given a context of 100 ms. The peer sends a text message that is not
// valid JSON, reads whatever the library sends, and never sends a close frame.
// wsjson.Read blocks in c.Close (5 s to write the close frame + 5 s to wait for the
// peer's close frame, both under context.Background()) and so returns 5 s after
// its context expired instead of promptly.
func TestC10WsjsonReadIgnoresContextWhileClosing(t *testing.T) {
	p1, p2 := net.Pipe()
	defer p2.Close()

	r := httptest.NewRequest("GET", "/", nil)
	r.Header.Set("Connection", "Upgrade")
	r.Header.Set("Upgrade", "websocket")
	r.Header.Set("Sec-WebSocket-Version", "13")
	r.Header.Set("Sec-WebSocket-Key", "dGhlIHNhbXBsZSBub25jZQ==")

	// The recorder swallows the 101 response, so nothing but frames crosses the pipe.
	c, err := websocket.Accept(c10Hijacker{httptest.NewRecorder(), p1}, r, nil)
	if err != nil {
		t.Fatal(err)
	}
	defer c.CloseNow()

	payload := []byte("{bad")
	frame := append([]byte{0x81, 0x80 | byte(len(payload)), 0, 0, 0, 0}, payload...) // masked with a zero key
	go func() {
		p2.Write(frame)
		io.Copy(io.Discard, p2) // keeps reading, never answers the close frame
	}()

	ctx, cancel := context.WithTimeout(context.Background(), 100*time.Millisecond)
	defer cancel()

	var v interface{}
	start := time.Now()
	err = wsjson.Read(ctx, c, &v)
	elapsed := time.Since(start)
	if err == nil {
		t.Fatal("expected an error for invalid JSON")
	}
	t.Logf("wsjson.Read returned %v after %v", err, elapsed)
	if elapsed > time.Second {
		t.Fatalf("wsjson.Read with a 100 ms context returned only after %v", elapsed)
	}
}
