//go:build !js

package websocket

import (
	"bufio"
	"context"
	"net"
	"testing"
	"time"
)

// A peer sends ONE single-frame binary message whose 300 payload bytes are all 'A'.
// The application reads 10 bytes of it, abandons the message and asks for the next
// reader. For a fragmented message the library answers "previous message not read to
// completion". For a message whose final frame is only partly consumed it does not:
// it parses the rest of that frame's payload as frame headers and hands out a
// "message" whose bytes the peer never sent on this connection.
func TestAbandonedFinalFrameIsParsedAsFrames(t *testing.T) {
	a, b := net.Pipe()
	defer a.Close()
	defer b.Close()

	srv := newConn(connConfig{
		rwc: b,
		br:  bufio.NewReader(b),
		bw:  bufio.NewWriter(b),
	})
	defer srv.CloseNow()

	// Masking key chosen by the (legal) client. The wire image of the payload is
	// 'A'^key[i%4], i.e. it repeats every 4 bytes: 52 63 82 85 52 63 82 85 ...
	key := [4]byte{0x41 ^ 0x52, 0x41 ^ 0x63, 0x41 ^ 0x82, 0x41 ^ 0x85}
	const size = 300
	frame := []byte{0x82, 0x80 | 126, byte(size >> 8), byte(size & 0xff), key[0], key[1], key[2], key[3]}
	for i := 0; i < size; i++ {
		frame = append(frame, 'A'^key[i%4])
	}
	go func() {
		a.SetWriteDeadline(time.Now().Add(5 * time.Second))
		a.Write(frame)
	}()
	go func() {
		// swallow whatever the server writes (close frames)
		buf := make([]byte, 1024)
		for {
			if _, err := a.Read(buf); err != nil {
				return
			}
		}
	}()

	ctx, cancel := context.WithTimeout(context.Background(), 5*time.Second)
	defer cancel()

	typ, r, err := srv.Reader(ctx)
	if err != nil || typ != MessageBinary {
		t.Fatalf("first Reader: %v %v", typ, err)
	}
	p := make([]byte, 10)
	n, err := r.Read(p)
	if err != nil || n != 10 || string(p) != "AAAAAAAAAA" {
		t.Fatalf("first Read: %d %q %v", n, p[:n], err)
	}

	// Abandon the message: 290 bytes of the (final) frame are still unread.
	ctx2, cancel2 := context.WithTimeout(context.Background(), 2*time.Second)
	defer cancel2()
	_, r2, err := srv.Reader(ctx2)
	if err != nil {
		// This is what the property demands (and what happens for fragmented messages).
		t.Logf("second Reader failed as it should: %v", err)
		return
	}
	got := make([]byte, 64)
	n, _ = r2.Read(got)
	for i, c := range got[:n] {
		if c != 'A' {
			t.Fatalf("the peer only ever sent the byte 'A' as message data on this connection, "+
				"but the second Reader succeeded and Read returned %d bytes %x (byte %d = %#x): "+
				"the unread payload of the abandoned frame was parsed as a frame header", n, got[:n], i, c)
		}
	}
	t.Fatalf("second Reader succeeded although 290 payload bytes of the previous message are unread (read %d bytes %q)", n, got[:n])
}
