//go:build !js

package websocket_test

import (
	"bytes"
	"context"
	"testing"
	"time"

	"nhooyr.io/websocket"
	"nhooyr.io/websocket/internal/test/wstest"
)

// CloseRead is documented as safe to call concurrently with a Read that is in progress
// ("All methods may be called concurrently except for Reader and Read").
//
// Schedule:
//  1. goroutine A is inside c.Read, half way through a fragmented message
//  2. the test calls c.CloseRead
//  3. the peer finishes message 1 and sends message 2
//
// A's Read must fail or return message 1. It returns message 1 and message 2 glued together,
// with a nil error (and go test -race reports a data race on msgReader.ctx inside the library).
func TestC05CloseReadMergesMessagesOfReadInFlight(t *testing.T) {
	c, peer := wstest.Pipe(nil, nil)
	defer c.CloseNow()
	defer peer.CloseNow()

	ctx, cancel := context.WithTimeout(context.Background(), 15*time.Second)
	defer cancel()

	first := bytes.Repeat([]byte("A"), 20000) // larger than the bufio.Writer: leaves the peer as a non final frame at once
	msg1 := append(append([]byte{}, first...), "BBBB"...)
	msg2 := []byte("CCCC")

	type res struct {
		typ websocket.MessageType
		b   []byte
		err error
	}
	done := make(chan res, 1)
	go func() {
		typ, b, err := c.Read(ctx)
		done <- res{typ, b, err}
	}()

	resume := make(chan struct{})
	peerErr := make(chan error, 1)
	go func() {
		peerErr <- func() error {
			w, err := peer.Writer(ctx, websocket.MessageText)
			if err != nil {
				return err
			}
			if _, err := w.Write(first); err != nil {
				return err
			}
			<-resume
			if _, err := w.Write([]byte("BBBB")); err != nil {
				return err
			}
			if err := w.Close(); err != nil {
				return err
			}
			time.Sleep(100 * time.Millisecond)
			return peer.Write(ctx, websocket.MessageText, msg2)
		}()
	}()

	// A has consumed the first fragment and waits for the next frame.
	time.Sleep(200 * time.Millisecond)
	c.CloseRead(ctx)
	time.Sleep(200 * time.Millisecond)
	close(resume)

	select {
	case r := <-done:
		if r.err != nil {
			t.Logf("Read failed, which is acceptable: %v", r.err)
			return
		}
		if bytes.Equal(r.b, msg1) {
			t.Logf("Read returned message 1, which is acceptable")
			return
		}
		if bytes.Equal(r.b, append(append([]byte{}, msg1...), msg2...)) {
			t.Fatalf("Read returned nil error and %d bytes: message 1 (%d bytes) and message 2 (%q) concatenated as one message", len(r.b), len(msg1), msg2)
		}
		t.Fatalf("Read returned nil error and %d bytes that are neither of the written messages (tail %q)", len(r.b), r.b[len(r.b)-zmin(len(r.b), 12):])
	case <-time.After(12 * time.Second):
		t.Fatal("Read did not return")
	}
	if err := <-peerErr; err != nil {
		t.Logf("peer: %v", err)
	}
}

func zmin(a, b int) int {
	if a < b {
		return a
	}
	return b
}
