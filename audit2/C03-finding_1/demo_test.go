//go:build !js

package websocket

import (
	"bufio"
	"bytes"
	"compress/flate"
	"context"
	"io"
	"net"
	"testing"
	"time"
)

// c03f1Frame encodes one frame as a client would send it (masked with a fixed key).
func c03f1Frame(fin, rsv1 bool, op byte, payload []byte) []byte {
	b0 := op
	if fin {
		b0 |= 0x80
	}
	if rsv1 {
		b0 |= 0x40
	}
	out := []byte{b0}
	switch {
	case len(payload) > 65535:
		panic("too large")
	case len(payload) > 125:
		out = append(out, 0x80|126, byte(len(payload)>>8), byte(len(payload)))
	default:
		out = append(out, 0x80|byte(len(payload)))
	}
	key := [4]byte{0x11, 0x22, 0x33, 0x44}
	out = append(out, key[:]...)
	for i, c := range payload {
		out = append(out, c^key[i%4])
	}
	return out
}

// A peer sends the first fragment of a message and then a Close frame (1000, "bye").
// That is legal: control frames may be interleaved in a fragmented message.
// The read that meets the Close frame has to report it as a CloseError, as it does
// when the very same frames are sent uncompressed. With permessage-deflate the
// close frame is met while the flate reader reads ahead; the decompressed bytes are
// handed out first, the connection is released under the reader in between and the
// pending CloseError is replaced with net.ErrClosed: the status and reason of the
// peer are lost (NetConn, for one, then reports an error instead of io.EOF).
func TestC03Finding1CloseStatusLostInCompressedMessage(t *testing.T) {
	msg := bytes.Repeat([]byte("hello world "), 400)

	run := func(compressed bool) error {
		p1, p2 := net.Pipe()
		defer p2.Close()
		c := newConn(connConfig{
			rwc:    p1,
			client: false,
			copts:  &compressionOptions{},
			br:     bufio.NewReader(p1),
			bw:     bufio.NewWriter(p1),
		})
		defer c.CloseNow()

		payload := msg
		if compressed {
			var buf bytes.Buffer
			fw, _ := flate.NewWriter(&buf, flate.DefaultCompression)
			fw.Write(msg)
			fw.Flush()
			payload = buf.Bytes()[:buf.Len()-4]
		}
		wire := c03f1Frame(false, compressed, 0x1, payload)
		wire = append(wire, c03f1Frame(true, false, 0x8, []byte{0x03, 0xe8, 'b', 'y', 'e'})...)

		go func() {
			p2.Write(wire)
			io.Copy(io.Discard, p2)
		}()

		ctx, cancel := context.WithTimeout(context.Background(), 10*time.Second)
		defer cancel()
		_, _, err := c.Read(ctx)
		return err
	}

	errPlain := run(false)
	if CloseStatus(errPlain) != StatusNormalClosure {
		t.Fatalf("uncompressed: expected a CloseError with status 1000, got: %v", errPlain)
	}
	errFlate := run(true)
	if CloseStatus(errFlate) != StatusNormalClosure {
		t.Fatalf("compressed: the read that received the close frame (1000, \"bye\") must report it, as the uncompressed run does (%v); got: %v", errPlain, errFlate)
	}
}
