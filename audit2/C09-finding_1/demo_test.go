package websocket

import (
	"bufio"
	"context"
	"io"
	"net"
	"testing"
	"time"
)

// Close is documented to take about 5 s to write the close frame plus 5 s to wait
// for the peer's close frame. Here it takes more than 13 s.
//
// Schedule (server role over net.Pipe, the peer is a hand written client):
//
//	t=0      Close(1000) starts writing the close frame; the peer reads it only at t=4s
//	         (legal: a slow reader), so the write phase takes 4 s of its 5 s.
//	t=4s     Close starts its 5 s wait for the peer's close frame. The peer stops reading.
//	t=8.3s   another goroutine calls c.Ping (pings are still allowed after a close frame).
//	         The ping frame cannot be written (peer never reads), so Ping holds
//	         writeFrameMu while blocked in the transport write (its own limit: 5 s).
//	t=8.5s   the peer sends one frame with RSV2 set. Close's readLoop calls
//	         c.writeError -> c.writeClose, which waits for writeFrameMu under a FRESH
//	         context.Background()+5s instead of the 5 s budget of waitCloseHandshake
//	         (which runs out at t=9s).
//	t=13.3s  Ping's own 5 s limit expires and tears the connection down; only now does
//	         Close return.
func TestCloseBoundWriteErrorFreshTimeout(t *testing.T) {
	a, p := net.Pipe()
	defer p.Close()
	c := newConn(connConfig{
		rwc:    a,
		client: false,
		br:     bufio.NewReader(a),
		bw:     bufio.NewWriterSize(a, 4096),
	})

	peerDone := make(chan struct{})
	go func() {
		defer close(peerDone)
		// A slow reader: takes the 4 byte close frame (2 header + 2 status) after 4 s.
		time.Sleep(4 * time.Second)
		io.ReadFull(p, make([]byte, 4))
		// Never reads again. 4.5 s later, send a masked text frame with RSV2 set.
		time.Sleep(4500 * time.Millisecond)
		p.SetWriteDeadline(time.Now().Add(10 * time.Second))
		p.Write([]byte{0x80 | 0x20 | 0x1, 0x80 | 1, 0, 0, 0, 0, 'x'})
	}()

	pingDone := make(chan error, 1)
	go func() {
		time.Sleep(8300 * time.Millisecond)
		pingDone <- c.Ping(context.Background())
	}()

	t0 := time.Now()
	err := c.Close(StatusNormalClosure, "")
	d := time.Since(t0)
	t.Logf("Close returned after %v: %v", d, err)

	select {
	case <-pingDone:
	case <-time.After(2 * time.Second):
		t.Errorf("Ping did not return after Close")
	}
	<-peerDone

	// Documented: about 5 s to write the close frame plus 5 s to wait for the peer's.
	if d > 11*time.Second {
		t.Fatalf("Close took %v, documented bound is about 5s+5s", d)
	}
}
