//go:build !js

package websocket_test

import (
	"context"
	"errors"
	"net/http"
	"net/http/httptest"
	"testing"
	"time"

	"nhooyr.io/websocket"
)

// Over real TCP (loopback). The server B is in the middle of writing a large message, the
// client A calls Close(4000, "bye") and, concurrently, Ping (e.g. a keep-alive goroutine).
// A's writeFrame lets the ping frame out although A's Close frame has already been sent, so
// the ping lies behind the Close frame in B's socket. B reads the Close frame, reports it,
// writes the echo and closes its socket at once with the ping still unread: the kernel
// answers with a RST and throws away what B had queued, the echo included. A's Close fails
// with "connection reset by peer" although the peer has echoed the code.
// Without the Ping the very same schedule makes Close return nil.
func TestCloseSucceedsWhenPeerEchoesDespiteOwnPing(t *testing.T) {
	type result struct {
		readErr, writeErr error
	}
	results := make(chan result, 1)
	s := httptest.NewServer(http.HandlerFunc(func(w http.ResponseWriter, r *http.Request) {
		b, err := websocket.Accept(w, r, nil)
		if err != nil {
			results <- result{readErr: err}
			return
		}
		defer b.CloseNow()
		ctx, cancel := context.WithTimeout(context.Background(), 15*time.Second)
		defer cancel()

		werr := make(chan error, 1)
		go func() { werr <- b.Write(ctx, websocket.MessageBinary, make([]byte, 32<<20)) }()
		// B reads all along. The echo of A's Close frame has to wait for the frame of
		// the message that is being written.
		_, _, rerr := b.Read(ctx)
		results <- result{readErr: rerr, writeErr: <-werr}
	}))
	defer s.Close()

	ctx, cancel := context.WithTimeout(context.Background(), 15*time.Second)
	defer cancel()
	a, _, err := websocket.Dial(ctx, s.URL, nil)
	if err != nil {
		t.Fatal(err)
	}
	defer a.CloseNow()

	// Let B's message fill the socket buffers; A is not reading yet.
	time.Sleep(100 * time.Millisecond)

	closeErr := make(chan error, 1)
	go func() { closeErr <- a.Close(websocket.StatusCode(4000), "bye") }()
	time.Sleep(5 * time.Millisecond)
	pingErr := make(chan error, 1)
	go func() { pingErr <- a.Ping(ctx) }()

	res := <-results
	cerr := <-closeErr
	<-pingErr

	var ce websocket.CloseError
	if !errors.As(res.readErr, &ce) || ce.Code != 4000 || ce.Reason != "bye" {
		t.Fatalf("the peer's read did not report the close frame: %v", res.readErr)
	}
	// The peer has read the Close frame and echoed it (its read reported the CloseError).
	if cerr != nil {
		t.Fatalf("the peer echoed code 4000 (its read failed with %q, its message write returned %v), but Close returned: %v", res.readErr, res.writeErr, cerr)
	}
}
