//go:build !js

package websocket

import (
	"bufio"
	"net"
	"net/http"
	"net/http/httptest"
	"testing"
)

type c11f3Writer struct {
	http.ResponseWriter
	hijack func() (net.Conn, *bufio.ReadWriter, error)
}

func (w c11f3Writer) Hijack() (net.Conn, *bufio.ReadWriter, error) { return w.hijack() }

// base64.StdEncoding.DecodeString silently skips '\r' and '\n', so a
// Sec-WebSocket-Key that is not a base64 encoding of 16 bytes (it contains
// line breaks, is 25..28 characters long) passes the "decodes to 16 bytes"
// test and the request is upgraded.
func TestC11F3_KeyWithLineBreaksIsUpgraded(t *testing.T) {
	for _, key := range []string{
		"dGhlIHNhbXBs\nZSBub25jZQ==",
		"dGhlIHNhbXBsZSBub25jZQ==\n",
		"\r\ndGhl\rIHNhbXBsZSBub25j\nZQ==",
	} {
		r := httptest.NewRequest("GET", "/", nil)
		r.Header.Set("Connection", "Upgrade")
		r.Header.Set("Upgrade", "websocket")
		r.Header.Set("Sec-WebSocket-Version", "13")
		r.Header.Set("Sec-WebSocket-Key", key)

		server, client := net.Pipe()
		defer client.Close()
		defer server.Close()
		hijacked := false
		rec := httptest.NewRecorder()
		w := c11f3Writer{ResponseWriter: rec, hijack: func() (net.Conn, *bufio.ReadWriter, error) {
			hijacked = true
			return server, bufio.NewReadWriter(bufio.NewReader(server), bufio.NewWriter(server)), nil
		}}

		c, err := Accept(w, r, nil)
		if c != nil {
			defer c.CloseNow()
		}
		t.Logf("key %q: err=%v status=%d hijacked=%v", key, err, rec.Code, hijacked)
		if err == nil || hijacked || rec.Code < 400 {
			t.Errorf("key %q (%d characters, not a base64 encoding of 16 bytes) was upgraded: err=%v status=%d connection taken over=%v; want an HTTP error status",
				key, len(key), err, rec.Code, hijacked)
		}
	}
}
