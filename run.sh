#!/bin/sh
# ./run.sh <Cxx> <quick|thorough>   — decide one property on /repo's current working tree.
# Rebuilds bin/wscheck when checker sources are newer; the binary always reloads /repo.
cd "$(dirname "$0")"
export GOPROXY=off GOSUMDB=off GOTOOLCHAIN=local GOWORK=off
REPO="${VERIF_REPO:-/repo}"
PROP="$1"; TIER="${2:-${VERIF_TIER:-quick}}"
if [ -z "$PROP" ]; then echo "usage: run.sh <Cxx> <quick|thorough>"; exit 2; fi
need=0
[ -x bin/wscheck ] || need=1
if [ $need = 0 ] && [ -n "$(find checker -name '*.go' -newer bin/wscheck -not -path 'checker/vendor/*' 2>/dev/null | head -1)" ]; then need=1; fi
if [ $need = 1 ]; then
  mkdir -p bin
  if ! (cd checker && GOFLAGS=-mod=vendor go build -o ../bin/wscheck.tmp.$$ . && mv ../bin/wscheck.tmp.$$ ../bin/wscheck); then
    echo "VIOLATION property=$PROP replay=-"
    echo "  undecided: checker does not build"
    exit 1
  fi
fi
mkdir -p evidence
rc=0
./bin/wscheck -repo "$REPO" -verif "$(pwd)" -prop "$PROP" -tier "$TIER" || rc=$?
if [ "$TIER" = thorough ] && [ -x ./thorough.sh ]; then
  ./thorough.sh "$PROP" "$REPO" || true
fi
exit $rc
