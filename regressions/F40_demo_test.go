package websocket_test

import (
	"context"
	"crypto/sha1"
	"encoding/base64"
	"io"
	"net"
	"net/http"
	"sync"
	"testing"
	"time"

	"nhooyr.io/websocket"
	"nhooyr.io/websocket/wsjson"
)

type c19RoundTripper func(r *http.Request) (*http.Response, error)

func (f c19RoundTripper) RoundTrip(r *http.Request) (*http.Response, error) { return f(r) }

// TestC19CorruptDeflateLeavesConnOpen: a compressed text message whose payload is not a
// DEFLATE stream fails wsjson.Read, but the connection is neither closed nor marked
// failed, and only the first 4096 bytes of the frame payload were consumed. The next
// wsjson.Read parses the rest of that payload as frames and decodes a JSON value that
// the peer never sent as a message.
func TestC19CorruptDeflateLeavesConnOpen(t *testing.T) {
	a, raw := net.Pipe()
	c, _, err := websocket.Dial(context.Background(), "ws://example.com", &websocket.DialOptions{
		CompressionMode: websocket.CompressionContextTakeover,
		HTTPClient: &http.Client{Transport: c19RoundTripper(func(r *http.Request) (*http.Response, error) {
			s := sha1.New()
			s.Write([]byte(r.Header.Get("Sec-WebSocket-Key") + "258EAFA5-E914-47DA-95CA-C5AB0DC85B11"))
			h := http.Header{}
			h.Set("Connection", "Upgrade")
			h.Set("Upgrade", "websocket")
			h.Set("Sec-WebSocket-Accept", base64.StdEncoding.EncodeToString(s.Sum(nil)))
			h.Set("Sec-WebSocket-Extensions", "permessage-deflate")
			return &http.Response{StatusCode: 101, Header: h, Body: a}, nil
		})},
	})
	if err != nil {
		t.Fatal(err)
	}
	var wg sync.WaitGroup
	defer func() {
		c.CloseNow()
		raw.Close()
		wg.Wait()
	}()

	// What looks like a complete unmasked text frame, hidden inside the payload of message 1.
	hidden := []byte(`{"never":"sent as a message"}`)
	inner := append([]byte{0x81, byte(len(hidden))}, hidden...)

	// Message 1: one compressed text frame (FIN, RSV1). Its first payload byte 0x07 is
	// a DEFLATE block header with the reserved block type 3, i.e. not a DEFLATE stream.
	payload := make([]byte, 4096, 4096+len(inner))
	payload[0] = 0x07
	payload = append(payload, inner...)
	msg1 := []byte{0xC1, 126, byte(len(payload) >> 8), byte(len(payload))}
	msg1 = append(msg1, payload...)

	// Message 2: the only well-formed JSON message the peer sends.
	real := []byte(`{"real":2}`)
	msg2 := append([]byte{0x81, byte(len(real))}, real...)

	wg.Add(2)
	go func() {
		defer wg.Done()
		raw.Write(msg1)
		raw.Write(msg2)
	}()
	// Drain whatever the library writes (e.g. a close frame) so that it never blocks.
	go func() {
		defer wg.Done()
		io.Copy(io.Discard, raw)
	}()

	ctx, cancel := context.WithTimeout(context.Background(), 5*time.Second)
	defer cancel()

	var v1 interface{}
	err = wsjson.Read(ctx, c, &v1)
	if err == nil {
		t.Fatalf("message 1 is not JSON, yet Read returned %v without error", v1)
	}
	t.Logf("first Read: %v", err)

	var v2 map[string]interface{}
	err = wsjson.Read(ctx, c, &v2)
	if err == nil {
		if _, ok := v2["never"]; ok {
			t.Fatalf("second Read decoded %v: bytes from inside the payload of the rejected message, which the peer never sent as a message (connection was left open and desynchronised after the first error)", v2)
		}
		t.Fatalf("second Read succeeded with %v: the connection was left open after a message that is not valid JSON", v2)
	}
	t.Logf("second Read: %v", err)
}
