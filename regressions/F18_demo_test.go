//go:build !js

package websocket

import (
	"bufio"
	"context"
	"io"
	"net"
	"testing"
	"time"
)

// The transport ends in the middle of a frame payload while a Ping waits for its pong: the read fails,
// and the Ping must return an error once the connection is closed (it must not wait for its own context).
func TestF18PingAfterTransportCutMidPayload(t *testing.T) {
	peer, local := net.Pipe()
	c := newConn(connConfig{rwc: local, client: true, br: bufio.NewReader(local), bw: bufio.NewWriter(local)})
	defer c.CloseNow()
	pingErr := make(chan error, 1)
	go func() { pingErr <- c.Ping(context.Background()) }()
	go func() {
		buf := make([]byte, 64)
		peer.Read(buf) // the ping frame
		peer.Write([]byte{0x82, 10, 'a', 'b', 'c'})
		peer.Close()
	}()
	ctx, cancel := context.WithTimeout(context.Background(), 5*time.Second)
	defer cancel()
	_, r, err := c.Reader(ctx)
	if err == nil {
		_, err = io.ReadAll(r)
	}
	if err == nil {
		t.Fatal("read of a cut frame succeeded")
	}
	select {
	case err := <-pingErr:
		if err == nil {
			t.Fatal("Ping returned nil")
		}
	case <-time.After(3 * time.Second):
		t.Fatal("Ping still blocked 3 s after the read failed on a dead transport")
	}
}
