package websocket_test

import (
	"bytes"
	"context"
	"testing"
	"time"

	"nhooyr.io/websocket"
	"nhooyr.io/websocket/internal/test/wstest"
)

// Two goroutines stream one message each through Conn.Writer, both using the
// usual Go idiom "defer w.Close()" as a safety net plus an explicit w.Close()
// whose error is checked. Conn.Writer is documented to serialize writers
// ("multiple calls will block until the previous writer is closed") and a second
// Close of a writer is documented by the code to be a harmless error
// ("writer already closed").
//
// Conn.Writer hands out the one shared *msgWriter of the connection, and
// msgWriter.reset clears its closed flag for the next message. The deferred
// Close of the goroutine that already finished therefore terminates the message
// the other goroutine is still writing: the peer receives a truncated message.
func TestDemoStaleWriterCloseTruncatesNextMessage(t *testing.T) {
	cc, sc := wstest.Pipe(nil, nil)
	defer cc.CloseNow()
	defer sc.CloseNow()

	ctx, cancel := context.WithTimeout(context.Background(), 10*time.Second)
	defer cancel()

	msg1 := []byte("first message, written by goroutine 1")
	msg2 := []byte("second message, written by goroutine 2 in two chunks")

	// send streams msg in two chunks. afterChunk1 runs after the first chunk was
	// written, beforeReturn runs after the explicit Close succeeded and before the
	// function returns (i.e. before the deferred Close runs).
	send := func(msg []byte, afterChunk1, beforeReturn func()) error {
		w, err := cc.Writer(ctx, websocket.MessageText)
		if err != nil {
			return err
		}
		defer w.Close() // safety net, a no-op after a successful Close

		half := len(msg) / 2
		if _, err := w.Write(msg[:half]); err != nil {
			return err
		}
		afterChunk1()
		if _, err := w.Write(msg[half:]); err != nil {
			return err
		}
		if err := w.Close(); err != nil {
			return err
		}
		beforeReturn()
		return nil
	}

	type rcv struct {
		typ websocket.MessageType
		b   []byte
		err error
	}
	rcvd := make(chan rcv, 2)
	go func() {
		for i := 0; i < 2; i++ {
			typ, b, err := sc.Read(ctx)
			rcvd <- rcv{typ, b, err}
			if err != nil {
				return
			}
		}
	}()

	g1HasWriter := make(chan struct{})
	g2WroteChunk1 := make(chan struct{})
	g1Returned := make(chan struct{})
	err1c := make(chan error, 1)
	err2c := make(chan error, 1)

	// Goroutine 1: writes msg1 completely, then lingers until goroutine 2 is in
	// the middle of its message before it returns.
	go func() {
		err1c <- send(msg1, func() { close(g1HasWriter) }, func() { <-g2WroteChunk1 })
		close(g1Returned)
	}()
	// Goroutine 2: blocks in Conn.Writer until goroutine 1 closed its writer,
	// writes its first chunk, lets goroutine 1 return, writes the second chunk.
	go func() {
		<-g1HasWriter
		err2c <- send(msg2, func() { close(g2WroteChunk1); <-g1Returned }, func() {})
	}()

	err1 := <-err1c
	err2 := <-err2c

	r1 := <-rcvd
	if r1.err != nil {
		t.Fatalf("reading message 1: %v", r1.err)
	}
	if !bytes.Equal(r1.b, msg1) {
		t.Fatalf("message 1 corrupted: got %q want %q", r1.b, msg1)
	}
	r2 := <-rcvd
	if r2.err != nil {
		t.Fatalf("reading message 2: %v (send errors: %v, %v)", r2.err, err1, err2)
	}
	if !bytes.Equal(r2.b, msg2) {
		t.Errorf("peer received a message that was never written: got %q, want %q", r2.b, msg2)
	}
	if err1 != nil {
		t.Errorf("goroutine 1: %v", err1)
	}
	if err2 != nil {
		t.Errorf("goroutine 2 could not finish its message: %v", err2)
	}
}
