//go:build !js

package websocket_test

import (
	"context"
	"errors"
	"math/rand"
	"testing"
	"time"

	"nhooyr.io/websocket"
	"nhooyr.io/websocket/internal/test/wstest"
)

// A calls Close(4000, "bye") while one of its own messages is still open (a Writer that has
// not been closed yet, or equally a concurrent Write whose frames are still going out), so
// the Close frame travels between two fragments of that message, which RFC 6455 section 5.4
// allows. The peer B is reading that message. With permessage-deflate negotiated B's read
// must still report the received Close frame as a CloseError with the code and the reason,
// exactly as it does without compression. Instead the CloseError is swallowed and B's read
// fails with net.ErrClosed: nothing tells B why the connection went away, although B has
// echoed the Close frame and A's Close has returned nil.
func TestCloseFrameInsideCompressedMessageIsReported(t *testing.T) {
	for _, tc := range []struct {
		name string
		mode websocket.CompressionMode
	}{
		{"CompressionDisabled", websocket.CompressionDisabled}, // control: passes
		{"CompressionContextTakeover", websocket.CompressionContextTakeover},
		{"CompressionNoContextTakeover", websocket.CompressionNoContextTakeover},
	} {
		tc := tc
		t.Run(tc.name, func(t *testing.T) {
			a, b := wstest.Pipe(
				&websocket.DialOptions{CompressionMode: tc.mode, CompressionThreshold: 1},
				&websocket.AcceptOptions{CompressionMode: tc.mode, CompressionThreshold: 1},
			)
			defer a.CloseNow()
			defer b.CloseNow()

			ctx, cancel := context.WithTimeout(context.Background(), 15*time.Second)
			defer cancel()

			b.SetReadLimit(-1)
			readErr := make(chan error, 1)
			go func() {
				_, r, err := b.Reader(ctx)
				if err != nil {
					readErr <- err
					return
				}
				// Stream the message in small pieces, as bufio, io.CopyBuffer or a
				// decoder would.
				buf := make([]byte, 512)
				for {
					_, err = r.Read(buf)
					if err != nil {
						readErr <- err
						return
					}
				}
			}()

			w, err := a.Writer(ctx, websocket.MessageBinary)
			if err != nil {
				t.Fatal(err)
			}
			// Half random bytes: the compressor emits frames long before the message ends.
			rnd := rand.New(rand.NewSource(1))
			p := make([]byte, 300000)
			for i := 0; i < len(p); i += 2 {
				p[i] = byte(rnd.Intn(256))
			}
			_, err = w.Write(p)
			if err != nil {
				t.Fatal(err)
			}

			// The message is still open. Close the connection.
			err = a.Close(websocket.StatusCode(4000), "bye")
			if err != nil {
				t.Fatalf("Close: %v", err)
			}

			select {
			case err = <-readErr:
			case <-ctx.Done():
				t.Fatal("the peer's read did not return")
			}
			var ce websocket.CloseError
			if !errors.As(err, &ce) || ce.Code != 4000 || ce.Reason != "bye" || websocket.CloseStatus(err) != 4000 {
				t.Fatalf("the peer received and echoed the Close frame (Close returned nil), but its read does not report it:\n got: %v\nwant: an error wrapping CloseError{Code: 4000, Reason: \"bye\"}", err)
			}
		})
	}
}
