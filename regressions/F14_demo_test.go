package websocket

import (
	"bufio"
	"context"
	"io"
	"net"
	"testing"
	"time"
)

// C09: "Close returns within its documented bound (about 5 s to write the Close
// frame plus 5 s to wait for the peer's)" whatever the peer does and whatever
// other calls are blocked on the connection.
//
// The peer takes ~4.5 s to read our close frame, then stops reading for good (zero
// receive window) and ~4.4 s later finally sends its own close frame. An
// application keep-alive Ping that starts shortly before that is blocked in the
// transport holding the write lock (a Ping may be written after a close frame).
// Close, on reading the peer's close frame, tries to echo it with a brand new 5 s
// timeout that is unrelated to the 5 s budget of the wait phase, and waits for the
// write lock for that long: Close returns only after ~14 s.
func TestDemoC09CloseExceedsBoundEchoBehindPing(t *testing.T) {
	a, p := net.Pipe()
	defer p.Close()
	c := newConn(connConfig{
		rwc:    a,
		client: false,
		br:     bufio.NewReader(a),
		bw:     bufio.NewWriterSize(a, 4096),
	})

	// Scripted peer (a client).
	go func() {
		time.Sleep(4500 * time.Millisecond)
		// Read exactly the 4 bytes of the server's close frame (88 02 03 e8), then never read again.
		io.ReadFull(p, make([]byte, 4))
		time.Sleep(4400 * time.Millisecond)
		// Masked close frame, status 1000, mask key 0.
		p.Write([]byte{0x88, 0x82, 0, 0, 0, 0, 0x03, 0xe8})
	}()

	// Application keep-alive ping, happens to start 8.8 s after Close began.
	go func() {
		time.Sleep(8800 * time.Millisecond)
		ctx, cancel := context.WithTimeout(context.Background(), time.Minute)
		defer cancel()
		c.Ping(ctx)
	}()

	start := time.Now()
	done := make(chan error, 1)
	go func() { done <- c.Close(StatusNormalClosure, "") }()

	select {
	case err := <-done:
		t.Logf("Close returned %v after %v", err, time.Since(start))
	case <-time.After(19 * time.Second):
		t.Fatalf("Close still blocked after 19s")
	}
	if d := time.Since(start); d > 10500*time.Millisecond {
		t.Errorf("Close took %v, documented bound is 5s (write close frame) + 5s (wait for the peer's)", d)
	}
}
