package websocket_test

import (
	"context"
	"errors"
	"os"
	"testing"
	"time"

	"nhooyr.io/websocket"
	"nhooyr.io/websocket/internal/test/wstest"
)

func isDeadlineErr(err error) bool {
	return err != nil && (errors.Is(err, context.DeadlineExceeded) || errors.Is(err, os.ErrDeadlineExceeded) || os.IsTimeout(err))
}

// A deadline in the past that is set while no call is active has passed while no call
// was active: the next call must fail with a deadline error and the connection must stay
// usable once the deadline is reset. Instead the past deadline is armed as a 1ns timer,
// the call that follows wins the race for the lock, the timer then finds "an active call"
// and cancels the context, which closes the connection.
func TestC18PastDeadlineBeforeCall(t *testing.T) {
	t.Run("read", func(t *testing.T) {
		c, s := wstest.Pipe(nil, nil)
		defer c.CloseNow()
		defer s.CloseNow()
		ctx, cancel := context.WithTimeout(context.Background(), 10*time.Second)
		defer cancel()
		nc := websocket.NetConn(ctx, c, websocket.MessageBinary)
		ns := websocket.NetConn(ctx, s, websocket.MessageBinary)

		nc.SetReadDeadline(time.Now().Add(-time.Minute)) // no call is active

		buf := make([]byte, 16)
		_, err := nc.Read(buf)
		if !isDeadlineErr(err) {
			t.Errorf("Read after a past deadline: err = %v, want a deadline error", err)
		}

		// Reset the deadline: the connection must still be usable.
		nc.SetReadDeadline(time.Time{})
		werr := make(chan error, 1)
		go func() {
			_, err := ns.Write([]byte("hello"))
			werr <- err
		}()
		n, err := nc.Read(buf)
		if err != nil || string(buf[:n]) != "hello" {
			t.Errorf("Read after the deadline was reset: %q, %v; want \"hello\", nil (connection must stay usable)", buf[:n], err)
		}
		if err := <-werr; err != nil {
			t.Errorf("peer Write after the deadline was reset: %v", err)
		}
	})

	t.Run("write", func(t *testing.T) {
		c, s := wstest.Pipe(nil, nil)
		defer c.CloseNow()
		defer s.CloseNow()
		ctx, cancel := context.WithTimeout(context.Background(), 10*time.Second)
		defer cancel()
		nc := websocket.NetConn(ctx, c, websocket.MessageBinary)
		ns := websocket.NetConn(ctx, s, websocket.MessageBinary)

		nc.SetWriteDeadline(time.Now().Add(-time.Minute)) // no call is active

		_, err := nc.Write([]byte("x"))
		if !isDeadlineErr(err) {
			t.Errorf("Write after a past deadline: err = %v, want a deadline error", err)
		}

		nc.SetWriteDeadline(time.Time{})
		werr := make(chan error, 1)
		go func() {
			_, err := nc.Write([]byte("hello"))
			werr <- err
		}()
		buf := make([]byte, 16)
		n, err := ns.Read(buf)
		if err != nil || string(buf[:n]) != "hello" {
			t.Errorf("peer Read after the deadline was reset: %q, %v; want \"hello\", nil (connection must stay usable)", buf[:n], err)
		}
		if err := <-werr; err != nil {
			t.Errorf("Write after the deadline was reset: %v", err)
		}
	})
}
