//go:build !js

package websocket_test

import (
	"context"
	"errors"
	"fmt"
	"testing"
	"time"

	"nhooyr.io/websocket"
	"nhooyr.io/websocket/internal/test/wstest"
)

// C06: "Close(code, reason) with a sendable code and a reason of at most 123 bytes
// emits a Close frame with exactly that code and reason, the peer's pending or next
// read at a message boundary fails with a CloseError holding them".
//
// Side A has called CloseRead and then calls Close(4000, "bye"). The peer B is busy
// sending a data message at that moment and only reads afterwards (the transport is
// the synchronous in-memory pipe of wstest.Pipe, so A's close frame is still being
// written when B's message arrives). The CloseRead goroutine of A receives the data
// message, notices that a close is already in progress and then tears down the
// transport underneath Close: the close frame is never delivered, B's next read fails
// with EOF instead of CloseError{4000, "bye"} - and A's Close reports success (nil).
func TestC06CloseReadGoroutineAbortsCloseHandshake(t *testing.T) {
	for _, aIsClient := range []bool{true, false} {
		aIsClient := aIsClient
		t.Run(fmt.Sprintf("closerIsClient=%v", aIsClient), func(t *testing.T) {
			client, server := wstest.Pipe(nil, nil)
			a, b := server, client
			if aIsClient {
				a, b = client, server
			}
			defer a.CloseNow()
			defer b.CloseNow()

			ctx, cancel := context.WithTimeout(context.Background(), 15*time.Second)
			defer cancel()

			a.CloseRead(ctx)

			closeErr := make(chan error, 1)
			go func() {
				closeErr <- a.Close(4000, "bye")
			}()
			// Let A start writing its close frame; B is not reading yet.
			time.Sleep(200 * time.Millisecond)

			// B does not know about the close yet and sends a message.
			_ = b.Write(ctx, websocket.MessageText, []byte("hi"))

			// B's next read at a message boundary, a moment later.
			time.Sleep(200 * time.Millisecond)
			_, _, readErr := b.Read(ctx)
			aErr := <-closeErr

			var ce websocket.CloseError
			if !errors.As(readErr, &ce) || ce.Code != 4000 || ce.Reason != "bye" {
				t.Fatalf("peer's next read did not fail with CloseError{4000, \"bye\"}: %v (Close on the closing side returned: %v)", readErr, aErr)
			}
			if aErr != nil {
				t.Fatalf("peer echoed the code but Close returned: %v", aErr)
			}
		})
	}
}
