package websocket_test

import (
	"context"
	"testing"
	"time"

	"nhooyr.io/websocket"
	"nhooyr.io/websocket/internal/test/wstest"
)

// A Read with a zero length buffer (legal for io.Reader/net.Conn, e.g. Read(nil) to wait
// for readability, or a caller whose buffer happens to be full) never returns once a
// non-empty message is pending: it spins forever holding the NetConn read lock, so the
// bytes the peer wrote are never delivered to this or any later Read.
func TestC18NetConnZeroLengthReadLivelocks(t *testing.T) {
	c1, c2 := wstest.Pipe(nil, nil)
	ctx, cancel := context.WithTimeout(context.Background(), 15*time.Second)
	defer cancel()

	n1 := websocket.NetConn(ctx, c1, websocket.MessageBinary)
	n2 := websocket.NetConn(ctx, c2, websocket.MessageBinary)

	wrote := make(chan error, 1)
	go func() {
		_, err := n2.Write([]byte("hello"))
		wrote <- err
	}()

	type result struct {
		got string
		err error
	}
	done := make(chan result, 1)
	go func() {
		// read buffer sizes 0, then 5
		n, err := n1.Read(make([]byte, 0))
		if err != nil || n != 0 {
			done <- result{"", err}
			return
		}
		buf := make([]byte, 5)
		n, err = n1.Read(buf)
		done <- result{string(buf[:n]), err}
	}()

	var failed string
	select {
	case r := <-done:
		if r.err != nil || r.got != "hello" {
			failed = "unexpected result"
			t.Errorf("got %q, %v; want \"hello\", nil", r.got, r.err)
		}
	case <-time.After(3 * time.Second):
		failed = "Read(zero length buffer) did not return within 3s although \"hello\" was written by the peer; the written bytes are never delivered"
	}

	// Tear down so that no goroutine outlives the test.
	c1.CloseNow()
	c2.CloseNow()
	<-wrote
	if failed != "" {
		select {
		case <-done:
		case <-time.After(5 * time.Second):
			t.Log("reader goroutine still spinning after CloseNow")
		}
		t.Fatal(failed)
	}
}
