//go:build !js

package websocket

import (
	"bufio"
	"context"
	"encoding/binary"
	"io"
	"net"
	"testing"
	"time"
)

// TestC02InvalidMessageTypeEmitsMalformedFrames shows that Conn.Write/Conn.Writer copy the
// MessageType argument into the opcode nibble (and, for larger values, into the RSV bits) of
// the frame header without any validation, report success, and so put frames on the transport
// that no RFC 6455 decoder accepts.
func TestC02InvalidMessageTypeEmitsMalformedFrames(t *testing.T) {
	type rawFrame struct {
		b0, b1  byte
		length  uint64
		payload []byte
	}

	// emit writes one message with the given type on a fresh server connection (so the frames are
	// not masked) and returns the error of Write and the first frame a raw peer sees.
	emit := func(typ MessageType, n int, useWriter bool) (error, *rawFrame) {
		p1, p2 := net.Pipe()
		defer p2.Close()
		c := newConn(connConfig{
			rwc:    p1,
			client: false,
			br:     bufio.NewReader(p1),
			bw:     bufio.NewWriter(p1),
		})
		defer c.CloseNow()

		frames := make(chan *rawFrame, 1)
		go func() {
			defer close(frames)
			br := bufio.NewReader(p2)
			var hdr [2]byte
			if _, err := io.ReadFull(br, hdr[:]); err != nil {
				return
			}
			f := &rawFrame{b0: hdr[0], b1: hdr[1]}
			f.length = uint64(hdr[1] & 0x7f)
			switch f.length {
			case 126:
				var x [2]byte
				io.ReadFull(br, x[:])
				f.length = uint64(binary.BigEndian.Uint16(x[:]))
			case 127:
				var x [8]byte
				io.ReadFull(br, x[:])
				f.length = binary.BigEndian.Uint64(x[:])
			}
			f.payload = make([]byte, f.length)
			io.ReadFull(br, f.payload)
			frames <- f
			io.Copy(io.Discard, br)
		}()

		ctx, cancel := context.WithTimeout(context.Background(), 5*time.Second)
		defer cancel()
		var err error
		if useWriter {
			var w io.WriteCloser
			w, err = c.Writer(ctx, typ)
			if err == nil {
				_, err = w.Write(make([]byte, n))
				if err == nil {
					err = w.Close()
				}
			}
		} else {
			err = c.Write(ctx, typ, make([]byte, n))
		}
		select {
		case f := <-frames:
			return err, f
		case <-time.After(2 * time.Second):
			return err, nil
		}
	}

	cases := []struct {
		name      string
		typ       MessageType
		n         int
		useWriter bool
	}{
		// The zero value: e.g. `var typ MessageType`, or the typ returned by a failed Read.
		{"zero value, Write", 0, 5, false},
		{"zero value, Writer", 0, 5, true},
		{"reserved data opcode 3", 3, 5, false},
		{"ping opcode with 300 bytes", 9, 300, false},
		{"close opcode with 300 bytes", 8, 300, false},
		{"pong opcode, fragmented by Writer", 10, 5, true},
		{"value with bits 4 and 5 (RSV3, RSV2)", 0x31, 5, false},
		{"value with bit 6 (RSV1, no permessage-deflate)", 0x42, 5, false},
	}
	for _, tc := range cases {
		err, f := emit(tc.typ, tc.n, tc.useWriter)
		if f == nil {
			if err == nil {
				t.Errorf("%s: Write returned nil but nothing was emitted", tc.name)
			}
			// An error and no emitted frame is the conformant outcome.
			continue
		}
		fin := f.b0&0x80 != 0
		rsv := f.b0 & 0x70
		op := f.b0 & 0x0f
		switch {
		case rsv != 0:
			t.Errorf("%s: err=%v, emitted first header byte %#02x: RSV bits %#02x set although no extension was negotiated", tc.name, err, f.b0, rsv)
		case op == 0:
			t.Errorf("%s: err=%v, emitted a continuation frame (byte %#02x) although no message is in progress", tc.name, err, f.b0)
		case op >= 8 && f.length > 125:
			t.Errorf("%s: err=%v, emitted control frame opcode %d with a %d byte payload (max 125)", tc.name, err, op, f.length)
		case op >= 8 && !fin:
			t.Errorf("%s: err=%v, emitted fragmented control frame opcode %d", tc.name, err, op)
		case op != 1 && op != 2:
			t.Errorf("%s: err=%v, emitted data frame with reserved opcode %d", tc.name, err, op)
		}
	}
}
