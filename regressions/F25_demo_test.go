package websocket_test

import (
	"net/http"
	"net/http/httptest"
	"testing"

	"nhooyr.io/websocket"
)

func c14DupOffer(t *testing.T, mode websocket.CompressionMode, offer string) string {
	t.Helper()
	s := httptest.NewServer(http.HandlerFunc(func(w http.ResponseWriter, r *http.Request) {
		c, err := websocket.Accept(w, r, &websocket.AcceptOptions{CompressionMode: mode})
		if err != nil {
			return
		}
		c.CloseNow()
	}))
	defer s.Close()

	req, _ := http.NewRequest("GET", s.URL, nil)
	req.Header.Set("Connection", "Upgrade")
	req.Header.Set("Upgrade", "websocket")
	req.Header.Set("Sec-WebSocket-Version", "13")
	req.Header.Set("Sec-WebSocket-Key", "dGhlIHNhbXBsZSBub25jZQ==")
	req.Header.Set("Sec-WebSocket-Extensions", offer)
	resp, err := http.DefaultTransport.RoundTrip(req)
	if err != nil {
		t.Fatal(err)
	}
	defer resp.Body.Close()
	if resp.StatusCode != http.StatusSwitchingProtocols {
		return "<status " + resp.Status + ">"
	}
	return resp.Header.Get("Sec-WebSocket-Extensions")
}

// RFC 7692 7.1: a server MUST decline an offer that has multiple extension
// parameters with the same name. The server accepts all of these.
func TestC14ServerAcceptsDuplicatedParameters(t *testing.T) {
	dups := []string{
		"permessage-deflate; client_no_context_takeover; client_no_context_takeover",
		"permessage-deflate; server_no_context_takeover; server_no_context_takeover",
		"permessage-deflate; client_max_window_bits; client_max_window_bits",
		"permessage-deflate; client_max_window_bits=8; client_max_window_bits=15",
		"permessage-deflate; client_max_window_bits; client_max_window_bits=10",
		"permessage-deflate; server_max_window_bits=15; server_max_window_bits=15",
	}
	for _, mode := range []websocket.CompressionMode{websocket.CompressionContextTakeover, websocket.CompressionNoContextTakeover} {
		for _, offer := range dups {
			got := c14DupOffer(t, mode, offer)
			if got != "" {
				t.Errorf("mode=%v offer %q: offer with a duplicated parameter accepted, response %q; want it declined", mode, offer, got)
			}
		}
	}

	// Falling back to a later, well-formed offer.
	offer := "permessage-deflate; client_max_window_bits=8; client_max_window_bits=15, permessage-deflate; server_no_context_takeover"
	got := c14DupOffer(t, websocket.CompressionContextTakeover, offer)
	if got != "permessage-deflate; server_no_context_takeover" {
		t.Errorf("offers %q: response %q; want the first offer declined and the second accepted (%q)",
			offer, got, "permessage-deflate; server_no_context_takeover")
	}

	// control: the same parameters once each are accepted
	if got := c14DupOffer(t, websocket.CompressionContextTakeover, "permessage-deflate; client_no_context_takeover; server_no_context_takeover; client_max_window_bits; server_max_window_bits=15"); got != "permessage-deflate; client_no_context_takeover; server_no_context_takeover" {
		t.Errorf("control: %q", got)
	}
}
