//go:build !js

package websocket_test

import (
	"bufio"
	"context"
	"crypto/sha1"
	"encoding/base64"
	"net"
	"net/http"
	"testing"
	"time"

	"nhooyr.io/websocket"
)

// C13: the client asks for subprotocol "chat" only. The response carries two
// Sec-WebSocket-Protocol header fields, "chat" and "evil" (for HTTP the same as the single
// field "chat, evil", RFC 7230 3.2.2, which Dial does refuse). The response names a
// subprotocol the client never asked for, so Dial must fail; it only looks at the first
// field line and returns a connection.
func TestC13DuplicateSubprotocolHeader(t *testing.T) {
	serve := func(t *testing.T, protoLines string) string {
		ln, err := net.Listen("tcp", "127.0.0.1:0")
		if err != nil {
			t.Fatal(err)
		}
		t.Cleanup(func() { ln.Close() })
		go func() {
			c, err := ln.Accept()
			if err != nil {
				return
			}
			defer c.Close()
			br := bufio.NewReader(c)
			req, err := http.ReadRequest(br)
			if err != nil {
				return
			}
			h := sha1.New()
			h.Write([]byte(req.Header.Get("Sec-WebSocket-Key")))
			h.Write([]byte("258EAFA5-E914-47DA-95CA-C5AB0DC85B11"))
			accept := base64.StdEncoding.EncodeToString(h.Sum(nil))
			c.Write([]byte("HTTP/1.1 101 Switching Protocols\r\n" +
				"Connection: Upgrade\r\n" +
				"Upgrade: websocket\r\n" +
				"Sec-WebSocket-Accept: " + accept + "\r\n" +
				protoLines + "\r\n"))
			c.SetReadDeadline(time.Now().Add(5 * time.Second))
			br.ReadByte()
		}()
		return "ws://" + ln.Addr().String()
	}

	dial := func(u string) (*websocket.Conn, error) {
		ctx, cancel := context.WithTimeout(context.Background(), 10*time.Second)
		defer cancel()
		c, _, err := websocket.Dial(ctx, u, &websocket.DialOptions{
			HTTPClient:   &http.Client{Transport: &http.Transport{DisableKeepAlives: true}},
			Subprotocols: []string{"chat"},
		})
		return c, err
	}

	// Control: the combined form is refused.
	c, err := dial(serve(t, "Sec-WebSocket-Protocol: chat, evil\r\n"))
	if err == nil {
		c.CloseNow()
		t.Fatalf("control: 'chat, evil' was accepted")
	}

	// Same field value split over two field lines.
	c, err = dial(serve(t, "Sec-WebSocket-Protocol: chat\r\nSec-WebSocket-Protocol: evil\r\n"))
	if err == nil {
		sub := c.Subprotocol()
		c.CloseNow()
		t.Fatalf("Dial asked for [chat] only, the response named subprotocols chat and evil in two Sec-WebSocket-Protocol fields, and Dial returned a connection (Subprotocol()=%q)", sub)
	}
}
