package websocket_test

import (
	"context"
	"strings"
	"testing"
	"time"

	"nhooyr.io/websocket"
	"nhooyr.io/websocket/internal/test/wstest"
)

// A single-frame message that is abandoned half-read: the next Reader must not parse the rest of its payload as frames.
func TestF35AbandonedSingleFrameMessage(t *testing.T) {
	c1, c2 := wstest.Pipe(nil, nil)
	defer c1.CloseNow()
	defer c2.CloseNow()
	ctx, cancel := context.WithTimeout(context.Background(), 5*time.Second)
	defer cancel()
	// the payload's tail is a well-formed unmasked text frame "smuggled" (server to client direction: c2 is the server)
	inner := append([]byte{0x81, 8}, []byte("smuggled")...)
	msg := append([]byte("0123456789"), inner...)
	go c2.Write(ctx, websocket.MessageBinary, msg)
	_, r, err := c1.Reader(ctx)
	if err != nil {
		t.Fatal(err)
	}
	buf := make([]byte, 10)
	if _, err := r.Read(buf); err != nil {
		t.Fatal(err)
	}
	typ, r2, err := c1.Reader(ctx)
	if err == nil {
		b := make([]byte, 64)
		n, _ := r2.Read(b)
		t.Fatalf("second Reader delivered a message of type %v: %q (bytes of the abandoned message's payload parsed as a frame)", typ, b[:n])
	}
	if !strings.Contains(err.Error(), "previous message not read to completion") {
		t.Fatalf("unexpected error: %v", err)
	}
}
