//go:build !js

package websocket

import (
	"bufio"
	"bytes"
	"context"
	"io"
	"net"
	"testing"
	"time"
)

// A compressed message whose last DEFLATE block has BFINAL=1 (RFC 7692 7.2.3.4) and whose decompressed
// size is exactly limit+1 must not be reported complete.
func TestF11LimitPlusOneFinalBlock(t *testing.T) {
	for _, size := range []int{100, 101, 102} {
		peer, local := net.Pipe()
		c := newConn(connConfig{
			rwc:    local,
			client: true, // frames from the peer are unmasked
			copts:  &compressionOptions{},
			br:     bufio.NewReader(local),
			bw:     bufio.NewWriter(local),
		})
		c.SetReadLimit(100)
		gotClose := make(chan []byte, 1)
		go func() {
			// stored block, BFINAL=1
			data := bytes.Repeat([]byte{'x'}, size)
			blk := []byte{0x01, byte(size), 0, ^byte(size), 0xff}
			blk = append(blk, data...)
			frame := append([]byte{0xC2, byte(len(blk))}, blk...)
			peer.Write(frame)
			// read whatever the endpoint answers (a masked close frame, if any)
			buf := make([]byte, 256)
			peer.SetReadDeadline(time.Now().Add(2 * time.Second))
			n, _ := peer.Read(buf)
			gotClose <- buf[:n]
		}()
		ctx, cancel := context.WithTimeout(context.Background(), 5*time.Second)
		_, r, err := c.Reader(ctx)
		var b []byte
		if err == nil {
			b, err = io.ReadAll(r)
		}
		cancel()
		ans := <-gotClose
		t.Logf("size %d: delivered %d bytes, err=%v, endpoint wrote %d bytes (first byte %#x)", size, len(b), err, len(ans), first(ans))
		if size > 100 && err == nil {
			t.Errorf("message of %d bytes reported complete under a limit of 100", size)
		}
		if size <= 100 && err != nil {
			t.Errorf("message of %d bytes within the limit failed: %v", size, err)
		}
		c.CloseNow()
		peer.Close()
	}
}

func first(b []byte) byte {
	if len(b) == 0 {
		return 0
	}
	return b[0]
}
