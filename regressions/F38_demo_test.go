//go:build !js

package websocket

import (
	"bufio"
	"context"
	"net"
	"testing"
	"time"
)

// CloseRead is documented as safe to call concurrently with a Read that is in progress
// ("All methods may be called concurrently except for Reader and Read").
//
// Schedule (c is a server side Conn over net.Pipe, the peer writes well-formed masked frames by hand):
//  1. goroutine A is inside c.Read; the peer has sent the first fragment "AAAA" of message 1,
//     A has consumed it and waits for the next frame
//  2. the test calls c.CloseRead
//  3. the peer sends the final fragment "BBBB" of message 1 and then message 2 "CCCC"
//
// A's Read must fail or return message 1 ("AAAABBBB"). It returns "AAAABBBBCCCC" with a nil
// error: the Reader call inside CloseRead re-initialises the connection's one msgReader for
// message 2 while A's io.Reader still is that very msgReader and has not seen io.EOF yet.
// With go test -race the run also reports a data race inside the library
// (msgReader.reset writes mr.ctx, msgReader.Read reads it before taking readMu).
func TestC05CloseReadMergesMessagesOfReadInFlight(t *testing.T) {
	a, b := net.Pipe()
	defer a.Close()
	defer b.Close()

	c := newConn(connConfig{
		rwc:    a,
		client: false,
		br:     bufio.NewReader(a),
		bw:     bufio.NewWriter(a),
	})
	defer c.CloseNow()

	ctx, cancel := context.WithTimeout(context.Background(), 15*time.Second)
	defer cancel()

	// frame writes one masked frame (mask key 0x01020304) to the peer's end of the pipe.
	frame := func(fin bool, op byte, payload string) {
		t.Helper()
		key := [4]byte{1, 2, 3, 4}
		buf := []byte{op, 0x80 | byte(len(payload))}
		if fin {
			buf[0] |= 0x80
		}
		buf = append(buf, key[:]...)
		for i := 0; i < len(payload); i++ {
			buf = append(buf, payload[i]^key[i%4])
		}
		b.SetWriteDeadline(time.Now().Add(5 * time.Second))
		if _, err := b.Write(buf); err != nil {
			t.Fatalf("peer failed to write frame: %v", err)
		}
	}

	type res struct {
		typ MessageType
		b   []byte
		err error
	}
	done := make(chan res, 1)
	go func() {
		typ, p, err := c.Read(ctx)
		done <- res{typ, p, err}
	}()

	time.Sleep(100 * time.Millisecond)
	frame(false, 0x1, "AAAA") // message 1, text, first fragment
	time.Sleep(100 * time.Millisecond)

	c.CloseRead(ctx) // A is blocked in the transport waiting for the next fragment
	time.Sleep(100 * time.Millisecond)

	frame(true, 0x0, "BBBB") // message 1, final fragment
	time.Sleep(100 * time.Millisecond)
	frame(true, 0x1, "CCCC") // message 2

	select {
	case r := <-done:
		if r.err != nil {
			t.Logf("Read failed, which is acceptable: %v", r.err)
			return
		}
		if string(r.b) == "AAAABBBB" {
			t.Logf("Read returned message 1, which is acceptable")
			return
		}
		t.Fatalf("Read returned %q with a nil error; the peer wrote the two messages %q and %q", r.b, "AAAABBBB", "CCCC")
	case <-time.After(12 * time.Second):
		t.Fatal("Read did not return")
	}
}
