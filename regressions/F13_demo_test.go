//go:build !js

package websocket

import (
	"bufio"
	"context"
	"encoding/binary"
	"io"
	"net"
	"testing"
	"time"
)

// C03: the first protocol violation must fail reading without the violating frame's data
// ever being delivered as a message. The library fails the read that meets the violation
// but leaves the connection open and in sync with nothing: the next Read parses the
// payload of the rejected frame as frame headers and delivers attacker chosen bytes
// from it as a regular message (and, for a malformed Close frame, simply carries on
// with the following frames).
func TestAuditC03DataOfRejectedFrameDelivered(t *testing.T) {
	frame := func(b0 byte, masked bool, payload []byte) []byte {
		b := []byte{b0}
		mb := byte(0)
		if masked {
			mb = 0x80
		}
		if len(payload) < 126 {
			b = append(b, mb|byte(len(payload)))
		} else {
			b = append(b, mb|126, byte(len(payload)>>8), byte(len(payload)))
		}
		if masked {
			b = append(b, 0, 0, 0, 0) // zero key: payload bytes appear as they are
		}
		return append(b, payload...)
	}
	for _, client := range []bool{false, true} {
		m := !client // correct masking for frames sent to the endpoint under test
		// what the attacker hides in the payload of the violating frame
		inner := frame(0x81, m, []byte("smuggled"))

		negLen := []byte{0x82, 127}
		if m {
			negLen[1] |= 0x80
		}
		negLen = binary.BigEndian.AppendUint64(negLen, 1<<63|uint64(len(inner)))
		if m {
			negLen = append(negLen, 0, 0, 0, 0)
		}
		negLen = append(negLen, inner...)

		cases := []struct {
			name   string
			stream []byte
		}{
			{"wrong masking for the role", frame(0x82, !m, inner)},
			{"reserved bit RSV2", frame(0x82|0x20, m, inner)},
			{"RSV1 without negotiated compression", frame(0x82|0x40, m, inner)},
			{"reserved opcode 3", frame(0x83, m, inner)},
			{"continuation without a message", frame(0x80, m, inner)},
			{"fragmented ping", frame(0x09, m, inner)},
			{"ping of 200 bytes", frame(0x89, m, append(append([]byte{}, inner...), make([]byte, 200-len(inner))...))},
			{"length with the top bit set", negLen},
			{"malformed close payload (code 1005) followed by a data frame", append(frame(0x88, m, []byte{0x03, 0xed}), inner...)},
		}
		for _, tc := range cases {
			a, b := net.Pipe()
			c := newConn(connConfig{
				rwc:    a,
				client: client,
				br:     bufio.NewReader(a),
				bw:     bufio.NewWriter(a),
			})
			go io.Copy(io.Discard, b) // the peer reads whatever the endpoint sends
			go func() {
				b.SetWriteDeadline(time.Now().Add(5 * time.Second))
				b.Write(tc.stream)
			}()
			ctx, cancel := context.WithTimeout(context.Background(), 5*time.Second)
			_, _, err := c.Read(ctx)
			if err == nil {
				t.Errorf("client=%v, %s: the violation was not rejected", client, tc.name)
			}
			// An application that logs the error and keeps reading (or any later reader of c).
			typ, data, err2 := c.Read(ctx)
			if err2 == nil {
				t.Errorf("client=%v, %s: first Read failed with %q, but the next Read delivered the rejected frame's data as a %v message: %q", client, tc.name, err, typ, data)
			}
			cancel()
			c.CloseNow()
			b.Close()
		}
	}
}
