package websocket_test

import (
	"net/http"
	"net/http/httptest"
	"testing"

	"nhooyr.io/websocket"
)

func c14Offer(t *testing.T, mode websocket.CompressionMode, offer string) string {
	t.Helper()
	s := httptest.NewServer(http.HandlerFunc(func(w http.ResponseWriter, r *http.Request) {
		c, err := websocket.Accept(w, r, &websocket.AcceptOptions{CompressionMode: mode})
		if err != nil {
			return
		}
		c.CloseNow()
	}))
	defer s.Close()

	req, _ := http.NewRequest("GET", s.URL, nil)
	req.Header.Set("Connection", "Upgrade")
	req.Header.Set("Upgrade", "websocket")
	req.Header.Set("Sec-WebSocket-Version", "13")
	req.Header.Set("Sec-WebSocket-Key", "dGhlIHNhbXBsZSBub25jZQ==")
	req.Header.Set("Sec-WebSocket-Extensions", offer)
	resp, err := http.DefaultTransport.RoundTrip(req)
	if err != nil {
		t.Fatal(err)
	}
	defer resp.Body.Close()
	if resp.StatusCode != http.StatusSwitchingProtocols {
		return "<status " + resp.Status + ">"
	}
	return resp.Header.Get("Sec-WebSocket-Extensions")
}

// RFC 7692 7.1.2.2: client_max_window_bits, if it has a value, must be a decimal
// integer 8..15 without leading zeros. 7.1: a server MUST decline an offer that
// has a parameter with an invalid value. The server accepts every one of these.
func TestC14ServerAcceptsMalformedClientMaxWindowBits(t *testing.T) {
	for _, mode := range []websocket.CompressionMode{websocket.CompressionContextTakeover, websocket.CompressionNoContextTakeover} {
		for _, v := range []string{"7", "16", "0", "-1", "015", "abc", "", "15x", "99999999999999999999"} {
			offer := "permessage-deflate; client_max_window_bits=" + v
			got := c14Offer(t, mode, offer)
			if got != "" {
				t.Errorf("mode=%v offer %q: malformed offer accepted, response %q; want the offer declined (no Sec-WebSocket-Extensions)", mode, offer, got)
			}
		}
	}

	// Falling back to a later, well-formed offer: the second offer must be the accepted one,
	// so the response has to carry server_no_context_takeover.
	offer := "permessage-deflate; client_max_window_bits=16, permessage-deflate; server_no_context_takeover"
	got := c14Offer(t, websocket.CompressionContextTakeover, offer)
	if got != "permessage-deflate; server_no_context_takeover" {
		t.Errorf("offers %q: response %q; want the malformed first offer declined and the second accepted (%q)",
			offer, got, "permessage-deflate; server_no_context_takeover")
	}

	// control: well-formed values are accepted
	for _, v := range []string{"8", "10", "15"} {
		if got := c14Offer(t, websocket.CompressionContextTakeover, "permessage-deflate; client_max_window_bits="+v); got != "permessage-deflate" {
			t.Errorf("control client_max_window_bits=%s: %q", v, got)
		}
	}
}
