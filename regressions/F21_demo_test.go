package websocket_test

import (
	"bufio"
	"net"
	"net/http"
	"net/http/httptest"
	"testing"
	"time"

	"nhooyr.io/websocket"
)

// C11: "Upgrade: websoc\u212aet" (KELVIN SIGN) and "Upgrade: web\u017focket"
// (LATIN SMALL LETTER LONG S) do not contain the token websocket, yet Accept
// upgrades them because tokens are compared with strings.EqualFold, which applies
// Unicode simple case folding (U+212A ~ k, U+017F ~ s).
func TestC11UnicodeFoldedUpgradeToken(t *testing.T) {
	s := httptest.NewServer(http.HandlerFunc(func(w http.ResponseWriter, r *http.Request) {
		c, err := websocket.Accept(w, r, nil)
		if err != nil {
			return
		}
		c.Close(websocket.StatusNormalClosure, "")
	}))
	defer s.Close()

	for _, upg := range []string{"websoc\u212aet", "web\u017focket", "h2c, WEB\u017fOC\u212aET"} {
		nc, err := net.Dial("tcp", s.Listener.Addr().String())
		if err != nil {
			t.Fatal(err)
		}
		nc.SetDeadline(time.Now().Add(5 * time.Second))
		raw := "GET /ws HTTP/1.1\r\nHost: example.com\r\nConnection: Upgrade\r\nUpgrade: " + upg + "\r\n" +
			"Sec-WebSocket-Version: 13\r\nSec-WebSocket-Key: dGhlIHNhbXBsZSBub25jZQ==\r\n\r\n"
		nc.Write([]byte(raw))
		resp, err := http.ReadResponse(bufio.NewReader(nc), &http.Request{Method: "GET"})
		nc.Close()
		if err != nil {
			t.Fatal(err)
		}
		if resp.StatusCode == 101 {
			t.Errorf("Upgrade header %q (% x) does not contain websocket, but the request was upgraded with 101", upg, upg)
		} else if resp.StatusCode < 400 {
			t.Errorf("Upgrade header %q: status %d", upg, resp.StatusCode)
		}
	}
}
