package websocket_test

import (
	"bufio"
	"net"
	"net/http"
	"net/http/httptest"
	"strings"
	"testing"
	"time"

	"nhooyr.io/websocket"
)

// A handshake request that carries two Origin header lines, the second of
// which names a foreign host, must be refused with 403. Accept only looks at
// the first line (http.Header.Get) and upgrades the connection.
func TestC12F1_SecondOriginLineIsIgnored(t *testing.T) {
	send := func(t *testing.T, originLines string) (statusLine string, upgraded bool) {
		t.Helper()
		done := make(chan bool, 1)
		s := httptest.NewServer(http.HandlerFunc(func(w http.ResponseWriter, r *http.Request) {
			c, err := websocket.Accept(w, r, nil) // default options: origin verification enabled
			if c != nil {
				c.CloseNow()
			}
			done <- err == nil
		}))
		defer s.Close()

		nc, err := net.Dial("tcp", s.Listener.Addr().String())
		if err != nil {
			t.Fatal(err)
		}
		defer nc.Close()
		nc.SetDeadline(time.Now().Add(5 * time.Second))

		req := "GET / HTTP/1.1\r\n" +
			"Host: example.com\r\n" +
			"Connection: Upgrade\r\n" +
			"Upgrade: websocket\r\n" +
			"Sec-WebSocket-Version: 13\r\n" +
			"Sec-WebSocket-Key: dGhlIHNhbXBsZSBub25jZQ==\r\n" +
			originLines +
			"\r\n"
		if _, err := nc.Write([]byte(req)); err != nil {
			t.Fatal(err)
		}
		line, err := bufio.NewReader(nc).ReadString('\n')
		if err != nil {
			t.Fatal(err)
		}
		select {
		case upgraded = <-done:
		case <-time.After(5 * time.Second):
			t.Fatal("handler did not finish")
		}
		return strings.TrimSpace(line), upgraded
	}

	// Sanity: a single foreign Origin line is refused.
	if status, up := send(t, "Origin: http://evil.example\r\n"); up || !strings.Contains(status, " 403 ") {
		t.Fatalf("baseline broken: single foreign Origin: status %q upgraded %v", status, up)
	}

	for _, tc := range []struct{ name, lines string }{
		{"sameHostThenForeign", "Origin: http://example.com\r\nOrigin: http://evil.example\r\n"},
		{"emptyThenForeign", "Origin:\r\nOrigin: http://evil.example\r\n"},
	} {
		status, up := send(t, tc.lines)
		if up || !strings.Contains(status, " 403 ") {
			t.Errorf("%s: request with an Origin line naming evil.example (Host example.com, no patterns) "+
				"was answered %q, upgraded=%v; want 403 Forbidden and no upgrade", tc.name, status, up)
		}
	}
}
