package websocket_test

import (
	"bufio"
	"net"
	"net/http"
	"net/http/httptest"
	"testing"
	"time"

	"nhooyr.io/websocket"
)

// C11: a request that carries two Sec-WebSocket-Version header lines, "13" and "8"
// (field value "13, 8" per RFC 7230 3.2.2), is upgraded although the same list on
// one line, or the two lines in the other order, is answered with 400.
func TestC11SecondVersionHeaderLineIgnored(t *testing.T) {
	s := httptest.NewServer(http.HandlerFunc(func(w http.ResponseWriter, r *http.Request) {
		c, err := websocket.Accept(w, r, nil)
		if err != nil {
			return
		}
		c.Close(websocket.StatusNormalClosure, "")
	}))
	defer s.Close()

	status := func(versionLines string) int {
		nc, err := net.Dial("tcp", s.Listener.Addr().String())
		if err != nil {
			t.Fatal(err)
		}
		defer nc.Close()
		nc.SetDeadline(time.Now().Add(5 * time.Second))
		raw := "GET /ws HTTP/1.1\r\nHost: example.com\r\nConnection: Upgrade\r\nUpgrade: websocket\r\n" +
			versionLines + "Sec-WebSocket-Key: dGhlIHNhbXBsZSBub25jZQ==\r\n\r\n"
		nc.Write([]byte(raw))
		resp, err := http.ReadResponse(bufio.NewReader(nc), &http.Request{Method: "GET"})
		if err != nil {
			t.Fatal(err)
		}
		return resp.StatusCode
	}

	if st := status("Sec-WebSocket-Version: 13\r\n"); st != 101 {
		t.Fatalf("sanity: %d", st)
	}
	// The library itself treats these two equivalent spellings as invalid:
	if st := status("Sec-WebSocket-Version: 13, 8\r\n"); st != 400 {
		t.Fatalf("one line \"13, 8\": %d", st)
	}
	if st := status("Sec-WebSocket-Version: 8\r\nSec-WebSocket-Version: 13\r\n"); st != 400 {
		t.Fatalf("lines 8 then 13: %d", st)
	}
	for _, lines := range []string{
		"Sec-WebSocket-Version: 13\r\nSec-WebSocket-Version: 8\r\n",
		"Sec-WebSocket-Version: 13\r\nSec-WebSocket-Version: 14\r\n",
		"Sec-WebSocket-Version: 13\r\nSec-WebSocket-Version: banana\r\n",
	} {
		if st := status(lines); st == 101 {
			t.Errorf("request with version lines %q: Sec-WebSocket-Version is not 13 but the request was upgraded (101)", lines)
		}
	}
}
