package websocket_test

import (
	"context"
	"io"
	"testing"
	"time"

	"nhooyr.io/websocket"
	"nhooyr.io/websocket/internal/test/wstest"
)

// A message is read to io.EOF through Reader, i.e. the read of a complete message
// has returned successfully. Then its context is cancelled (the usual deferred
// cancel). One more Read on the finished reader (which can only report io.EOF)
// closes the whole connection about every second time, because msgReader.Read
// waits for readMu with the stale context of the finished message and mu.lock
// closes the transport when it sees that context done.
func TestC10StaleReaderCancelledContextClosesConn(t *testing.T) {
	dead := 0
	const conns = 24
	for i := 0; i < conns; i++ {
		func() {
			c1, c2 := wstest.Pipe(nil, nil)
			defer c1.CloseNow()
			defer c2.CloseNow()

			werr := make(chan error, 1)
			go func() {
				werr <- c1.Write(context.Background(), websocket.MessageText, []byte("hello"))
			}()

			ctx, cancel := context.WithCancel(context.Background())
			_, r, err := c2.Reader(ctx)
			if err != nil {
				t.Fatal(err)
			}
			b, err := io.ReadAll(r) // reads to io.EOF: the message is complete
			if err != nil || string(b) != "hello" {
				t.Fatalf("read: %q %v", b, err)
			}
			if err := <-werr; err != nil {
				t.Fatal(err)
			}

			cancel() // after success: must be harmless

			// A later call on the finished reader. io.EOF or an error are both fine,
			// closing the connection is not.
			var buf [8]byte
			n, rerr := r.Read(buf[:])

			// Any later call with a fresh context must still work.
			ctx2, cancel2 := context.WithTimeout(context.Background(), 2*time.Second)
			defer cancel2()
			go c1.Write(ctx2, websocket.MessageText, []byte("again"))
			_, b, err = c2.Read(ctx2)
			if err != nil {
				dead++
				t.Logf("conn %d: stale Read returned (%d, %v); the next Read with a fresh context failed: %v", i, n, rerr, err)
			}
		}()
	}
	if dead > 0 {
		t.Fatalf("%d of %d connections were closed by cancelling the context of a message that had already been read to io.EOF", dead, conns)
	}
}
