#!/bin/bash
# tools/seed_verify.sh <src-dir with patch.diff demo_test.go meta.json> <seed-id>
# Confirms in a scratch worktree: demo passes without the patch, fails with it, the unedited suite passes with it.
# On success stores the seed under /verif/seeded/<seed-id>/ and records what was run.
set -u
SRC="$1"; ID="$2"
export GOFLAGS=-mod=mod GOPROXY=off GOSUMDB=off GOTOOLCHAIN=local
WT=/tmp/sv_$ID
git -C /repo worktree remove --force $WT >/dev/null 2>&1
git -C /repo worktree add -q --detach $WT ${SEED_BASE:-HEAD} || exit 2
trap 'git -C /repo worktree remove --force $WT >/dev/null 2>&1' EXIT
cd $WT
cp "$SRC/demo_test.go" ./zz_seed_demo_test.go
TESTS=$(grep -oE '^func (Test[A-Za-z0-9_]+)' zz_seed_demo_test.go | awk '{print $2}' | paste -sd'|')
base=$(timeout 120 go test -vet=off -count=1 -timeout 100s -run "^($TESTS)\$" . 2>&1); brc=$?
git apply "$SRC/patch.diff" || { echo "patch does not apply"; exit 2; }
go build ./... || { echo "does not build"; exit 2; }
with=$(timeout 120 go test -vet=off -count=1 -timeout 100s -run "^($TESTS)\$" . 2>&1); wrc=$?
rm zz_seed_demo_test.go
suite_ok=0
for i in 1 2 3; do timeout 300 go test -vet=off -count=1 -timeout 4m ./... >/tmp/sv_$ID.suite 2>&1 && suite_ok=$((suite_ok+1)); done
echo "demo without patch rc=$brc; with patch rc=$wrc; suite passes with patch: $suite_ok/3"
if [ $brc = 0 ] && [ $wrc != 0 ] && [ $suite_ok -ge 2 ]; then
  mkdir -p /verif/seeded/$ID
  cp "$SRC/patch.diff" "$SRC/demo_test.go" /verif/seeded/$ID/
  python3 - "$SRC/meta.json" "$ID" "$brc" "$wrc" "$suite_ok" "$TESTS" <<'PY'
import json,sys
src,ID,brc,wrc,ok,tests=sys.argv[1:]
try: m=json.load(open(src))
except Exception as e: m={"note":"agent meta unreadable: %s"%e}
m["seed_id"]=ID
m["confirmed_by_me"]={"demo_tests":tests,"demo_without_patch_rc":int(brc),"demo_with_patch_rc":int(wrc),"suite_runs_passed_with_patch":"%s/3"%ok,
  "how":"scratch worktree of /repo HEAD; go test -run demo before and after git apply; then full suite x3 with the patch (tools/seed_verify.sh)"}
json.dump(m,open("/verif/seeded/%s/meta.json"%ID,"w"),indent=1)
PY
  echo "KEPT $ID"
else
  echo "REJECTED $ID"; echo "--- base:"; echo "$base" | tail -5; echo "--- with:"; echo "$with" | tail -8; tail -5 /tmp/sv_$ID.suite
fi
rm -f /tmp/sv_$ID.suite
