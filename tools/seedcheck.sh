#!/bin/bash
# tools/seedcheck.sh <seed-id> [props...] — apply a kept seed to /repo, run the checks, undo.
ID="$1"; shift
cd /verif
git -C /repo apply /verif/seeded/$ID/patch.diff || exit 2
PROPS="$@"; [ -z "$PROPS" ] && PROPS=$(python3 -c "import json;print(' '.join(c['property_id'] for c in json.load(open('MANIFEST.json'))['checks']))")
fired=""
for p in $PROPS; do
  out=$(./bin/wscheck -prop $p -evidence /tmp/seedcheck.$p.json 2>&1); rc=$?
  if [ $rc != 0 ]; then fired="$fired $p"; echo "$out" | grep -A3 VIOLATION | head -6; fi
done
git -C /repo checkout -- .
rm -f /tmp/seedcheck.*.json
echo "SEED $ID fired:${fired:- NONE}"
