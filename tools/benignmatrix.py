#!/usr/bin/env python3
"""Runs every check against every behaviour-preserving change in benign/<id>/patch.diff (written by independent
sub-agents asked to refactor without changing behaviour), each applied to a scratch copy of /repo's current tree
(outside /repo and /verif, removed afterwards). Every check must stay silent. Never executes library code.
Writes benign/RESULTS.md."""
import concurrent.futures as cf, glob, json, os, sys
sys.path.insert(0, os.path.dirname(os.path.abspath(__file__)))
import seedmatrix as sm

VERIF = sm.VERIF


def main():
    items = [(os.path.basename(os.path.dirname(d)), d) for d in sorted(glob.glob(os.path.join(VERIF, "benign", "*", "patch.diff")))]
    only = set(sys.argv[1:])
    if only:
        items = [i for i in items if i[0] in only]
    res = {}
    with cf.ThreadPoolExecutor(max_workers=8) as ex:
        for (name, _), r in zip(items, ex.map(lambda it: sm.run(it[1]), items)):
            res[name] = r
            print(name, r["status"], " ".join("%s[%s]" % (p, ",".join(r["rules"][p])) for p in sorted(r["fired"])) or "silent", flush=True)
    lines = ["# Behaviour-preserving changes vs. checks", "",
             "Produced by tools/benignmatrix.py on scratch copies of /repo's current tree. Every check must stay silent.", "",
             "| change | kind | summary | result |", "|---|---|---|---|"]
    alarms = []
    for name, r in res.items():
        m = {}
        mp = os.path.join(VERIF, "benign", name, "meta.json")
        if os.path.exists(mp):
            m = json.load(open(mp))
        fired = "; ".join("%s: %s" % (p, ", ".join(r["rules"][p])) for p in sorted(r["fired"]))
        if r["status"] != "ok":
            fired = r["status"]
        if fired:
            alarms.append(name)
        lines.append("| %s | %s | %s | %s |" % (name, m.get("kind", ""), str(m.get("summary", "")).replace("|", "/").replace("\n", " ")[:160], fired or "silent"))
    lines += ["", "changes: %d; silent: %d; alarms: %s" % (len(res), len(res) - len(alarms), alarms or "none")]
    if not only and not os.environ.get("ONLY_PROP"):
        open(os.path.join(VERIF, "benign", "RESULTS.md"), "w").write("\n".join(lines) + "\n")
    if os.environ.get("SUMMARY_JSON"):
        json.dump({"changes": len(res), "silent": len(res) - len(alarms), "alarms": {n: res[n]["rules"] for n in alarms}}, open(os.environ["SUMMARY_JSON"], "w"), indent=1)
    print(lines[-1])


if __name__ == "__main__":
    main()
