#!/bin/sh
# usage: tools/trypatch.sh <patch.diff> [props...]   — applies the patch to a scratch copy of /repo (kept in /tmp/wst)
# and prints the non-passing output of the given checks (default: all). Debug helper; removes the previous copy.
# TRY_FULL=1 prints required/found lines too.
V=$(cd "$(dirname "$0")/.." && pwd)
rm -rf /tmp/wst; mkdir -p /tmp/wst
rsync -a --exclude .git /repo/ /tmp/wst/repo/
cp "$V/KNOWN_FINDINGS.txt" /tmp/wst/
git apply --unsafe-paths --directory=/tmp/wst/repo "$1" || exit 2
(cd /tmp/wst/repo && GOFLAGS=-mod=mod GOPROXY=off go build ./... ) || { echo "does not build"; exit 2; }
shift
props="$*"; [ -z "$props" ] && props=all
for p in $props; do
  if [ -n "$TRY_FULL" ]; then
    "$V/bin/wscheck" -repo /tmp/wst/repo -verif /tmp/wst -prop $p | grep -vE "^C[0-9]+ quick.* 0 violation|^KNOWN-FINDING"
  else
    "$V/bin/wscheck" -repo /tmp/wst/repo -verif /tmp/wst -prop $p | grep -E "^  [a-z_./0-9A-Z]+:[0-9]+: rule|undecided|^    found" | cut -c1-400
  fi
done
