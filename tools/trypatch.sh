#!/bin/sh
# usage: tools/trypatch.sh <patch.diff> [props...]   — applies the patch to a scratch copy of /repo (kept in /tmp/wst)
# and prints the non-passing output of the given checks (default: all). Debug helper; removes the previous copy.
V=$(cd "$(dirname "$0")/.." && pwd)
rm -rf /tmp/wst; mkdir -p /tmp/wst
rsync -a --exclude .git /repo/ /tmp/wst/repo/
git apply --unsafe-paths --directory=/tmp/wst/repo "$1" || exit 2
shift
props="$*"; [ -z "$props" ] && props=all
for p in $props; do
  "$V/bin/wscheck" -repo /tmp/wst/repo -verif /tmp/wst -prop $p | grep -vE "^C[0-9]+ quick.* 0 violation"
done
