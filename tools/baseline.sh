#!/bin/sh
# tools/baseline.sh [runs] [race] — run the repository's unedited suite N times (development aid, not a check).
N="${1:-3}"; RACE="$2"
export GOFLAGS=-mod=mod GOPROXY=off GOSUMDB=off GOTOOLCHAIN=local
REPO="${VERIF_REPO:-/repo}"
fail=0
i=1
while [ $i -le $N ]; do
  out=$(cd "$REPO" && timeout 300 go test -vet=off -count=1 -timeout 4m ./... 2>&1) || { echo "run $i FAILED"; echo "$out" | grep -v "no test files" | tail -40; fail=1; }
  out2=$(cd "$REPO/internal/thirdparty" && timeout 300 go test -vet=off -count=1 -timeout 4m ./... 2>&1) || { echo "thirdparty run $i FAILED"; echo "$out2" | tail -20; fail=1; }
  i=$((i+1))
done
if [ -n "$RACE" ]; then
  out=$(cd "$REPO" && timeout 600 go test -race -vet=off -count=1 -timeout 8m . 2>&1) || { echo "race run FAILED"; echo "$out" | tail -60; fail=1; }
fi
# count passing tests once via -json
n=$(cd "$REPO" && (timeout 300 go test -json -vet=off -count=1 -timeout 4m ./... 2>/dev/null; cd internal/thirdparty && timeout 300 go test -json -vet=off -count=1 -timeout 4m ./... 2>/dev/null) | grep -c '"Action":"pass","Package":"[^"]*","Test"')
echo "passing tests (one -json run): $n (baseline 227)"
[ $fail = 0 ] && echo "BASELINE OK ($N runs${RACE:+ + race})" || echo "BASELINE FAILED"
exit $fail
