#!/bin/sh
# usage: tools/trywrap.sh <subdir-or-.> <file.go:Func> [props...] — whole-body extraction of one function on a scratch copy (/tmp/wst)
V=$(cd "$(dirname "$0")/.." && pwd)
rm -rf /tmp/wst; mkdir -p /tmp/wst
rsync -a --exclude .git /repo/ /tmp/wst/repo/
"$V/bin/wrapgen" -dir /tmp/wst/repo/$1 -fn "$2" || exit 2
shift; shift
props="$*"; [ -z "$props" ] && props=all
for p in $props; do
  "$V/bin/wscheck" -repo /tmp/wst/repo -verif /tmp/wst -prop $p | grep -vE "^C[0-9]+ quick.* 0 violation"
done
