#!/usr/bin/env python3
"""For every function of the library: rewrite it into a forwarding wrapper around a new helper holding its old body
(bin/wrapgen, a behaviour-preserving refactoring), on a scratch copy of /repo's current tree, and run all 20 checks.
Every check must stay silent. Never executes library code. Writes benign/WRAP_RESULTS.md.
usage: tools/wrapmatrix.py [file.go:Func ...]"""
import concurrent.futures as cf, os, shutil, subprocess, sys, tempfile, collections

VERIF = os.path.dirname(os.path.dirname(os.path.abspath(__file__)))
REPO = os.environ.get("VERIF_REPO", "/repo")
ENV = dict(os.environ, GOFLAGS="-mod=mod", GOPROXY="off", GOSUMDB="off", GOTOOLCHAIN="local", GOWORK="off")
DIRS = ["", "wsjson", "internal/bpool", "internal/errd", "internal/xsync", "internal/util"]
PROPS = ["C%02d" % i for i in range(1, 21)]
if os.environ.get("ONLY_PROP"):
    PROPS = [os.environ["ONLY_PROP"]]


def run(item):
    sub, fn = item
    tmp = tempfile.mkdtemp(prefix="wswrap_")
    try:
        dst = os.path.join(tmp, "repo")
        shutil.copytree(REPO, dst, ignore=shutil.ignore_patterns(".git", "examples", "thirdparty"))
        a = subprocess.run([os.path.join(VERIF, "bin", "wrapgen"), "-dir", os.path.join(dst, sub), "-fn", fn], capture_output=True, text=True)
        if a.returncode != 0:
            return dict(status="wrapgen failed: " + a.stdout[-200:], rules={})
        b = subprocess.run(["go", "build", "./..."], cwd=dst, env=ENV, capture_output=True, text=True)
        if b.returncode != 0:
            return dict(status="does not build: " + b.stderr[-300:], rules={})
        rules = {}
        shutil.copy(os.path.join(VERIF, "KNOWN_FINDINGS.txt"), tmp)  # listed findings stay listed on the variants
        # one process for all properties (WSCHECK_SHARE=1: the variant tree is loaded once)
        os.makedirs(os.path.join(tmp, "evidence"), exist_ok=True)
        c = subprocess.run([os.path.join(VERIF, "bin", "wscheck"), "-repo", dst, "-verif", tmp, "-prop", "all" if len(PROPS) > 1 else PROPS[0]],
                           env=dict(ENV, WSCHECK_SHARE="1"), capture_output=True, text=True)
        cur = None
        sets = {}
        for l in c.stdout.splitlines():
            if l.startswith("VIOLATION property="):
                cur = l.split("property=")[1].split(" ")[0]
                sets.setdefault(cur, set())
            elif ": rule " in l and cur:
                sets[cur].add(l.split("rule ")[1].split(" ")[0])
            elif "undecided" in l and cur:
                sets[cur].add("undecided")
        for p, rs in sets.items():
            rules[p] = sorted(rs) or ["?"]
        return dict(status="ok", rules=rules)
    finally:
        shutil.rmtree(tmp, ignore_errors=True)


def main():
    items = []
    for sub in DIRS:
        out = subprocess.run([os.path.join(VERIF, "bin", "wrapgen"), "-dir", os.path.join(REPO, sub), "-list"], capture_output=True, text=True).stdout.split()
        items += [(sub, f) for f in out]
    only = set(sys.argv[1:])
    if only:
        items = [i for i in items if i[1] in only]
    res = {}
    byrule = collections.Counter()
    with cf.ThreadPoolExecutor(max_workers=int(os.environ.get("JOBS", "8"))) as ex:
        for it, r in zip(items, ex.map(run, items)):
            name = (it[0] + "/" if it[0] else "") + it[1]
            res[name] = r
            fired = " ".join("%s[%s]" % (p, ",".join(r["rules"][p])) for p in sorted(r["rules"]))
            for p in r["rules"]:
                for x in r["rules"][p]:
                    byrule[x] += 1
            if r["status"] != "ok" or fired:
                print(name, r["status"], fired, flush=True)
    alarms = [n for n, r in res.items() if r["rules"] or r["status"] != "ok"]
    lines = ["# Whole-body extraction of every function vs. checks", "",
             "Produced by tools/wrapmatrix.py: each function in turn becomes `func F(args) { return FImpl0(args) }` with the old body in the new helper.",
             "", "functions: %d; silent: %d; alarms: %s" % (len(res), len(res) - len(alarms), alarms or "none")]
    if not only and not os.environ.get("ONLY_PROP"):
        open(os.path.join(VERIF, "benign", "WRAP_RESULTS.md"), "w").write("\n".join(lines) + "\n")
    if os.environ.get("SUMMARY_JSON"):
        import json
        json.dump({"functions": len(res), "silent": len(res) - len(alarms), "alarms": {n: res[n]["rules"] for n in alarms}}, open(os.environ["SUMMARY_JSON"], "w"), indent=1)
    print(lines[-1])
    for k, v in byrule.most_common():
        print("  %3d %s" % (v, k))


if __name__ == "__main__":
    main()
