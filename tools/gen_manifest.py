#!/usr/bin/env python3
"""Regenerates MANIFEST.json from the table below (claimed properties + not_applicable)."""
import json, os
V = os.path.dirname(os.path.dirname(os.path.abspath(__file__)))
props = [json.loads(l) for l in open(os.path.join(V, "properties.jsonl"))]

NOTE = ("Trusted base: Go type checker and go/ssa (x/tools v0.29.0, vendored); documented contracts of the standard library "
        "functions the code delegates to; oracle tables transcribed from RFC 6455 / RFC 7692 / the property statement; "
        "instance-insensitive field identity (one Conn per object graph). Behavioural remainder listed under does_not_decide in the evidence.")

# id -> (technique, text)
CLAIMS = json.load(open(os.path.join(V, "tools", "claims.json")))

checks = []
na = []
for p in props:
    i = p["id"]
    if i in CLAIMS:
        c = CLAIMS[i]
        checks.append({
            "property_id": i,
            "quick_cmd": "./run.sh %s quick" % i,
            "thorough_cmd": "./run.sh %s thorough" % i,
            "evidence_file": "evidence/%s.json" % i,
            "replay_cmd_template": "./run.sh %s quick  # re-evaluates every obligation of the property on the current tree; {path} names the failing obligation" % i,
            "engine": "wscheck",
            "level_claimed": {"category": "other", "text": c["text"], "design_ref": "DESIGN.md section 4, " + i},
            "level_note": NOTE,
            "technique": c["technique"],
        })
    else:
        na.append({"property_id": i, "reason": "rule set not built yet (implementation in progress; see DESIGN.md section 4 for the planned rules)"})

m = {
    "version": 1,
    "setup_cmd": "./setup.sh",
    "hooks": {"guard": "verif", "enable": "none: static analysis reads /repo's working tree; no hooks are compiled into the library",
              "baseline_off_cmd": "cd /repo && go test -mod=mod -vet=off -count=1 -timeout 25m ./... && cd internal/thirdparty && go test -mod=mod -vet=off -count=1 -timeout 25m ./...",
              "source_commits": [], "add_only": True},
    "engines": [{"name": "wscheck", "path": "checker/", "serves_properties": sorted(CLAIMS.keys()),
                 "kind_free_text": "repository-specific static checker on go/packages + go/ssa (x/tools v0.29.0, vendored): resolved-site enumeration, lock-state dataflow, CFG bracket rules, path-sensitive predicate abstraction (decision tables vs RFC oracles), ownership/alias rules, call-graph reachability. Executes no library code."}],
    "checks": checks,
    "notes": "All checks are static (technique family: static analysis). Known findings: KNOWN_FINDINGS.txt (40 genuine defects F1-F40, all repaired by fix: commits in /repo, each with a reverse patch in regressions/ that its rule reports; no recorded finding is left, no check prints KNOWN-FINDING on the current tree). Sensitivity corpus: mutants/*.json via tools/mutants.py; seeded changes from independent sub-agents: seeded/.",
    "not_applicable": na,
}
json.dump(m, open(os.path.join(V, "MANIFEST.json"), "w"), indent=1)
print("checks:", len(checks), "not_applicable:", len(na))
