#!/usr/bin/env python3
"""Sensitivity corpus runner (never executes library code).

For each mutant in mutants/*.json (a list of {id, prop, file, old, new, note, [expect_rule]}),
copy /repo's current tree to a scratch directory outside /repo and /verif, apply the edit if
`old` occurs exactly once, type-check it (go build), run the property's rules on the copy in a
separate process and expect a VIOLATION. Prints one line per mutant and a summary; writes
evidence/mutants.<prop>.json when --write is given.

usage: tools/mutants.py [--prop C03] [--id m1,m2] [--write] [--jobs N] [--keep]
"""
import argparse, glob, json, os, shutil, subprocess, sys, tempfile, concurrent.futures as cf

VERIF = os.path.dirname(os.path.dirname(os.path.abspath(__file__)))
REPO = os.environ.get("VERIF_REPO", "/repo")
ENV = dict(os.environ, GOFLAGS="-mod=mod", GOPROXY="off", GOSUMDB="off", GOTOOLCHAIN="local", GOWORK="off")


def load(prop=None, ids=None):
    out = []
    for f in sorted(glob.glob(os.path.join(VERIF, "mutants", "*.json"))):
        for m in json.load(open(f)):
            if prop and prop not in m["prop"].split(","):
                continue
            if ids and m["id"] not in ids:
                continue
            out.append(m)
    return out


ONLY_PROP = None


def run_one(m, keep=False, build=True):
    tmp = tempfile.mkdtemp(prefix="wsmut_", dir=os.environ.get("TMPDIR", "/tmp"))
    res = dict(id=m["id"], prop=m["prop"], note=m.get("note", ""))
    try:
        dst = os.path.join(tmp, "repo")
        shutil.copytree(REPO, dst, ignore=shutil.ignore_patterns(".git", "internal/examples", "internal/thirdparty"))
        edits = m.get("edits") or [dict(file=m["file"], old=m["old"], new=m["new"])]
        for e in edits:
            if "rename" in e:  # whole-tree regex renames: [[pattern, replacement], ...] over every .go file
                import re
                hits = 0
                for root, _, files in os.walk(dst):
                    for fn in files:
                        if fn.endswith(".go"):
                            pth = os.path.join(root, fn)
                            src = open(pth).read()
                            new = src
                            for pat, rep in e["rename"]:
                                new = re.sub(pat, rep, new)
                            if new != src:
                                hits += 1
                                open(pth, "w").write(new)
                if hits == 0:
                    res["status"] = "inapplicable"
                    res["detail"] = "rename matched nothing"
                    return res
                continue
            path = os.path.join(dst, e["file"])
            src = open(path).read()
            if src.count(e["old"]) != 1:
                res["status"] = "inapplicable"
                res["detail"] = "anchor occurs %d times in %s" % (src.count(e["old"]), e["file"])
                return res
            open(path, "w").write(src.replace(e["old"], e["new"]))
        if build:
            b = subprocess.run(["go", "build", "./..."], cwd=dst, env=ENV, capture_output=True, text=True)
            if b.returncode != 0:
                res["status"] = "does-not-compile"
                res["detail"] = b.stderr[-400:]
                return res
        fired = []
        outs = []
        shutil.copy(os.path.join(VERIF, "KNOWN_FINDINGS.txt"), tmp)  # listed findings stay listed on the variants
        for prop in ([ONLY_PROP] if ONLY_PROP else m["prop"].split(",")):
            ev = os.path.join(tmp, prop + ".json")
            c = subprocess.run([os.path.join(VERIF, "bin", "wscheck"), "-repo", dst, "-verif", tmp, "-prop", prop, "-tier", "quick", "-evidence", ev],
                               env=ENV, capture_output=True, text=True)
            outs.append(c.stdout)
            if c.returncode == 1 and "VIOLATION property=" + prop in c.stdout:
                fired.append(prop)
        out = "\n".join(outs)
        rules = sorted(set(l.split("rule ")[1].split(" ")[0] for l in out.splitlines() if ": rule " in l))
        res["rules"] = rules
        undec = "undecided" in out
        if fired:
            res["status"] = "detected"
            if m.get("expect_rule") and not any(r.startswith(m["expect_rule"]) for r in rules):
                res["status"] = "detected-other-rule"
            if undec and not rules:
                res["status"] = "detected-as-undecided"
        else:
            res["status"] = "MISSED"
        if m.get("benign"):
            res["status"] = "FALSE-ALARM" if fired else "benign-silent"
        res["detail"] = "; ".join(rules)[:300]
        return res
    finally:
        if not keep:
            shutil.rmtree(tmp, ignore_errors=True)
        else:
            res["dir"] = tmp


def main():
    ap = argparse.ArgumentParser()
    ap.add_argument("--prop")
    ap.add_argument("--id")
    ap.add_argument("--write", action="store_true")
    ap.add_argument("--jobs", type=int, default=8)
    ap.add_argument("--keep", action="store_true")
    ap.add_argument("--nobuild", action="store_true")
    ap.add_argument("--only-prop", action="store_true", help="run only the --prop check on each selected mutant")
    a = ap.parse_args()
    global ONLY_PROP
    if a.prop and a.only_prop:
        ONLY_PROP = a.prop
    ms = load(a.prop, set(a.id.split(",")) if a.id else None)
    if not ms:
        print("no mutants selected")
        return 0
    results = []
    with cf.ThreadPoolExecutor(max_workers=a.jobs) as ex:
        for r in ex.map(lambda m: run_one(m, a.keep, not a.nobuild), ms):
            results.append(r)
            print("%-28s %-10s %-22s %s" % (r["id"], r["prop"], r["status"], r.get("detail", "")[:140]))
    fa = [r["id"] for r in results if r["status"] == "FALSE-ALARM"]
    if fa:
        print("FALSE ALARMS on behaviour-preserving edits:", fa)
    app = [r for r in results if r["status"] not in ("inapplicable", "does-not-compile", "benign-silent", "FALSE-ALARM")]
    det = [r for r in app if r["status"].startswith("detected")]
    print("mutants: %d selected, %d applicable, %d detected, missed: %s" % (len(results), len(app), len(det), [r["id"] for r in app if r["status"] == "MISSED"]))
    if a.write:
        os.makedirs(os.path.join(VERIF, "evidence"), exist_ok=True)
        name = "mutants.%s.json" % (a.prop or "all")
        json.dump(dict(selected=len(results), applicable=len(app), detected=len(det), benign_silent=len([r for r in results if r["status"] == "benign-silent"]), false_alarms=fa,
                       missed=[r["id"] for r in app if r["status"] == "MISSED"], results=results), open(os.path.join(VERIF, "evidence", name), "w"), indent=1)
    return 0


if __name__ == "__main__":
    sys.exit(main())
