#!/usr/bin/env python3
"""Runs every check against every kept seeded change (seeded/<id>/patch.diff) and against the
reverse patches of the fix commits (regressions/Fx.diff), each applied to a scratch copy of
/repo's current tree (outside /repo and /verif, removed afterwards). Never executes library code.
Writes seeded/RESULTS.md and updates seeded/<id>/meta.json (caught_by)."""
import concurrent.futures as cf, glob, json, os, shutil, subprocess, sys, tempfile

VERIF = os.path.dirname(os.path.dirname(os.path.abspath(__file__)))
REPO = os.environ.get("VERIF_REPO", "/repo")
ENV = dict(os.environ, GOFLAGS="-mod=mod", GOPROXY="off", GOSUMDB="off", GOTOOLCHAIN="local", GOWORK="off")
PROPS = ["C%02d" % i for i in range(1, 21)]
if os.environ.get("ONLY_PROP"):
    PROPS = [os.environ["ONLY_PROP"]]


def run(patch):
    tmp = tempfile.mkdtemp(prefix="wsseed_")
    try:
        dst = os.path.join(tmp, "repo")
        shutil.copytree(REPO, dst, ignore=shutil.ignore_patterns(".git", "examples", "thirdparty"))
        a = subprocess.run(["git", "apply", "--unsafe-paths", "--directory=" + dst, patch], cwd=tmp, capture_output=True, text=True)
        if a.returncode != 0:
            a = subprocess.run(["patch", "-p1", "-s", "-i", patch], cwd=dst, capture_output=True, text=True)
            if a.returncode != 0:
                return dict(status="patch does not apply: " + (a.stderr or a.stdout)[-200:], fired={}, rules={})
        b = subprocess.run(["go", "build", "./..."], cwd=dst, env=ENV, capture_output=True, text=True)
        if b.returncode != 0:
            return dict(status="does not build", fired={}, rules={})
        fired, rules = {}, {}
        shutil.copy(os.path.join(VERIF, "KNOWN_FINDINGS.txt"), tmp)  # listed findings stay listed on the variants
        # one process for all properties (WSCHECK_SHARE=1: the variant tree is loaded once); the output is the same as
        # that of 20 single-property runs
        env = dict(ENV, WSCHECK_SHARE="1")
        os.makedirs(os.path.join(tmp, "evidence"), exist_ok=True)
        c = subprocess.run([os.path.join(VERIF, "bin", "wscheck"), "-repo", dst, "-verif", tmp, "-prop", "all" if len(PROPS) > 1 else PROPS[0]],
                           env=env, capture_output=True, text=True)
        cur = None
        und = {}
        for l in c.stdout.splitlines():
            if l.startswith("VIOLATION property="):
                cur = l.split("property=")[1].split(" ")[0]
                fired[cur] = True
                rules.setdefault(cur, set())
            elif ": rule " in l and cur:
                rules[cur].add(l.split("rule ")[1].split(" ")[0])
            elif "undecided" in l and cur:
                und[cur] = True
        for p in list(rules):
            rs = sorted(rules[p])
            rules[p] = rs if rs else (["undecided"] if und.get(p) else ["?"])
        if c.returncode not in (0, 1):
            return dict(status="checker failed rc=%d: %s" % (c.returncode, (c.stderr or c.stdout)[-300:]), fired=fired, rules=rules)
        return dict(status="ok", fired=fired, rules=rules)
    finally:
        shutil.rmtree(tmp, ignore_errors=True)


def main():
    items = []
    for d in sorted(glob.glob(os.path.join(VERIF, "seeded", "*", "patch.diff"))):
        items.append((os.path.basename(os.path.dirname(d)), d))
    for d in sorted(glob.glob(os.path.join(VERIF, "regressions", "F*.diff"))):
        items.append(("regression-" + os.path.basename(d)[:-5], d))
    only = set(sys.argv[1:])
    if only:
        items = [i for i in items if i[0] in only]
    res = {}
    with cf.ThreadPoolExecutor(max_workers=8) as ex:
        for (name, _), r in zip(items, ex.map(lambda it: run(it[1]), items)):
            res[name] = r
            print(name, r["status"], " ".join("%s[%s]" % (p, ",".join(r["rules"][p])) for p in sorted(r["fired"])) or "NONE", flush=True)
    lines = ["# Seeded changes and regressions vs. checks", "",
             "Produced by tools/seedmatrix.py on scratch copies of /repo's current tree (static analysis only).",
             "`own` = the check of the property the change was written against fired; other columns list every check that fired and the rules.", "",
             "| change | breaks | own check fired | checks that fired (rules) |", "|---|---|---|---|"]
    miss = []
    for name, r in res.items():
        own = name.split("-")[0] if not name.startswith("regression") else ""
        if name.startswith("regression"):
            own = {"F1": "C16", "F2": "C04", "F3": "C03", "F4": "C05", "F5": "C09", "F6": "C20", "F7": "C07", "F8": "C04", "F9": "C03", "F10": "C10", "F11": "C08", "F12": "C04", "F13": "C03", "F14": "C06", "F15": "C09", "F16": "C06", "F17": "C14", "F18": "C03", "F19": "C01", "F20": "C18", "F21": "C11", "F22": "C11", "F23": "C13", "F24": "C14", "F25": "C14", "F26": "C11", "F27": "C12", "F28": "C12", "F29": "C12", "F30": "C13", "F31": "C18", "F32": "C18", "F33": "C18", "F34": "C10", "F35": "C03", "F36": "C06", "F37": "C10", "F38": "C05", "F39": "C02", "F40": "C03"}.get(name.split("-")[1], "")
        ownf = "yes" if r["fired"].get(own) else "NO"
        if ownf == "NO":
            miss.append(name)
        lines.append("| %s | %s | %s | %s |" % (name, own, ownf, "; ".join("%s: %s" % (p, ", ".join(r["rules"][p])) for p in sorted(r["fired"])) or r["status"]))
        mp = os.path.join(VERIF, "seeded", name, "meta.json")
        if os.path.exists(mp):
            m = json.load(open(mp))
            m["caught_by"] = {p: r["rules"][p] for p in sorted(r["fired"])}
            m["own_check_fired"] = ownf == "yes"
            json.dump(m, open(mp, "w"), indent=1)
    lines += ["", "changes: %d; own check fired: %d; not caught by own check: %s" % (len(res), len(res) - len(miss), miss or "none")]
    if not only:
        open(os.path.join(VERIF, "seeded", "RESULTS.md"), "w").write("\n".join(lines) + "\n")
    print(lines[-1])


if __name__ == "__main__":
    main()
