#!/bin/bash
# tools/rebase_patch.sh <patch.diff> — re-create a patch that was written against an older commit of /repo on the current
# HEAD by a 3-way merge (cherry-pick) in a scratch clone. Prints OK <base> and overwrites the patch, or FAIL.
P="$1"
W=/tmp/rbp_$$
rm -rf $W; git clone -q /repo $W || exit 2
cd $W; git config user.email x@x; git config user.name x
HEADC=$(git rev-parse HEAD)
for B in $(git log --format=%h | tail -n +2); do
  git checkout -q $B 2>/dev/null || continue
  if git apply --check "$P" 2>/dev/null; then
    git apply "$P" && git add -A && git commit -qm tmp
    T=$(git rev-parse HEAD)
    git checkout -q $HEADC
    if git cherry-pick $T >/dev/null 2>&1; then
      git diff HEAD~1 HEAD > "$P.new" && mv "$P.new" "$P"
      echo "OK $B $P"; cd /; rm -rf $W; exit 0
    else
      git cherry-pick --abort 2>/dev/null
      echo "CONFLICT $B $P"; cd /; rm -rf $W; exit 1
    fi
  fi
done
echo "FAIL no base $P"; cd /; rm -rf $W; exit 1
